"""C05 — the reconstruction is the true (non-negative) least-squares optimum.

Case kinds
  solver     autoarray.util.fnnls.fnnls_cholesky(ZTZ, ZTx, P_initial) on SPD systems
  recon      inversion_util.reconstruction_positive_negative_from / reconstruction_positive_only_from
  inversion  real aa.Inversion objects (mapping and w-tilde formalism, rectangular mappers + function
             lists): .reconstruction / .reconstruction_dict / .mapped_reconstructed_data_dict /
             .mapped_reconstructed_data with the settings product
  chol       the Cholesky bookkeeping of fnnls_cholesky (Model/Cholesky.lean): the REAL
             cholesky_funcs.cholinsertlast / choldeleteindexes / _cholupdate and scipy.linalg.cho_solve /
             scipy.linalg.cholesky against the model (Float with Float.sqrt, or exact Rat when every root
             is rational: A = R'R from a dyadic upper-triangular R inserted in R's order): insert sequences
             followed by delete sets in every position (incl. the last, several at once, unsorted,
             list / tuple / ndarray), and the functions one at a time on arbitrary triangular arrays.
             Oracle: U is upper triangular with positive diagonal and U'U equals the principal submatrix
             A[P][:, P] (exact integer arithmetic on the float output, explicit tolerance).
  round 4 (design_notes/C05.md "Round 4 hardening"):
  solver / inversion `tie` family   permutation-invariant systems whose passive variables reach zero at exactly the
             same step length (ratio ties of fix_constraint_cholesky), classified by an exact trace of the algorithm
  history    short typed histories on REUSED objects (the same caller-owned arrays / SettingsInversion / dataset /
             linear objects over several calls, near-duplicate twins, fault-then-reuse, two worlds in both orders,
             decoy reads first, permuted read order); every step is judged as the single call it is against a
             fresh object in that state
  big        large systems described by a seed (planted optimum with strict complementarity, or noise-dominated
             data): NO model comparison, a vectorised numpy oracle judges alone; a small always-on sample plus the
             constant-directed `generate_large` (sizes c-1, c, c+1, c+c//3+1, 2c+1 in every size dimension)
The model (Lean, exact rationals) receives the same system (for `inversion`: the F+H and D the
implementation built — their construction is C04's subject) and returns the exact optimum; solutions are
compared at 1e-7 of the solution scale (unique optimum of a PD problem => stable), mapped data at 1e-9.
The oracle evaluates the KKT certificate in exact Fractions on the implementation's float output with an
explicit slack.
"""
from __future__ import annotations

import itertools
from fractions import Fraction

import numpy as np

import gen
from common import Cmp, PropertyCheck, Skip, load_autoarray, q, qlist, qmat

EPS = 2.2204e-16  # the constant in fnnls_cholesky
REL_SOL = Fraction(1, 10**7)  # solution comparison / DESIGN §2.4
REL_MAP = Fraction(1, 10**9)
KKT_SLACK = Fraction(1, 10**9)  # relative slack of the oracle (times |A|·|d|_1 + |b|)
F = Fraction


# ------------------------------------------------------------------------------------------------
# exact helpers (oracle side; independent of the code under test and of the Lean model)
# ------------------------------------------------------------------------------------------------
def fr_mat(m):
    return [[F(x) for x in r] for r in m]


def fr_vec(v):
    return [F(x) for x in v]


def matvec(A, x):
    return [sum((a * xi for a, xi in zip(row, x)), F(0)) for row in A]


def exact_float(x: Fraction) -> float:
    f = float(x)
    if F(f) != x:
        raise ValueError(f"{x} is not an exact double")
    return f


def np_mat(A):
    return np.array([[float(x) for x in r] for r in A], dtype=float).reshape(len(A), len(A[0]) if A else 0)


def np_vec(b):
    return np.array([float(x) for x in b], dtype=float)


def typed(vals, dtype, shape=None):
    """numpy array of the exact values in the requested dtype (round-3 hardening: the exact model does not
    care about the dtype, the code must not either). int64 only for integral values."""
    if dtype == "int64":
        assert all(F(v).denominator == 1 for v in np.ravel(np.array(vals, dtype=object)))
        arr = np.array([[int(F(x)) for x in r] for r in vals] if vals and isinstance(vals[0], (list, tuple))
                       else [int(F(x)) for x in vals], dtype=np.int64)
    else:
        arr = np.array([[float(F(x)) for x in r] for r in vals] if vals and isinstance(vals[0], (list, tuple))
                       else [float(F(x)) for x in vals], dtype=np.float64)
    if shape is not None:
        arr = arr.reshape(shape)
    return arr


def spd_int(rng, n):
    """integer-valued SPD matrix (Gram of a small integer matrix + integer ridge)"""
    m = n + rng.choice([0, 1, 2])
    Z = [[rng.randint(-3, 3) for _ in range(n)] for _ in range(max(1, m))]
    ridge = rng.choice([1, 1, 2])
    return [[F(sum(Z[k][i] * Z[k][j] for k in range(len(Z))) + (ridge if i == j else 0)) for j in range(n)]
            for i in range(n)]


def kkt_check(A, b, d, allow_tol):
    """KKT certificate of  min 1/2 d'Ad - b'd, d >= 0  on exact Fractions with an explicit slack.
    Returns (ok, detail)."""
    n = len(b)
    if len(d) != n:
        return False, f"solution has length {len(d)} for a system of size {n}"
    if any(x < 0 for x in d):
        i = min(range(n), key=lambda k: d[k])
        return False, f"s[{i}] = {float(d[i])!r} < 0"
    Ad = matvec(A, d)
    amax = max((abs(x) for r in A for x in r), default=F(0))
    slack = KKT_SLACK * (amax * sum(abs(x) for x in d) + max((abs(x) for x in b), default=F(0))) + allow_tol
    for i in range(n):
        g = Ad[i] - b[i]
        if d[i] > 0 and abs(g) > slack:
            return False, (f"gradient on positive entry s[{i}]={float(d[i])!r} is {float(g)!r} "
                           f"(slack {float(slack):.3e})")
        if d[i] == 0 and g < -slack:
            return False, f"gradient on zero entry {i} is {float(g)!r} < 0 (slack {float(slack):.3e})"
    return True, ""


def exact_solve(A, b):
    """Gauss-Jordan in Fractions; None if singular."""
    n = len(b)
    M = [list(r) + [bi] for r, bi in zip(A, b)]
    for c in range(n):
        piv = next((r for r in range(c, n) if M[r][c] != 0), None)
        if piv is None:
            return None
        M[c], M[piv] = M[piv], M[c]
        pv = M[c][c]
        M[c] = [x / pv for x in M[c]]
        for r in range(n):
            if r != c and M[r][c] != 0:
                f = M[r][c]
                M[r] = [x - f * y for x, y in zip(M[r], M[c])]
    return [M[i][n] for i in range(n)]


def exact_nnls(A, b):
    """textbook Lawson-Hanson in exact arithmetic (independent of the code under test and of the Lean
    model); used only to classify failing inputs (is the exact optimum degenerate?)."""
    n = len(b)
    P = []
    x = [F(0)] * n
    for _ in range(10 * n + 10):
        w = [bi - v for bi, v in zip(b, matvec(A, x))]
        cand = [i for i in range(n) if i not in P and w[i] > 0]
        if not cand:
            return x
        P.append(max(cand, key=lambda i: w[i]))
        while True:
            sub = exact_solve([[A[i][j] for j in P] for i in P], [b[i] for i in P])
            if sub is None:
                return None
            z = [F(0)] * n
            for k, i in enumerate(P):
                z[i] = sub[k]
            if all(z[i] > 0 for i in P):
                x = z
                break
            alpha = min(x[i] / (x[i] - z[i]) for i in P if z[i] <= 0)
            x = [xi + alpha * (zi - xi) for xi, zi in zip(x, z)]
            P = [i for i in P if x[i] > 0]
    return None


def degenerate_optimum(A, b):
    """True iff the exact minimiser s* of 1/2 s'As - b's, s >= 0 has an index with s*_i = 0 whose gradient
    vanishes too (to 1e-10 of the gradient scale): strict complementarity fails."""
    x = exact_nnls(A, b)
    if x is None:
        return False
    g = [v - bi for v, bi in zip(matvec(A, x), b)]
    scale = max([abs(v) for v in b] + [F(1, 2**40)])
    return any(x[i] == 0 and abs(g[i]) <= scale / 10**10 for i in range(len(b)))


def sol_scale(A, b, ref):
    amax = max((abs(x) for r in A for x in r), default=F(1)) or F(1)
    bmax = max((abs(x) for x in b), default=F(0))
    return max([abs(F(x)) for x in ref] + [bmax / amax, F(1, 2**40)])


def rel_tol(A):
    """relative tolerance of a solution comparison: 1e-7 (DESIGN §2.4), widened for ill-conditioned systems
    to 8·cond₂(A)·2⁻⁵³ — the forward error a backward-stable float solve is entitled to (real inversions
    with Constant regularization reach cond ~ 1e10)."""
    if not A:
        return REL_SOL
    c = float(np.linalg.cond(np_mat(A)))
    if not np.isfinite(c):
        return REL_SOL
    return max(REL_SOL, F(8 * c * 2.0 ** -53))


def nonfinite_in(vals):
    """index of the first entry of a list of "p/q" strings (or nested lists of them) that is nan / inf, else None.
    (a non-finite entry in a returned solution / factor is an observation the oracle must judge, not an error of
    the harness: round 4, C05-r4m2 returned NaN vectors)"""
    for i, v in enumerate(vals):
        if isinstance(v, (list, tuple)):
            k = nonfinite_in(v)
            if k is not None:
                return (i, k)
        elif isinstance(v, str) and v in ("nan", "inf", "-inf"):
            return i
        elif isinstance(v, float) and (v != v or v in (float("inf"), float("-inf"))):
            return i
    return None


def diff_vec(cmp: Cmp, impl, model, tol, path):
    if len(impl) != len(model):
        return f"{path}: length impl={len(impl)} model={len(model)}"
    k = nonfinite_in(impl)
    if k is not None:
        return f"{path}[{k}]: impl={impl[k]!r} (not finite) model={float(F(model[k]))!r}"
    for i, (a, m) in enumerate(zip(impl, model)):
        a, m = F(a), F(m)
        if a == m:
            cmp.exact += 1
        elif abs(a - m) <= tol:
            cmp.tolerant += 1
        else:
            return f"{path}[{i}]: impl={float(a)!r} model={float(m)!r} (|Δ|={float(abs(a-m)):.3e}, tol={float(tol):.3e})"
    return None



# ------------------------------------------------------------------------------------------------
# Cholesky bookkeeping: exact helpers on float outputs (scaled integers: no gcds)
# ------------------------------------------------------------------------------------------------
CHOL_REL = Fraction(1, 10**9)  # model (float) vs implementation (float): relative, widened by cond
CHOL_ORACLE = Fraction(1, 10**10)  # |U'U - A_PP| <= CHOL_ORACLE * max|A_PP| * (ops + 1)


def _p2(den):
    k = den.bit_length() - 1
    if den != 1 << k:
        raise ValueError("not a dyadic rational")
    return k


def scaled_ints(rows):
    """rows of dyadic rationals (Fractions / "p/q" strings of doubles) -> (rows of ints, s) with value = int / 2^s"""
    fr = [[F(x) for x in r] for r in rows]
    s = max((_p2(x.denominator) for r in fr for x in r), default=0)
    return [[x.numerator << (s - _p2(x.denominator)) for x in r] for r in fr], s


def gram_exact(U):
    """(G, s2): G[i][j] = sum_k U[k][i] U[k][j] as integers at scale 2^-s2, exactly"""
    Ui, s = scaled_ints(U)
    n = len(Ui)
    cols = [[Ui[k][i] for k in range(n)] for i in range(n)]
    return [[sum(a * b for a, b in zip(cols[i], cols[j])) for j in range(n)] for i in range(n)], 2 * s


def upper_posdiag(U):
    n = len(U)
    for i in range(n):
        if len(U[i]) != n:
            return f"row {i} has length {len(U[i])} in a {n}x{n} factor"
        for j in range(i):
            if F(U[i][j]) != 0:
                return f"U[{i},{j}] = {float(F(U[i][j]))!r} below the diagonal"
        if F(U[i][i]) <= 0:
            return f"diagonal U[{i},{i}] = {float(F(U[i][i]))!r} is not positive"
    return None


def gram_matches(U, M, ops, what):
    """U'U == M (Fractions) to CHOL_ORACLE * max|M| * (ops + 1); None or a description"""
    n = len(M)
    if len(U) != n:
        return f"{what}: factor is {len(U)}x{len(U)} for a {n}x{n} matrix"
    G, s2 = gram_exact(U)
    scale = max([abs(x) for r in M for x in r] + [F(1, 2**40)])
    tol = CHOL_ORACLE * scale * (ops + 1)
    tol_i = (tol.numerator << s2) // tol.denominator
    for i in range(n):
        for j in range(n):
            m = F(M[i][j])
            mi = (m.numerator << s2) // m.denominator if _p2(m.denominator) <= s2 else None
            d = abs(G[i][j] - mi) if mi is not None else abs(F(G[i][j], 1 << s2) - m) * (1 << s2)
            if d > tol_i:
                return (f"{what}: (U'U)[{i},{j}] = {float(F(G[i][j], 1 << s2))!r} but the matrix entry is "
                        f"{float(m)!r} (tol {float(tol):.3e})")
    return None


def chol_tol(M):
    """relative tolerance float-vs-float / float-vs-exact for quantities computed through a factor of M"""
    if not M:
        return CHOL_REL
    c = float(np.linalg.cond(np_mat(M)))
    if not np.isfinite(c):
        return None
    return max(CHOL_REL, F(64 * c * 2.0 ** -53))


def chol_R(rng, n, wide=True):
    """dyadic upper-triangular n x n with positive diagonal (steps of 1/4)"""
    R = [[F(0)] * n for _ in range(n)]
    dens = rng.choice([1.0, 0.7, 0.4])
    lim = 8 if (wide and n <= 8) else 4
    for i in range(n):
        R[i][i] = F(rng.randint(4, 16), 4)
        for j in range(i + 1, n):
            if rng.random() < dens:
                R[i][j] = F(rng.randint(-lim, lim), 4)
    return R


def gram_fr(R):
    n = len(R)
    return [[sum((R[k][i] * R[k][j] for k in range(n)), F(0)) for j in range(n)] for i in range(n)]


def spd_from_R(R, perm):
    """A with A[perm[a]][perm[b]] = (R'R)[a][b]: inserting perm[0], perm[1], ... meets only rational roots"""
    n = len(R)
    G = gram_fr(R)
    A = [[F(0)] * n for _ in range(n)]
    for a in range(n):
        for b in range(n):
            A[perm[a]][perm[b]] = G[a][b]
    return A


def natural_entering_order(A, b):
    """True iff exact Lawson-Hanson on (A, b) only ever holds passive lists [0, 1, .., k) in this order"""
    n = len(b)
    P = []
    x = [F(0)] * n
    for _ in range(10 * n + 10):
        w = [bi - v for bi, v in zip(b, matvec(A, x))]
        cand = [i for i in range(n) if i not in P and w[i] > 0]
        if not cand:
            return True
        P.append(max(cand, key=lambda i: (w[i], -i)))
        while True:
            if P != list(range(len(P))):
                return False
            sub = exact_solve([[A[i][j] for j in P] for i in P], [b[i] for i in P])
            if sub is None:
                return False
            z = [F(0)] * n
            for k, i in enumerate(P):
                z[i] = sub[k]
            if all(z[i] > 0 for i in P):
                x = z
                break
            alpha = min(x[i] / (x[i] - z[i]) for i in P if z[i] <= 0)
            x = [xi + alpha * (zi - xi) for xi, zi in zip(x, z)]
            P = [i for i in P if x[i] > 0]
    return False


def np_delete_positions(P, dels):
    ds = set(int(d) for d in dels)
    return [v for k, v in enumerate(P) if k not in ds]


# ------------------------------------------------------------------------------------------------
# round 4: exact active-set trace (tie detection), swap-symmetric systems, large oracle-only systems
# ------------------------------------------------------------------------------------------------
def lh_trace(A, b, P0=None, max_iter=400):
    """The active-set iteration of fnnls_cholesky in EXACT arithmetic (tolerance 0), written from the algorithm
    (Bro & de Jong) and independent of the code under test and of the Lean model: same entering rule (largest w
    among the active indices, lowest index first), same warm-start acceptance (guess kept iff its passive-set
    solution is positive everywhere), remove-all leaving rule.  Used ONLY to classify inputs: it counts the
    steps in which two or more passive variables reach zero at exactly the same step length (ratio ties) and
    the steps in which the whole passive set leaves.  returns (x | None, ties, iterations)"""
    n = len(b)
    x = [F(0)] * n
    P = []
    ties = 0
    if P0:
        P0 = list(dict.fromkeys(int(i) for i in P0))
        sub = exact_solve([[A[i][j] for j in P0] for i in P0], [b[i] for i in P0])
        if sub is not None and all(v > 0 for v in sub):
            P = P0
            for k, i in enumerate(P):
                x[i] = sub[k]
    for it in range(max_iter):
        w = [bi - v for bi, v in zip(b, matvec(A, x))]
        if not any(w[i] > 0 for i in range(n) if i not in P):
            return x, ties, it
        wm = [F(0) if i in P else w[i] for i in range(n)]
        P = P + [max(range(n), key=lambda i: (wm[i], -i))]
        while P:
            sub = exact_solve([[A[i][j] for j in P] for i in P], [b[i] for i in P])
            if sub is None:
                return None, ties, it
            z = [F(0)] * n
            for k, i in enumerate(P):
                z[i] = sub[k]
            if all(z[i] > 0 for i in P):
                x = z
                break
            alpha = min((x[i] / (x[i] - z[i]) if x[i] != z[i] else F(0)) for i in P if z[i] <= 0)
            x = [xi + alpha * (zi - xi) for xi, zi in zip(x, z)]
            if sum(1 for i in P if x[i] <= 0) >= 2:
                ties += 1
            P = [i for i in P if x[i] > 0]
            x = [x[i] if i in P else F(0) for i in range(n)]
    return None, ties, max_iter


def sym_design(rng, n):
    """(M, x, v, orbits): an integer design (rows = data pixels, columns = parameters), data x and ridge v such that
    A = M'M + v*I and b = M'x are invariant under EVERY permutation inside each orbit of parameters (mirror-image
    linear objects / source pixels with identical data and noise): rows constant on the orbits, plus, per orbit,
    the full set of images of one row (value a at one position of the orbit, b at the others; same datum).  On such
    a system the passive values of an orbit are EQUAL, so a variable entering later drives them to zero at exactly
    the same step length: the ratio tie of fix_constraint_cholesky."""
    kinds = ["pair", "pair", "pair"] + (["pair2", "triple"] if n >= 4 else []) + (["pair_triple"] if n >= 6 else [])
    sizes = {"pair": [2], "pair2": [2, 2], "triple": [3], "pair_triple": [2, 3]}[rng.choice(kinds)]
    idx = rng.sample(range(n), n)
    orbits, pos = [], 0
    for sz in sizes:
        orbits.append(sorted(idx[pos:pos + sz]))
        pos += sz
    rep = list(range(n))
    for o in orbits:
        for i in o:
            rep[i] = o[0]
    M, x = [], []
    for _ in range(rng.randint(1, n + 1)):
        r = [rng.randint(-2, 2) for _ in range(n)]
        M.append([r[rep[i]] for i in range(n)])
        x.append(rng.randint(-3, 3))
    for o in orbits:
        if rng.random() < 0.8:
            r = [rng.randint(-2, 2) for _ in range(n)]
            base = [r[rep[i]] for i in range(n)]
            a = rng.choice([v for v in (-2, -1, 0, 1, 2, 3) if v != base[o[0]]])
            datum = rng.randint(-3, 3)
            for i in o:
                row = base[:]
                row[i] = a
                M.append(row)
                x.append(datum)
    return M, x, rng.choice([1, 1, 2]), orbits


def design_system(M, x, v):
    n = len(M[0])
    A = [[F(sum(r[i] * r[j] for r in M) + (v if i == j else 0)) for j in range(n)] for i in range(n)]
    b = [F(sum(r[i] * xv for r, xv in zip(M, x))) for i in range(n)]
    return A, b


def cold_tie_core(rng):
    """(M, x, v) | None: a 3-column integer design (columns 0 and 1 mirror images, column 2 a weak, strongly
    correlated third parameter) for which the COLD-started active-set loop puts the pair into the passive set first
    and the third parameter then drives both out at the same step length.  Candidates are pre-filtered with the
    closed form of that path for A = [[a,c,e],[c,a,e],[e,e,f]], b = [p,p,r] (pair first: p >= r and
    p(a-c+e) >= a r; third enters: r(a+c) > 2ep; pair driven out: pf <= er) and confirmed by the exact trace."""
    M, x = [], []
    m = rng.randint(3, 9)
    while len(M) < m:
        if rng.random() < 0.5 and len(M) + 2 <= m:
            r0, r1, rk, d = rng.randint(-2, 3), rng.randint(-2, 3), rng.randint(-1, 1), rng.randint(-3, 3)
            M += [[r0, r1, rk], [r1, r0, rk]]
            x += [d, d]
        else:
            t, tk = rng.randint(-2, 3), rng.randint(-1, 1)
            M.append([t, t, tk])
            x.append(rng.randint(-3, 3))
    v = rng.choice([F(1, 4), F(1, 2), F(1)])
    A, b = design_system(M, x, v)
    a, c, e, f, p, r = A[0][0], A[0][1], A[0][2], A[2][2], b[0], b[2]
    if not (p > 0 and p >= r and p * (a - c + e) >= a * r and r * (a + c) > 2 * e * p and p * f <= e * r):
        return None
    return (M, x, v) if lh_trace(A, b, None)[1] else None


def sym_system(rng, n):
    """(A, b, orbits) of a permutation-invariant integer design"""
    M, x, v, orbits = sym_design(rng, n)
    A, b = design_system(M, x, v)
    return A, b, orbits


BIG_DESIGNS = ["nonneg", "signed", "banded"]


def big_system(seed, n, k, design, rhs="planted", scale=(0, 0)):
    """Large integer-valued SPD system, reproducible from its descriptor (cases stay small; replays regenerate).
    rhs = "planted": the optimum is KNOWN by construction — s* >= 1/8 on a support of size k, dual g* >= 1/4 off
    the support, b = A s* - g*: s* satisfies the KKT conditions with strict complementarity, so it is the unique
    minimiser and the cold-started active-set loop needs >= k outer iterations.  rhs = "noise": b = Z'x for
    noise-dominated data x (many variables enter and leave again; optimum unknown, judged by the KKT certificate).
    returns (A, b, s* | None) as float64 arrays holding exact integers / dyadics."""
    r = np.random.RandomState(seed % (2**32))
    m = n + 3 + int(r.randint(0, 8))
    if design == "nonneg":  # non-negative sparse response, like the mapping matrix of light profiles
        Z = (r.randint(1, 4, size=(m, n)) * (r.rand(m, n) < min(0.5, 12.0 / n + 0.05))).astype(float)
    elif design == "banded":  # short-range coupling: the entering order follows the data, long insert chains
        Z = np.zeros((m, n))
        for j in range(n):
            for t in range(3):
                Z[(j + t * 7) % m, j] = r.randint(-2, 4)
    else:
        Z = r.randint(-3, 4, size=(m, n)).astype(float)
    A = Z.T @ Z + np.eye(n) * float(r.choice([1, 2]))
    sA, sb = 2.0 ** scale[0], 2.0 ** scale[1]
    if rhs == "planted":
        perm = r.permutation(n)
        s = np.zeros(n)
        s[perm[:k]] = r.randint(1, 33, size=k) / 8.0
        g = np.zeros(n)
        g[perm[k:]] = r.randint(1, 33, size=n - k) / 4.0
        b = A @ s - g
        return A * sA, b * sb, s * (sb / sA)
    s0 = r.randint(0, 9, size=n) / 4.0 * (r.rand(n) < 0.7)
    x = Z @ s0 + r.randint(-20, 21, size=m) / 4.0 * 2.0
    return A * sA, (Z.T @ x) * sb, None


def kkt_check_np(A, b, d, allow_tol, ref=None):
    """the KKT certificate for LARGE systems, vectorised: float64 evaluation with an explicit bound on the
    evaluation error ((n+2) ulp of |A||d| + |b| per row) added to the oracle's slack, so a correct solution can
    never fail; with `ref` (the planted unique minimiser) also |d - ref| <= 1e-7 scale."""
    A, b, d = np.asarray(A, dtype=float), np.asarray(b, dtype=float), np.asarray(d, dtype=float)
    n = b.shape[0]
    if d.shape != (n,):
        return False, f"solution has shape {d.shape} for a system of size {n}"
    if not np.all(np.isfinite(d)):
        return False, f"s[{int(np.where(~np.isfinite(d))[0][0])}] is not finite"
    if n == 0:
        return True, ""
    if d.min() < 0:
        i = int(np.argmin(d))
        return False, f"s[{i}] = {float(d[i])!r} < 0"
    g = A @ d - b
    ev = (n + 2) * 2.0 ** -52 * (np.abs(A) @ np.abs(d) + np.abs(b))
    slack = float(KKT_SLACK) * (np.abs(A).max() * np.abs(d).sum() + np.abs(b).max()) + float(allow_tol) + ev
    pos = d > 0
    bad = np.where(pos & (np.abs(g) > slack))[0]
    if bad.size:
        i = int(bad[np.argmax(np.abs(g[bad]))])
        return False, (f"gradient on positive entry s[{i}]={float(d[i])!r} is {float(g[i])!r} "
                       f"(slack {float(slack[i]):.3e}; {bad.size} of {int(pos.sum())} positive entries fail)")
    bad = np.where(~pos & (g < -slack))[0]
    if bad.size:
        i = int(bad[np.argmin(g[bad])])
        return False, f"gradient on zero entry {i} is {float(g[i])!r} < 0 (slack {float(slack[i]):.3e})"
    if ref is not None:
        sc = max(float(np.abs(ref).max()), float(np.abs(b).max() / np.abs(A).max()), 2.0 ** -40)
        e = np.abs(d - ref)
        if e.max() > 1e-7 * sc:
            i = int(np.argmax(e))
            return False, (f"s[{i}] = {float(d[i])!r} but the unique minimiser (planted, strict complementarity) has "
                           f"{float(ref[i])!r}")
    return True, ""


def degenerate_optimum_np(A, b):
    """float version of `degenerate_optimum` for large systems (known-finding predicate D4c): optimum from an
    independent solver (scipy.optimize.nnls on a Cholesky square root), zero entry with vanishing gradient"""
    try:
        from scipy.optimize import nnls

        L = np.linalg.cholesky(np.asarray(A, dtype=float))
        x, _ = nnls(L.T, np.linalg.solve(L, np.asarray(b, dtype=float)), maxiter=20 * len(b) + 100)
    except Exception:
        return False
    g = A @ x - b
    scale = max(float(np.abs(b).max()), 2.0 ** -40)
    return bool(np.any((x == 0) & (np.abs(g) <= 1e-10 * scale)))


def pack_f64(a):
    """compact exact encoding of a float64 array for observations (large cases must not dump arrays as text)"""
    import base64
    import zlib

    a = np.ascontiguousarray(np.asarray(a, dtype="<f8"))
    return {"shape": list(a.shape), "f64z": base64.b64encode(zlib.compress(a.tobytes(), 6)).decode()}


def unpack_f64(o):
    import base64
    import zlib

    return np.frombuffer(zlib.decompress(base64.b64decode(o["f64z"])), dtype="<f8").reshape(o["shape"]).copy()


def straddle(c):
    """sizes on both sides of a new constant c: just below, at, just above, a non-multiple above, 2c+1"""
    return [c - 1, c, c + 1, c + c // 3 + 1, 2 * c + 1]

# ------------------------------------------------------------------------------------------------
# generators of systems
# ------------------------------------------------------------------------------------------------
def spd_dyadic(rng, n, kind=None):
    """(A, kind): symmetric positive-definite with dyadic entries (exact doubles)."""
    kind = kind or rng.choice(["gram", "gram", "gram_thin", "diag", "tridiag", "equicorr"])
    if kind == "diag":
        return [[gen.pos_dyadic(rng, 1, 6, 2) if i == j else F(0) for j in range(n)] for i in range(n)], kind
    if kind == "tridiag":
        off = F(rng.choice([-1, 1, -2, 2, 3]), 4)
        A = [[F(0)] * n for _ in range(n)]
        for i in range(n):
            A[i][i] = F(2) + F(rng.randint(0, 4), 4)
            if i + 1 < n:
                A[i][i + 1] = A[i + 1][i] = off
        return A, kind
    if kind == "equicorr":  # c*I + r*J: every w-entry ties when b is constant
        c = gen.pos_dyadic(rng, 1, 4, 2)
        r = F(rng.randint(0, 8), 4)
        return [[c + r if i == j else r for j in range(n)] for i in range(n)], kind
    m = n + (rng.choice([0, 1, 2, 4]) if kind == "gram" else -rng.randint(1, max(1, n // 2)))
    m = max(1, m)
    Z = [[gen.dyadic(rng, -3, 3, 2) for _ in range(n)] for _ in range(m)]
    ridge = rng.choice([F(1), F(1, 8), F(1, 64), F(1, 1024)])
    A = [[sum((Z[k][i] * Z[k][j] for k in range(m)), F(0)) + (ridge if i == j else 0) for j in range(n)]
         for i in range(n)]
    return A, kind


def rhs_for(rng, A, mode):
    n = len(A)
    if mode == "planted":  # unconstrained solution u has a prescribed number of negative entries
        k = rng.randint(0, n)
        neg = set(rng.sample(range(n), k))
        u = [(-1 if i in neg else 1) * gen.pos_dyadic(rng, 1, 4, 3) for i in range(n)]
        return matvec(A, u)
    if mode == "planted_zeros":  # unconstrained solution is >= 0 with exact zeros (degenerate KKT)
        u = [F(0) if rng.random() < 0.4 else gen.pos_dyadic(rng, 1, 4, 3) for _ in range(n)]
        return matvec(A, u)
    if mode == "negative":
        return [-gen.pos_dyadic(rng, 0, 4, 3) for _ in range(n)]
    if mode == "const":
        c = gen.dyadic(rng, -2, 4, 2)
        return [c] * n
    if mode == "zero":
        return [F(0)] * n
    return [gen.dyadic(rng, -6, 6, 4) for _ in range(n)]  # noise


def p_init_for(rng, A, b, mode):
    """the P_initial argument: None | {"kind":"mask","mask":[..]} | {"kind":"idx","idx":[..]}"""
    n = len(b)
    if mode == "none":
        return None
    if mode == "prod":  # what reconstruction_positive_only_from passes
        u = np.linalg.solve(np_mat(A), np_vec(b))
        return {"kind": "mask", "mask": [bool(x > 0) for x in u]}
    if mode == "mask":
        return {"kind": "mask", "mask": [rng.random() < 0.5 for _ in range(n)]}
    if mode == "mask_empty":
        return {"kind": "mask", "mask": [False] * n}
    if mode == "full":
        return {"kind": "mask", "mask": [True] * n}
    k = rng.randint(1, n)
    return {"kind": "idx", "idx": rng.sample(range(n), k)}


def effective(value, key):
    """the value a SettingsInversion property resolves to: the pinned config default when None, else the
    value's truthiness (0 / False / 1 / True are all legal inputs)"""
    if value is None:
        from autoconf import conf

        return bool(conf.instance["general"]["inversion"][key])
    return bool(value)


def p_init_indices(p):
    if p is None:
        return None
    if p["kind"] == "mask":
        return [i for i, v in enumerate(p["mask"]) if v]
    return list(p["idx"])


def rect_edge(shape):
    a, b = shape
    return [i * b + j for i in range(a) for j in range(b) if i in (0, a - 1) or j in (0, b - 1)]


# ------------------------------------------------------------------------------------------------
class C05(PropertyCheck):
    pid = "C05"
    loop_tie_modules = ["LoopsChol"]  # _cholupdate tied to Model.Impl.cholupdate for all sizes (design_notes/TIES_C05chol.md)
    title = "(non-negative) least-squares optimum"
    nontrivial_rule = (
        "solver/recon case: the returned solution has a zero and a positive entry, or the unconstrained "
        "solution has a negative entry, or an exception path is taken; inversion case: at least one "
        "parameter is forced to zero or clipped by the constraint; distinct = distinct case content"
    )
    exhaustive_note = {
        "quick": "all 2^n sign patterns of the planted unconstrained solution for n<=4 x every P_initial mode; "
                 "settings product use_positive_only_solver x positive_only_uses_p_initial x "
                 "force_edge_pixels_to_zeros x formalism on every inversion layout; choldeleteindexes: every "
                 "non-empty set of positions of a passive list of length <= 5 (sorted, reversed, shuffled)",
        "thorough": "all 2^n sign patterns of the planted unconstrained solution for n<=6 x every P_initial mode; "
                    "settings product on every inversion layout; choldeleteindexes: every non-empty set of "
                    "positions of a passive list of length <= 6 (sorted, reversed, shuffled)",
    }
    trusted_extra = [
        "modelled, not verified: numpy.linalg.solve and scipy.linalg.solve(assume_a='pos') (the unconstrained "
        "solver and the P_initial guess) — contract 'returns x with M x = r'; the driver instantiates it with "
        "exact Gauss-Jordan elimination whose result is re-checked (contract proved for the instance)",
        "the libm square root (math.sqrt / np.sqrt): contract 'sqrt x >= 0 and sqrt x * sqrt x = x for x >= 0' "
        "(discharged for Real.sqrt). With it the Cholesky bookkeeping of fnnls_cholesky (cholinsertlast, "
        "choldeleteindexes, _cholupdate of autoarray/util/cholesky_funcs.py, transliterated in "
        "Model/Cholesky.lean) is PROVED exact and the solve contract is instantiated by the code's own "
        "passive-set solve (C05.chol_*)",
        "LAPACK behind scipy.linalg.solve_triangular / cho_solve / cholesky is modelled by its mathematical "
        "content (forward / back substitution, bordering recursion); the tie is the correspondence of the "
        "'chol' case family (float model vs real calls at 1e-9 x cond, exact rational model where all roots "
        "are rational)",
        "IEEE rounding of the implementation (theorems are over ordered fields; comparison at 1e-7 of the "
        "solution scale, KKT oracle with 1e-9 relative slack)",
        "termination of the active-set iteration is not proved (model and code both carry the 10000-iteration "
        "guard; exits by no_update are reported by the model and compared)",
        "F+H and D of an Inversion are taken from the implementation (their construction is property C04)",
    ]
    assumptions = [
        "(F+H) symmetric positive definite (the property's quantifier); singular systems only for the "
        "unconstrained solver's exception clause",
        "repaired warm-start prologue (fixes/D4-fnnls-warm-start.patch) is what the model mirrors",
        "large (seed-described, `big`) cases are judged by the vectorised KKT / factor / mapped-data oracle alone "
        "(no model comparison): float64 evaluation with an explicit evaluation-error bound added to the slack",
        "histories: in-place edits go through public API only (Array2D.__setitem__ on dataset.data, plain attributes "
        "of SettingsInversion, re-assignment of LinearObj.regularization); the noise map / PSF of an existing "
        "Imaging are not edited in place (its cached convolver / w_tilde legitimately depend on them)",
        "round 6 histories: a shared Preloads object carries only curvature_matrix / regularization_matrix / "
        "operated_mapping_matrix, computed by a fresh world without preloads and kept valid by the generator (only "
        "data, solver options, formalism and — when H is not preloaded — the coefficient change); the caller "
        "overwrites only arrays the inversion hands out as its own (never the preloaded arrays it passed in); "
        "configuration values are edited through conf.instance['general']['inversion'] and restored afterwards",
        "decades streams keep D and s at least 2^8 above the solver's documented absolute tolerance eps*n (part of "
        "the model) and leave the degenerate (D4c) right-hand sides to the older streams",
    ]
    search_budget_s = {"quick": 40, "thorough": 300}
    modelled_functions = [
        "autoarray/util/fnnls.py:fnnls_cholesky",
        "autoarray/util/fnnls.py:fix_constraint_cholesky",
        "autoarray/util/cholesky_funcs.py:cholinsertlast",
        "autoarray/util/cholesky_funcs.py:choldeleteindexes",
        "autoarray/util/cholesky_funcs.py:_cholupdate",
        "autoarray/inversion/inversion/inversion_util.py:reconstruction_positive_negative_from",
        "autoarray/inversion/inversion/inversion_util.py:reconstruction_positive_only_from",
        "autoarray/inversion/inversion/inversion_util.py:mapped_reconstructed_data_via_mapping_matrix_from",
        "autoarray/inversion/inversion/inversion_util.py:mapped_reconstructed_data_via_image_to_pix_unique_from",
        "autoarray/inversion/inversion/abstract.py:AbstractInversion.reconstruction",
        "autoarray/inversion/inversion/abstract.py:AbstractInversion.mapper_edge_pixel_list",
        "autoarray/inversion/inversion/abstract.py:AbstractInversion.mapper_zero_pixel_list",
        "autoarray/inversion/inversion/abstract.py:AbstractInversion.reconstruction_dict",
        "autoarray/inversion/inversion/abstract.py:AbstractInversion.source_quantity_dict_from",
        "autoarray/inversion/inversion/abstract.py:AbstractInversion.mapped_reconstructed_data",
        "autoarray/inversion/inversion/abstract.py:AbstractInversion.curvature_reg_matrix",
        "autoarray/inversion/inversion/imaging/mapping.py:InversionImagingMapping.mapped_reconstructed_data_dict",
        "autoarray/inversion/inversion/imaging/w_tilde.py:InversionImagingWTilde.mapped_reconstructed_data_dict",
        "autoarray/inversion/inversion/imaging/abstract.py:AbstractInversionImaging.operated_mapping_matrix_list",
        "autoarray/inversion/inversion/settings.py:SettingsInversion.use_positive_only_solver",
        "autoarray/inversion/inversion/settings.py:SettingsInversion.positive_only_uses_p_initial",
        "autoarray/inversion/pixelization/mesh/mesh_util.py:rectangular_edge_pixel_list_from",
    ]
    _tier = "quick"

    # ------------------------------------------------------------------ generation
    def generate(self, tier, rng):
        quick = tier == "quick"
        self._tier = tier
        P_MODES = ["none", "prod", "mask", "idx", "mask_empty", "full"]
        # 1. exhaustive sign patterns of the planted unconstrained solution, small n, all P modes
        for n in range(1, (4 if quick else 6) + 1):
            A, akind = spd_dyadic(rng, n, "gram")
            mags = [gen.pos_dyadic(rng, 1, 4, 3) for _ in range(n)]
            for signs in itertools.product([1, -1], repeat=n):
                u = [s * m for s, m in zip(signs, mags)]
                b = matvec(A, u)
                for pm in P_MODES:
                    yield self._solver_case(rng, A, b, pm, f"solver_signs_{pm}")
        # 2. random structured systems
        nmax = 8 if quick else 16
        for _ in range(220 if quick else 2500):
            n = rng.randint(1, nmax)
            A, akind = spd_dyadic(rng, n)
            mode = rng.choice(["planted", "planted", "noise", "noise", "planted_zeros", "negative", "const",
                               "zero"])
            b = rhs_for(rng, A, mode)
            if rng.random() < 0.25:  # magnitudes far from 1: the absolute tolerance eps*n is not scale-free
                sa, sb = F(2) ** rng.randint(-12, 12), F(2) ** rng.randint(-12, 12)
                A = [[x * sa for x in r] for r in A]
                b = [x * sb for x in b]
            for pm in (["none", "prod"] + rng.sample(P_MODES[2:], 2)):
                yield self._solver_case(rng, A, b, pm, f"solver_{akind}_{mode}_{pm}")
        # 2b. round-3 hardening: integer-dtype systems (int64 ndarrays), 0x0 and 1x1 systems, P_initial omitted
        for _ in range(60 if quick else 500):
            n = rng.randint(1, min(nmax, 8))
            A = spd_int(rng, n)
            if rng.random() < 0.5:
                u = [F(rng.choice([-3, -2, -1, 1, 2, 3])) for _ in range(n)]
                b = matvec(A, u)
            else:
                b = [F(rng.randint(-6, 6)) for _ in range(n)]
            for pm in ("none", "prod", rng.choice(P_MODES[2:])):
                c = self._solver_case(rng, A, b, pm, f"solver_int64_{pm}")
                c["dtype"] = "int64"
                c["omit_p_initial"] = pm == "none" and rng.random() < 0.5
                yield c
        for pm in ("none", "mask_empty"):
            yield {"tag": f"solver_0x0_{pm}", "kind": "solver", "A": [], "b": [],
                   "p_init": None if pm == "none" else {"kind": "mask", "mask": []}}
        for a, bb in itertools.product([F(1), F(3, 4), F(5)], [F(-2), F(0), F(1, 2), F(7)]):
            for pm in ("none", "prod", "full", "mask_empty"):
                for dt in ("float64",) + (("int64",) if a.denominator == 1 and bb.denominator == 1 else ()):
                    c = self._solver_case(rng, [[a]], [bb], pm, f"solver_1x1_{pm}_{dt}")
                    c["dtype"] = dt
                    yield c
        # 3. the two reconstruction routines of inversion_util, incl. exception paths
        yield from self._recon_cases(rng, 120 if quick else 1200, nmax)
        # 4. real inversions
        yield from self._inversion_cases(rng, 24 if quick else 220)
        # 5. the Cholesky bookkeeping of fnnls_cholesky, function by function and in sequence
        yield from self._chol_cases(rng, quick)
        # 6. round 4: exact ratio ties / degenerate steps of the active-set loop (permutation-invariant systems)
        yield from self._tie_cases(rng, quick)
        # 7. round 4: histories on reused objects (each step judged against a fresh object in that state)
        yield from self._hist_linear_cases(rng, 64 if quick else 640)
        yield from self._hist_inversion_cases(rng, 24 if quick else 156)
        # 9. round 6 (R5-A / R5-E): decades streams — the solver on systems scaled by powers of two far from 1, and
        #    real inversions whose data / noise (hence D and F+H) live many decades away from 1
        yield from self._decade_solver_cases(rng, 30 if quick else 360)
        yield from self._decade_inversion_cases(rng, 8 if quick else 80)
        # 8. round 4: moderate-size oracle-only systems (iteration-count / size-gated behaviour without a hint)
        yield from self._mid_cases(rng, quick)

    def _solver_case(self, rng, A, b, pm, tag):
        return {"tag": tag, "kind": "solver", "A": qmat(A), "b": qlist(b),
                "p_init": p_init_for(rng, A, b, pm)}

    def _recon_cases(self, rng, count, nmax):
        # round-3 hardening: integer dtype / list / tuple containers, "set but falsy" settings crossed with the
        # config default (None), empty and 1x1 systems
        for _ in range(max(12, count // 5)):
            n = rng.randint(1, min(nmax, 7))
            A = spd_int(rng, n)
            u = [F(rng.choice([-3, -2, -1, 1, 2, 3])) + (F(k, 1) if rng.random() < 0.3 else 0) for k in range(n)]
            b = matvec(A, u) if rng.random() < 0.6 else [F(rng.randint(-6, 6)) for _ in range(n)]
            for pv in (None, False, True, 0, 1):
                yield {"tag": f"recon_posonly_int_p{pv!r}", "kind": "recon", "fn": "posonly", "A": qmat(A),
                       "b": qlist(b), "p_initial": pv, "container": rng.choice(["int64", "float64"])}
            cut = rng.randint(0, n - 1)
            yield {"tag": "recon_posneg_containers", "kind": "recon", "fn": "posneg", "A": qmat(A), "b": qlist(b),
                   "ranges": [[cut, n]], "container": rng.choice(["int64", "list", "tuple", "float64"]),
                   "ranges_as": rng.choice(["list", "tuple"]), "force_check": rng.choice([False, True, 0])}
        yield {"tag": "recon_posneg_empty", "kind": "recon", "fn": "posneg", "A": [], "b": [], "ranges": []}
        for _ in range(count):
            n = rng.randint(1, nmax)
            A, akind = spd_dyadic(rng, n)
            cls = rng.choice(["posonly", "posonly", "posneg", "posneg", "degenerate", "hug", "singular",
                              "empty"])
            # mapper ranges: a partition of a prefix/suffix of the parameters into 1-2 slices
            cut = rng.randint(0, n - 1)
            ranges = [[cut, n]] if rng.random() < 0.6 or cut == 0 else [[0, cut], [cut, n]]
            if cls in ("posonly",):
                b = rhs_for(rng, A, rng.choice(["planted", "noise", "planted_zeros", "negative"]))
                for pinit in (False, True):
                    yield {"tag": f"recon_posonly_p{int(pinit)}", "kind": "recon", "fn": "posonly",
                           "A": qmat(A), "b": qlist(b), "p_initial": pinit}
            elif cls == "posneg":
                b = rhs_for(rng, A, rng.choice(["planted", "noise"]))
                yield {"tag": "recon_posneg", "kind": "recon", "fn": "posneg", "A": qmat(A), "b": qlist(b),
                       "ranges": ranges}
            elif cls == "degenerate":  # a mapper slice whose values all agree -> InversionException
                c = gen.dyadic(rng, -4, 4, 2)
                x = [gen.dyadic(rng, -4, 4, 2) for _ in range(n)]
                r0, r1 = rng.choice(ranges)
                for i in range(r0, r1):
                    x[i] = c
                yield {"tag": "recon_posneg_degenerate", "kind": "recon", "fn": "posneg", "A": qmat(A),
                       "b": qlist(matvec(A, x)), "ranges": ranges}
            elif cls == "hug":  # one value at (1 ± 2^-8) of numpy.allclose's threshold 1e-8 + 1e-5|c|
                if akind in ("gram_thin",):
                    continue  # keep the conditioning moderate: the float solve must resolve 4e-11
                c = rng.choice([F(0), gen.dyadic(rng, -4, 4, 2)])
                r0, r1 = rng.choice(ranges)
                if r1 - r0 < 2:
                    continue
                thr = F(1e-8) + F(1e-5) * abs(c)
                side = rng.choice([1, -1])
                delta = thr * (1 + side * F(1, 256)) * rng.choice([1, -1])
                x = [gen.dyadic(rng, -4, 4, 2) for _ in range(n)]
                for i in range(r0, r1):
                    x[i] = c
                x[rng.randint(r0 + 1, r1 - 1)] = c + delta
                # b = A x is not a double exactly: round it and let both sides see the rounded system
                b = [F(float(v)) for v in matvec(A, x)]
                yield {"tag": f"recon_posneg_hug{'+' if side > 0 else '-'}", "kind": "recon", "fn": "posneg",
                       "A": qmat(A), "b": qlist(b), "ranges": ranges}
            elif cls == "singular":  # exactly singular: zero rows/columns
                if n < 2:
                    continue
                S = [row[:] for row in A]
                # (a zero row AND column keeps an exactly zero pivot through LU in floating point, so
                # numpy reports the singularity; a repeated row does not — rounding hides it)
                for i in rng.sample(range(n), rng.randint(1, 2)):
                    for k in range(n):
                        S[i][k] = S[k][i] = F(0)
                b = [gen.dyadic(rng, -4, 4, 2) for _ in range(n)]
                yield {"tag": "recon_posneg_singular", "kind": "recon", "fn": "posneg", "A": qmat(S),
                       "b": qlist(b), "ranges": []}
                yield {"tag": "recon_posonly_singular_p1", "kind": "recon", "fn": "posonly", "A": qmat(S),
                       "b": qlist(b), "p_initial": True}
            else:
                yield {"tag": "recon_posonly_empty", "kind": "recon", "fn": "posonly", "A": [], "b": [],
                       "p_initial": rng.random() < 0.5}

    # ------------------------------------------------------------------ Cholesky bookkeeping cases
    def _chol_seq(self, rng, A, b, inserts, deletes, tag, num="float", first_k=0, dels_as="ndarray"):
        return {"tag": tag, "kind": "chol", "sub": "seq", "A": qmat(A), "b": qlist(b), "inserts": list(inserts),
                "deletes": [list(d) for d in deletes], "num": num, "first_k": first_k, "dels_as": dels_as}

    def _chol_cases(self, rng, quick):
        nmax = 8 if quick else 16
        # (i) exhaustive: every non-empty set of positions of an m-long passive list, sorted / reversed / shuffled
        for m in range(1, (5 if quick else 6) + 1):
            n = m + rng.choice([0, 1])
            perm = rng.sample(range(n), n)
            A = spd_from_R(chol_R(rng, n), perm)
            b = [gen.dyadic(rng, -4, 4, 2) for _ in range(n)]
            ins = rng.sample(range(n), m)
            for r in range(1, m + 1):
                for sub in itertools.combinations(range(m), r):
                    orders = {tuple(sub), tuple(reversed(sub))}
                    sh = list(sub)
                    rng.shuffle(sh)
                    orders.add(tuple(sh))
                    for o in sorted(orders):
                        yield self._chol_seq(rng, A, b, ins, [list(o)], f"chol_seq_all_subsets_m{m}",
                                             dels_as=rng.choice(["ndarray", "list", "tuple"]))
        # (ii) random sequences: inserts, then 0..3 delete sets (first / last / several / unsorted / all / none)
        for _ in range(300 if quick else 3000):
            n = rng.randint(1, nmax)
            perm = rng.sample(range(n), n)
            A = spd_from_R(chol_R(rng, n), perm)
            b = [gen.dyadic(rng, -4, 4, 2) for _ in range(n)]
            m = rng.randint(1, n)
            rational = rng.random() < 0.35
            ins = perm[:m] if rational else rng.sample(range(n), m)
            deletes, cur = [], m
            for _k in range(rng.choice([0, 1, 1, 2, 3])):
                if cur == 0:
                    break
                mode = rng.choice(["last", "first", "one", "some", "some", "suffix", "all", "none"])
                if rational and mode not in ("none",):
                    mode = rng.choice(["last", "suffix"])  # a deleted suffix needs no _cholupdate: stays rational
                if mode == "last":
                    d = [cur - 1]
                elif mode == "first":
                    d = [0]
                elif mode == "one":
                    d = [rng.randrange(cur)]
                elif mode == "suffix":
                    k = rng.randint(1, cur)
                    d = list(range(cur - k, cur))
                    rng.shuffle(d)
                elif mode == "all":
                    d = rng.sample(range(cur), cur)
                elif mode == "none":
                    d = []
                else:
                    d = rng.sample(range(cur), rng.randint(1, cur))
                deletes.append(d)
                cur -= len(d)
            fk = rng.randint(2, m) if (m >= 2 and rng.random() < 0.25) else 0
            yield self._chol_seq(rng, A, b, ins, deletes,
                                 f"chol_seq_{'rat' if rational else 'float'}{'_warm' if fk else ''}",
                                 num="rat" if rational else "float", first_k=fk,
                                 dels_as=rng.choice(["ndarray", "list", "tuple"]))
        # (iii) _cholupdate on arbitrary upper-triangular arrays (non-zero diagonal of either sign)
        for a, bb, c in ((3, 4, 5), (5, 12, 13), (8, 15, 17), (20, 21, 29)):
            for sc in (F(1), F(1, 4), F(-2)):
                yield {"tag": "chol_update_rat", "kind": "chol", "sub": "update", "num": "rat",
                       "U": qmat([[a * sc]]), "x": qlist([bb * sc])}
        for _ in range(150 if quick else 1500):
            n = rng.randint(1, nmax)
            U = chol_R(rng, n)
            if rng.random() < 0.3:
                for i in range(n):
                    if rng.random() < 0.4:
                        U[i][i] = -U[i][i]
            x = [F(0) if rng.random() < 0.15 else gen.dyadic(rng, -4, 4, 2) for _ in range(n)]
            yield {"tag": "chol_update", "kind": "chol", "sub": "update", "num": "float", "U": qmat(U), "x": qlist(x)}
        # (iv) cholinsertlast on arbitrary upper-triangular arrays: positive / zero / negative Schur complement
        for _ in range(80 if quick else 600):
            n = rng.randint(0, nmax - 1)
            R = chol_R(rng, n + 1)
            U = [r[:n] for r in R[:n]]
            G = gram_fr(R)
            x = [G[n][j] for j in range(n + 1)]  # border of R'R: Schur complement R[n][n]^2, rational root
            cls = rng.choice(["exact", "exact", "pos", "zero", "neg"])
            if cls == "pos":
                x[n] += gen.pos_dyadic(rng, 0, 3, 3)
            elif cls == "zero":
                x[n] -= R[n][n] * R[n][n]
            elif cls == "neg":
                x[n] -= R[n][n] * R[n][n] + gen.pos_dyadic(rng, 0, 3, 3)
            yield {"tag": f"chol_insert_{cls}", "kind": "chol", "sub": "insert",
                   "num": "rat" if cls in ("exact", "neg") else "float", "U": qmat(U), "x": qlist(x)}
        # (v) choldeleteindexes on arbitrary upper-triangular arrays with positive diagonal
        for _ in range(70 if quick else 600):
            n = rng.randint(1, nmax)
            U = chol_R(rng, n)
            mode = rng.choice(["last", "first", "one", "some", "some", "all", "none", "last2"])
            if mode == "last":
                d = [n - 1]
            elif mode == "first":
                d = [0]
            elif mode == "one":
                d = [rng.randrange(n)]
            elif mode == "all":
                d = rng.sample(range(n), n)
            elif mode == "none":
                d = []
            elif mode == "last2":
                d = [n - 1] + ([n - 2] if n >= 2 else [])
                rng.shuffle(d)
            else:
                d = rng.sample(range(n), rng.randint(1, n))
            yield {"tag": f"chol_delete_{mode}", "kind": "chol", "sub": "delete",
                   "num": "rat" if mode in ("last", "last2", "none") else "float", "U": qmat(U), "indexes": d,
                   "dels_as": rng.choice(["ndarray", "list", "tuple"])}
        # (vi) cho_solve on arbitrary upper-triangular arrays (the strictly lower part is not read)
        for _ in range(60 if quick else 500):
            n = rng.randint(1, nmax)
            U = chol_R(rng, n, wide=False)
            if rng.random() < 0.3:
                for i in range(n):
                    if rng.random() < 0.4:
                        U[i][i] = -U[i][i]
            garbage = rng.random() < 0.3
            Ug = [row[:] for row in U]
            if garbage:
                for i in range(n):
                    for j in range(i):
                        Ug[i][j] = gen.dyadic(rng, -4, 4, 2)
            bb = [gen.dyadic(rng, -6, 6, 3) for _ in range(n)]
            yield {"tag": "chol_solve" + ("_lower_garbage" if garbage else ""), "kind": "chol", "sub": "solve",
                   "num": "rat", "U": qmat(Ug), "b": qlist(bb)}
        # (vii) scipy.linalg.cholesky against the bordering recursion (the first pass of fnnls_cholesky)
        for _ in range(40 if quick else 300):
            n = rng.randint(1, nmax)
            R = chol_R(rng, n)
            rational = rng.random() < 0.5
            A = gram_fr(R) if rational else spd_from_R(R, rng.sample(range(n), n))
            yield {"tag": "chol_cholesky_" + ("rat" if rational else "float"), "kind": "chol", "sub": "cholesky",
                   "num": "rat" if rational else "float", "A": qmat(A)}
        # (viii) the solver itself through its own passive-set solves in exact arithmetic: 2x2 .. 3x3 systems
        # A = R'R whose entering order is the natural one (b = A u, u > 0 decreasing fast enough)
        done = 0
        for _ in range(400 if quick else 4000):
            if done >= (16 if quick else 150):
                break
            n = rng.randint(1, 4)
            R = chol_R(rng, n)
            A = gram_fr(R)
            b = matvec(A, [(1 if rng.random() < 0.8 else -1) * gen.pos_dyadic(rng, 1, 4, 2) for _ in range(n)])
            if not natural_entering_order(A, b):
                continue  # a passive list other than [0..k) would need the root of a non-square
            done += 1
            yield {"tag": "chol_fnnls_rat", "kind": "chol", "sub": "fnnls", "A": qmat(A), "b": qlist(b)}

    # ------------------------------------------------------------------ round 4: large, oracle-only cases
    # Every size the property's code loops over, addressed separately: outer iterations of the active-set loop
    # ("iter": size k of the optimum's support — a cold start needs >= k insertions), system size ("n"),
    # length of the carried Cholesky factor ("chol_m"), positions deleted at once ("chol_d"), unmasked data
    # pixels = rows of the mapping matrices ("pix"), frame pixels H*W ("frame").
    BIG_N_CAP = 300       # largest constant served in the n / iteration / factor dimensions at all five sizes
    BIG_N_HARD_CAP = 700  # ... up to here only c-1, c+1 in the iteration dimension (a solve is O(n^3) numpy work)
    BIG_CHOL_D_CAP = 200  # ... for "positions deleted at once" (each deletion runs the pure-Python _cholupdate)
    BIG_PIX_CAP = 33000   # ... in the data-pixel / frame dimensions
    BIG_KERNEL = [[0, 1, 2], [0, 8, 1], [3, 0, 1]]  # /16: sums to one (Imaging normalises), no symmetry

    def _big_solver(self, rng, n, k, dim, hint, p_mode=None, design=None, rhs=None, sub="solver"):
        rhs = rhs or rng.choice(["planted", "planted", "planted", "noise"])
        design = design or rng.choice(BIG_DESIGNS)
        c = {"kind": "big", "large": True, "sub": sub, "dim": dim, "hint": hint, "seed": rng.randint(0, 2**31 - 1),
             "n": int(n), "k": int(min(k, n)), "design": design, "rhs": rhs,
             "scale": [rng.choice([0, 0, -3, 4]), rng.choice([0, 0, 5, -2])],
             "p_mode": p_mode or rng.choice(["none", "none", "prod", "full", "mask", "idx"])}
        if sub == "recon":
            c["fn"] = rng.choice(["posonly", "posonly", "posneg"])
            c["p_initial"] = rng.choice([True, False, None])
            c["p_mode"] = None
        c["tag"] = f"big_{sub}_{dim}_{c['rhs']}_{c.get('fn') or c['p_mode']}"
        return c

    def _big_chol(self, rng, n, m, dcount, dim, hint):
        m = max(1, min(m, n))
        return {"tag": f"big_chol_{dim}", "kind": "big", "large": True, "sub": "chol", "dim": dim, "hint": hint,
                "seed": rng.randint(0, 2**31 - 1), "n": int(n), "m": int(m), "dcount": int(max(0, min(dcount, m))),
                "first_k": rng.choice([0, 0, 2, max(2, m // 2)]) if m >= 2 else 0,
                "ends": rng.choice(["first", "last", "both", "inner"]),
                "dels_as": rng.choice(["ndarray", "list", "tuple"])}

    def _big_inversion(self, rng, npix, n, dim, hint, frame=None):
        """one MockLinearObjFuncList with n parameters on exactly `npix` unmasked pixels of a NON-SQUARE frame, window
        off-centre, last window row incomplete, noise map != 1, anisotropic pixel scales, asymmetric signed-free
        PSF (only where the pure-Python convolution is affordable), every value dyadic"""
        rows = max(1, int(round((npix * rng.choice([0.4, 0.7, 1.6])) ** 0.5)))
        cols = -(-npix // rows)
        rows = -(-npix // cols)
        top, left, bottom, right = rng.randint(2, 4), rng.randint(2, 6), rng.randint(2, 3), rng.randint(2, 4)
        H, W = rows + top + bottom, cols + left + right
        if frame:  # the frame H*W itself at the requested size (non-square), window kept inside with a margin
            minH, minW = rows + top + 2, cols + left + 2
            step = -1 if frame < hint else 1
            for f in [frame + step * t for t in range(0, 12)]:
                shape = next(((h, f // h) for h in range(minH, f // minW + 1)
                              if f % h == 0 and f // h >= minW and h != f // h), None)
                if shape:
                    H, W = shape
                    break
            else:
                H, W = minH, max(minW, -(-frame // minH))
        blur = n * npix <= 40000 and rng.random() < 0.7
        pos = rng.random() < 0.85
        return {"tag": f"big_inversion_{dim}", "kind": "big", "large": True, "sub": "inversion", "dim": dim, "hint": hint,
                "seed": rng.randint(0, 2**31 - 1), "H": int(H), "W": int(W), "top": top, "left": left,
                "rows": int(rows), "cols": int(cols), "npix": int(npix), "n": int(n), "blur": bool(blur),
                "positive": pos, "p_initial": rng.choice([True, False, None]),
                "diag_value": rng.choice([1.0, 0.5, 2.0])}

    def generate_large(self, hints, rng):
        """constant-directed cases (DESIGN §13): for every new integer constant c, every size dimension of the
        property just below / at / just above c, at c + c//3 + 1 and at 2c + 1.  All cases are `large`: no model
        comparison, the vectorised oracle (`_oracle_big`) judges alone."""
        for c in sorted(set(int(h) for h in hints)):
            if c < 2:
                continue
            for t, size in enumerate(straddle(c)):  # smallest sizes first: the runner cuts the tail by time
                size = max(1, size)
                if c <= self.BIG_N_CAP:
                    extra = max(2, size // 8)
                    # outer iterations: support of the optimum = size, cold start / rejected warm start / full
                    for pm, rhs in (("none", "planted"), ("prod", "planted"), ("none", "noise")):
                        yield self._big_solver(rng, size + extra, size, "iter", c, p_mode=pm, rhs=rhs)
                    yield self._big_solver(rng, size + extra, size, "iter", c, sub="recon", rhs="planted")
                    # system size n = size (support ~ 70 %), every P_initial mode over the sizes
                    yield self._big_solver(rng, size, max(1, (7 * size) // 10), "n", c)
                    yield self._big_solver(rng, size, max(1, size // 3), "n", c, sub="recon")
                    # the carried factor: m insertions, then deletions at once, then insertions again
                    yield self._big_chol(rng, size + extra, size, max(1, size // 5), "chol_m", c)
                    if c <= self.BIG_CHOL_D_CAP:
                        yield self._big_chol(rng, 2 * size + 3, 2 * size, size, "chol_d", c)
                    if t in (2, 4) and size <= 400:  # through a real Inversion: parameters, and iterations
                        yield self._big_inversion(rng, size + rng.randint(1, 9), size, "inv_n", c)
                elif c <= self.BIG_N_HARD_CAP and t in (0, 2):
                    for rhs in ("planted",) if t == 0 else ("planted", "noise"):
                        yield self._big_solver(rng, size + 2, size, "iter", c, p_mode="none", rhs=rhs, design="nonneg")
                if c <= self.BIG_PIX_CAP and size >= 4:
                    yield self._big_inversion(rng, size, rng.randint(2, 4), "pix", c)
                    if size >= 64 and t != 3:
                        yield self._big_inversion(rng, max(4, size // 3), rng.randint(2, 3), "frame", c, frame=size)

    def _mid_cases(self, rng, quick):
        """always-on sample of the same large, oracle-only cases at moderate sizes (a count-gated branch written
        without a literal, or a constant already in the baseline, still has to pass these); cheap: milliseconds each"""
        sizes = [(150, 170), (300, 330)] if quick else [(70, 80), (150, 170), (300, 330), (520, 560), (260, 520)]
        for k, n in sizes:
            for pm in ("none", "prod") if quick else ("none", "prod", "full", "mask", "idx"):
                yield self._big_solver(rng, n, k, "mid", 0, p_mode=pm, rhs="planted")
            yield self._big_solver(rng, n, k, "mid", 0, p_mode="none", rhs="noise")
            yield self._big_solver(rng, n, k, "mid", 0, sub="recon", rhs="planted")
        yield self._big_chol(rng, 170, 150, 30, "mid", 0)
        yield self._big_chol(rng, 330, 300, 150, "mid", 0)
        yield self._big_inversion(rng, 150, 140, "mid", 0)
        yield self._big_inversion(rng, 1100, 3, "mid", 0)
        if not quick:
            yield self._big_inversion(rng, 330, 320, "mid", 0)
            yield self._big_inversion(rng, 4500, 4, "mid", 0)

    @staticmethod
    def _big_p_initial(case, A, b):
        n = len(b)
        r = np.random.RandomState((case["seed"] + 1) % (2**32))
        pm = case["p_mode"]
        if pm == "none":
            return np.zeros(0, dtype=int)
        if pm == "prod":
            return np.linalg.solve(A, b) > 0
        if pm == "full":
            return np.ones(n, dtype=bool)
        if pm == "mask":
            return r.rand(n) < 0.5
        return r.permutation(n)[: max(1, n // 3)].astype(int)

    @staticmethod
    def _big_chol_plan(case):
        """(A, b, inserts, delete positions, re-inserts) of a large factor sequence, from the descriptor"""
        n, m = case["n"], case["m"]
        A, b, _ = big_system(case["seed"], n, n, "signed", "noise")
        r = np.random.RandomState((case["seed"] + 2) % (2**32))
        perm = [int(v) for v in r.permutation(n)]
        ins, rest = perm[:m], perm[m:]
        dc = case["dcount"]
        pool = list(range(m))
        forced = {"first": [0], "last": [m - 1], "both": [0, m - 1], "inner": []}[case["ends"]]
        forced = list(dict.fromkeys(forced))[:dc]
        others = [p for p in pool if p not in forced and (case["ends"] != "inner" or 0 < p < m - 1 or m <= 2)]
        dels = forced + [int(v) for v in r.permutation(others)[: max(0, dc - len(forced))]]
        dels = [int(v) for v in r.permutation(dels)]  # unsorted
        return A, b, ins, dels, rest[:2]

    def _big_inversion_world(self, case):
        """arrays of a large inversion case from its descriptor: mask, mapping matrix M (npix x n), data, noise,
        kernel; everything dyadic"""
        H, W, top, left, rows, cols, npix, n = (case[k] for k in ("H", "W", "top", "left", "rows", "cols", "npix", "n"))
        r = np.random.RandomState(case["seed"] % (2**32))
        m = np.full((H, W), True)
        win = np.zeros(rows * cols, dtype=bool)
        win[:npix] = True
        m[top:top + rows, left:left + cols] = ~win.reshape(rows, cols)
        if n * npix <= 400000:
            M = (r.randint(1, 5, size=(npix, n)) * (r.rand(npix, n) < max(0.08, min(0.6, 6.0 / n)))).astype(float)
        else:
            M = np.zeros((npix, n))
        for j in range(n):  # every parameter illuminates "its own" pixels as well
            M[np.arange(j, npix, n), j] += 2.0
        noise = r.randint(2, 9, size=npix) / 4.0
        s0 = r.randint(0, 9, size=n) / 4.0 * (r.rand(n) < 0.7)
        data = M @ s0 + noise * (r.randint(-12, 13, size=npix) / 4.0)
        data = np.round(data * 64.0) / 64.0
        return m, M, data, noise, np.array(self.BIG_KERNEL, dtype=float) / 16.0

    def _run_big(self, aa, case):
        from scipy import linalg as slg

        sub = case["sub"]
        if sub in ("solver", "recon"):
            A, b, _ = big_system(case["seed"], case["n"], case["k"], case["design"], case["rhs"], case["scale"])
            A0, b0 = A.copy(), b.copy()
            if sub == "solver":
                from autoarray.util.fnnls import fnnls_cholesky

                P = self._big_p_initial(case, A, b)
                try:
                    d = fnnls_cholesky(A, b, P_initial=P)
                except RuntimeError:
                    return {"err": "runtime"}
                except (np.linalg.LinAlgError, ValueError):
                    return {"err": "singular"}
            else:
                from autoarray import exc
                from autoarray.inversion.inversion import inversion_util

                try:
                    if case["fn"] == "posneg":
                        d = inversion_util.reconstruction_positive_negative_from(
                            data_vector=b, curvature_reg_matrix=A, mapper_param_range_list=[])
                    else:
                        d = inversion_util.reconstruction_positive_only_from(
                            data_vector=b, curvature_reg_matrix=A,
                            settings=aa.SettingsInversion(positive_only_uses_p_initial=case["p_initial"]))
                except exc.InversionException:
                    return {"err": "InversionException"}
            return {"d": pack_f64(d), "inputs_intact": bool(np.array_equal(A, A0) and np.array_equal(b, b0))}
        if sub == "chol":
            from autoarray.util import cholesky_funcs as cf

            A, b, ins, dels, re_ins = self._big_chol_plan(case)
            U = np.zeros((0, 0))
            P = np.array([], dtype=int)
            fk = case.get("first_k", 0)
            stages = []

            def stage(what):
                x = slg.cho_solve((U, False), b[P]) if len(P) else np.zeros(0)
                stages.append({"what": what, "U": pack_f64(np.asarray(U, dtype=float)), "P": [int(v) for v in P],
                               "x": pack_f64(x)})

            try:
                for t, i in enumerate(ins):
                    P = np.append(P, int(i))
                    if fk and t < fk - 1:
                        continue
                    U = slg.cholesky(A[P][:, P]) if (fk and t == fk - 1) else cf.cholinsertlast(U, A[int(i)][P])
                stage("inserted")
                U = cf.choldeleteindexes(U, self._as_index_container(dels, case.get("dels_as", "ndarray")))
                P = np.delete(P, dels)
                stage("deleted")
                for i in re_ins:
                    P = np.append(P, int(i))
                    U = cf.cholinsertlast(U, A[int(i)][P])
                stage("reinserted")
            except (ValueError, np.linalg.LinAlgError):
                return {"err": "domain"}
            return {"stages": stages}
        # a real Inversion
        from autoarray import exc

        m, M, data, noise, K = self._big_inversion_world(case)
        H, W = m.shape
        ps = (0.5, 0.25)
        mask = aa.Mask2D(mask=m, pixel_scales=ps)
        dn, nn = np.zeros((H, W)), np.ones((H, W))
        dn[~m], nn[~m] = data, noise
        psf = aa.Kernel2D.no_mask(values=K, pixel_scales=ps) if case["blur"] else aa.Kernel2D.no_blur(pixel_scales=ps)
        ds = aa.Imaging(data=aa.Array2D.no_mask(values=dn, pixel_scales=ps),
                        noise_map=aa.Array2D.no_mask(values=nn, pixel_scales=ps), psf=psf).apply_mask(mask=mask)
        kw = {} if case["blur"] else {"operated_mapping_matrix_override": M}
        lo = aa.m.MockLinearObjFuncList(parameters=case["n"], grid=aa.Grid2D.from_mask(mask=mask), mapping_matrix=M, **kw)
        inv = aa.Inversion(dataset=ds, linear_obj_list=[lo], settings=aa.SettingsInversion(
            use_w_tilde=False, use_positive_only_solver=case["positive"],
            positive_only_uses_p_initial=case["p_initial"],
            no_regularization_add_to_curvature_diag_value=case["diag_value"]))
        try:
            s = np.array(inv.reconstruction, dtype=float)
        except exc.InversionException:
            return {"err": "InversionException"}
        md = inv.mapped_reconstructed_data_dict[lo]
        tot = inv.mapped_reconstructed_data
        return {"s": pack_f64(s), "s_dict": pack_f64(np.asarray(inv.reconstruction_dict[lo], dtype=float)),
                "mapped": pack_f64(np.asarray(md.array if hasattr(md, "array") else md, dtype=float).ravel()),
                "total": pack_f64(np.asarray(tot.array if hasattr(tot, "array") else tot, dtype=float).ravel())}

    def _oracle_big(self, case, obs):
        sub = case["sub"]
        if sub in ("solver", "recon"):
            A, b, ref = big_system(case["seed"], case["n"], case["k"], case["design"], case["rhs"], case["scale"])
            if "err" in obs:
                return False, f"{'fnnls_cholesky' if sub == 'solver' else 'the reconstruction routine'} raised " \
                              f"({obs['err']}) on an SPD system of size {case['n']}"
            d = unpack_f64(obs["d"])
            if not obs.get("inputs_intact", True):
                return False, "the caller's matrix / data vector was modified by the call"
            if sub == "recon" and case["fn"] == "posneg":
                if d.shape != b.shape or not np.all(np.isfinite(d)):
                    return False, "solution has the wrong shape or is not finite"
                res = np.abs(A @ d - b)
                slack = float(KKT_SLACK) * (np.abs(A).max() * np.abs(d).sum() + np.abs(b).max()) \
                    + (len(b) + 2) * 2.0 ** -52 * (np.abs(A) @ np.abs(d) + np.abs(b))
                if np.any(res > slack):
                    i = int(np.argmax(res - slack))
                    return False, f"((F+H)s - D)[{i}] = {float(res[i])!r} (slack {float(slack[i]):.3e})"
                return True, ""
            return kkt_check_np(A, b, d, EPS * len(b), ref)
        if sub == "chol":
            if "err" in obs:
                return False, "the factor update raised on a positive-definite system"
            A, b, ins, dels, re_ins = self._big_chol_plan(case)
            P1 = list(ins)
            P2 = np_delete_positions(P1, dels)
            want = [P1, P2, P2 + list(re_ins)]
            if [s["P"] for s in obs["stages"]] != want:
                return False, "the passive list kept next to the factor is not the expected one"
            amax = float(np.abs(A).max())
            for s, P in zip(obs["stages"], want):
                U, x = unpack_f64(s["U"]), unpack_f64(s["x"])
                k = len(P)
                if U.shape != (k, k):
                    return False, f"{s['what']}: factor is {U.shape} for {k} passive indices"
                if not np.all(np.isfinite(U)):
                    return False, f"{s['what']}: the factor has non-finite entries"
                if np.any(np.tril(U, -1) != 0):
                    i, j = [int(v[0]) for v in np.where(np.tril(U, -1) != 0)]
                    return False, f"{s['what']}: U[{i},{j}] = {float(U[i, j])!r} below the diagonal"
                if k and np.diag(U).min() <= 0:
                    return False, f"{s['what']}: diagonal entry {int(np.argmin(np.diag(U)))} of the factor is not positive"
                App = A[np.ix_(P, P)]
                E = np.abs(U.T @ U - App)
                if k and E.max() > 1e-9 * amax:
                    i, j = [int(v) for v in np.unravel_index(int(np.argmax(E)), E.shape)]
                    return False, (f"{s['what']} (|P| = {k}): (U'U)[{i},{j}] = {float((U.T @ U)[i, j])!r} but the matrix "
                                   f"entry is {float(App[i, j])!r}")
                if k:
                    res = np.abs(App @ x - b[P])
                    if res.max() > 1e-9 * (amax * np.abs(x).sum() + np.abs(b).max()):
                        return False, f"{s['what']}: cho_solve through the factor leaves a residual {float(res.max())!r}"
            return True, ""
        # inversion: the system the inversion must build, from the descriptor (numpy, independent of the library)
        m, M, data, noise, K = self._big_inversion_world(case)
        n, npix = case["n"], case["npix"]
        if case["blur"]:
            from scipy.signal import convolve2d

            B = np.zeros_like(M)
            for j in range(n):
                img = np.zeros(m.shape)
                img[~m] = M[:, j]
                B[:, j] = convolve2d(img, K, mode="same")[~m]
        else:
            B = M
        Fm = B.T @ (B / (noise ** 2)[:, None]) + case["diag_value"] * np.eye(n)
        D = B.T @ (data / noise ** 2)
        if "err" in obs:
            if not case["positive"]:
                return True, ""  # the statement allows the exception for the unconstrained solver
            return False, f"InversionException on a positive-definite system ({n} parameters, {npix} data pixels)"
        s = unpack_f64(obs["s"])
        if case["positive"]:
            ok, det = kkt_check_np(Fm, D, s, EPS * n)
        else:
            res = np.abs(Fm @ s - D) if s.shape == D.shape else np.array([np.inf])
            slack = 1e-9 * (np.abs(Fm).max() * np.abs(s).sum() + np.abs(D).max())
            ok, det = bool(res.max() <= slack), f"((F+H)s - D) has an entry {float(res.max())!r} (slack {slack:.3e})"
        if not ok:
            return False, det
        if not np.array_equal(unpack_f64(obs["s_dict"]), s):
            return False, "reconstruction_dict entry is not the slice of the reconstruction"
        want = B @ s
        tol = 1e-9 * max(float(np.abs(want).max()), 2.0 ** -40)
        for key, what in (("mapped", "mapped data of the linear object is not its blurred mapping matrix times s"),
                          ("total", "total mapped reconstructed data is not the sum over the linear objects")):
            got = unpack_f64(obs[key])
            if got.shape != want.shape or not np.all(np.abs(got - want) <= tol):
                k = int(np.argmax(np.abs(got - want))) if got.shape == want.shape else -1
                return False, what + (f" (pixel {k}: {float(got[k])!r} vs {float(want[k])!r})" if k >= 0 else "")
        return True, ""

    LAYOUTS = ["mapper", "mapper+func", "func+mapper", "mapper+mapper", "mapper+func+mapper", "func+func+mapper",
               "func"]

    def _inversion_cases(self, rng, layouts):
        for li in range(layouts):
            H, W = rng.randint(6, 9), rng.randint(6, 9)
            m, mkind = gen.random_mask(rng, H, W, margin=2,
                                       kind=rng.choice(["all", "block", "annulus", "cross", "bernoulli"]))
            # every layout at least once per run (the parameter offset of a mapper behind other objects is
            # where index bookkeeping goes wrong), then random ones
            layout = self.LAYOUTS[li] if li < len(self.LAYOUTS) else rng.choice(self.LAYOUTS)
            if li == len(self.LAYOUTS):  # degenerate size: exactly one unmasked pixel, one function, 1x1 system
                m, mkind = gen.random_mask(rng, H, W, margin=2, kind="single")
                layout = "func"
            n_un = sum(1 for r in m for v in r if not v)
            if n_un < 3:
                layout = "func"  # a mesh needs an extended grid; single functions do not
            dmode = rng.choice(["positive", "zero_mean", "zero_mean", "negative"])
            lo, hi = {"positive": (0, 8), "zero_mean": (-4, 4), "negative": (-8, 0)}[dmode]
            # round-3 hardening: a fifth of the layouts is integer-valued and fed as int64 arrays / int lists
            ints = rng.random() < 0.2 or li == 1
            if ints:
                data = [[F(rng.randint(lo, hi)) for _ in range(W)] for _ in range(H)]
                noise = [[F(rng.randint(1, 3)) for _ in range(W)] for _ in range(H)]
                psf = [[F(rng.randint(0, 2)) for _ in range(3)] for _ in range(3)]
                psf[1][1] = F(rng.randint(1, 4))
            else:
                data = [[gen.dyadic(rng, lo, hi, 3) for _ in range(W)] for _ in range(H)]
                noise = [[gen.pos_dyadic(rng, 2, 3, 2) for _ in range(W)] for _ in range(H)]
                psf = [[F(rng.randint(0, 4), 8) for _ in range(3)] for _ in range(3)]
                psf[1][1] = F(1)
            objs = []
            # the exact model re-solves every passive-set system from scratch in big rationals (~n^4 per
            # case): keep the quick tier's systems below ~30 parameters
            smax = 4 if (self._tier == "quick" and layout.count("mapper") > 1) else 5
            for o in layout.split("+"):
                if o == "mapper":
                    objs.append({"type": "mapper", "shape": [rng.randint(3, smax), rng.randint(3, smax)],
                                 "coefficient": q(gen.pos_dyadic(rng, 1, 4, 2))})
                else:
                    k = rng.randint(1, 2)
                    k = 1 if n_un < 3 else k
                    objs.append({"type": "func", "params": k, "regularized": rng.random() < 0.3,
                                 "matrix": qmat([[(F(rng.randint(0, 4)) if ints else gen.dyadic(rng, 0, 4, 2))
                                                  for _ in range(k)] for _ in range(n_un)])})
            n_mappers = sum(1 for o in objs if o["type"] == "mapper")
            sub = rng.choice([1, 2])
            base = {"kind": "inversion", "H": H, "W": W, "mask": "".join("1" if v else "0" for r in m for v in r),
                    "data": qmat(data), "noise": qmat(noise), "psf": qmat(psf), "objs": objs, "sub": sub,
                    "scale": q(rng.choice([F(1), F(1, 2), F(2)])),
                    "ints": rng.choice(["int64", "list"]) if ints else None,
                    "via": rng.choice(["factory", "factory", "imaging_from", "class"])}
            for wt, pos, pinit, force in itertools.product([False, True], [True, False], [True, False],
                                                           [True, False]):
                if not pos and (not pinit or not force):
                    continue  # the two flags are not read by the unconstrained solver: one combination
                c = dict(base)
                c.update({"tag": f"inv_{layout}_{dmode}_wt{int(wt)}_pos{int(pos)}_p{int(pinit)}_f{int(force)}",
                          "use_w_tilde": wt, "use_positive_only_solver": pos,
                          "positive_only_uses_p_initial": pinit, "force_edge_pixels_to_zeros": force,
                          "force_edge_image": False, "image_pixels_source_zero": None})
                yield c
            # round-3 hardening: "set but falsy" / None settings crossed with the config defaults
            for pos, pinit, force in rng.sample([(None, None, True), (None, False, 0), (1, None, 1), (0, None, True),
                                                 (None, 0, False), (1, 1, 0), (None, True, 1)], 3):
                c = dict(base)
                c.update({"tag": f"inv_{layout}_{dmode}_settings_{pos!r}_{pinit!r}_{force!r}",
                          "use_w_tilde": rng.random() < 0.5, "use_positive_only_solver": pos,
                          "positive_only_uses_p_initial": pinit, "force_edge_pixels_to_zeros": force,
                          "force_edge_image": False, "image_pixels_source_zero": None})
                yield c
            if n_mappers == 1:  # force_edge_image_pixels_to_zeros with an image-pixel list
                c = dict(base)
                zs = sorted(rng.sample(range(n_un), rng.randint(1, min(3, n_un))))
                c.update({"tag": f"inv_{layout}_{dmode}_source_zero", "use_w_tilde": rng.random() < 0.5,
                          "use_positive_only_solver": True, "positive_only_uses_p_initial": rng.random() < 0.5,
                          "force_edge_pixels_to_zeros": True, "force_edge_image": True,
                          "image_pixels_source_zero": zs, "zero_as": rng.choice(["list", "ndarray"])})
                yield c
                c = dict(c)  # an explicitly empty list: nothing beyond the edge is forced
                c.update({"tag": f"inv_{layout}_{dmode}_source_zero_empty", "image_pixels_source_zero": [],
                          "zero_as": "list"})
                yield c

    # ------------------------------------------------------------------ implementation
    def run_impl(self, case):
        aa = load_autoarray()
        kind = case["kind"]
        if kind == "big":
            return self._run_big(aa, case)
        if kind == "history":
            return self._run_history(aa, case)
        if kind == "solver":
            from autoarray.util.fnnls import fnnls_cholesky

            n = len(case["b"])
            dt = case.get("dtype", "float64")
            A = typed(case["A"], dt, (n, n))
            b = typed(case["b"], dt, (n,))
            p = case["p_init"]
            if p is None:
                P = np.zeros(0, dtype=int)
            elif p["kind"] == "mask":
                P = np.array(p["mask"], dtype=bool)
            else:
                P = np.array(p["idx"], dtype=int)
            try:
                if case.get("omit_p_initial"):
                    d = fnnls_cholesky(A, b.copy())  # the default argument
                else:
                    d = fnnls_cholesky(A, b.copy(), P_initial=P)
            except RuntimeError:
                return {"err": "runtime"}
            except (np.linalg.LinAlgError, ValueError):
                return {"err": "singular"}
            return {"d": qlist(d)}
        if kind == "recon":
            from autoarray.inversion.inversion import inversion_util
            from autoarray import exc

            n = len(case["b"])
            cont = case.get("container", "float64")
            if cont in ("int64", "float64"):
                A = typed(case["A"], cont, (n, n))
                b = typed(case["b"], cont, (n,))
            else:  # plain Python containers of ints (posneg only: numpy.linalg.solve accepts them)
                conv = list if cont == "list" else tuple
                A = conv(conv(int(F(x)) for x in r) for r in case["A"])
                b = conv(int(F(x)) for x in case["b"])
            rconv = tuple if case.get("ranges_as") == "tuple" else list
            try:
                if case["fn"] == "posneg":
                    kw = {}
                    if "force_check" in case:
                        kw["force_check_reconstruction"] = case["force_check"]
                    s = inversion_util.reconstruction_positive_negative_from(
                        data_vector=b, curvature_reg_matrix=A,
                        mapper_param_range_list=[rconv(r) for r in case["ranges"]], **kw)
                else:
                    s = inversion_util.reconstruction_positive_only_from(
                        data_vector=b, curvature_reg_matrix=A,
                        settings=aa.SettingsInversion(positive_only_uses_p_initial=case["p_initial"]))
            except exc.InversionException:
                return {"err": "InversionException"}
            return {"s": qlist(s)}
        if kind == "chol":
            return self._run_chol(case)
        return self._run_inversion(aa, case)

    @staticmethod
    def _as_index_container(d, how):
        if how == "list":
            return [int(v) for v in d]
        if how == "tuple":
            return tuple(int(v) for v in d)
        return np.array([int(v) for v in d], dtype=int)

    def _run_chol(self, case):
        from scipy import linalg as slg

        from autoarray.util import cholesky_funcs as cf

        sub = case["sub"]
        if sub == "seq":
            n = len(case["b"])
            A = typed(case["A"], "float64", (n, n))
            b = typed(case["b"], "float64", (n,))
            U = np.zeros((0, 0))
            P = np.array([], dtype=int)
            fk = case.get("first_k", 0)
            stages = []

            def stage():
                x = slg.cho_solve((U, False), b[P]) if len(P) else np.zeros(0)
                stages.append({"U": qmat(np.asarray(U, dtype=float)), "P": [int(v) for v in P], "x": qlist(x)})

            try:
                for t, i in enumerate(case["inserts"]):
                    P = np.append(P, int(i))
                    if fk and t < fk - 1:
                        continue  # warm start: the first factor is scipy.linalg.cholesky of a k x k block
                    if fk and t == fk - 1:
                        U = slg.cholesky(A[P][:, P])
                    else:
                        U = cf.cholinsertlast(U, A[int(i)][P])
                    stage()
                for d in case["deletes"]:
                    U = cf.choldeleteindexes(U, self._as_index_container(d, case.get("dels_as", "ndarray")))
                    P = np.delete(P, [int(v) for v in d])
                    stage()
            except (ValueError, np.linalg.LinAlgError):
                return {"err": "domain"}
            return {"stages": stages}
        if sub == "update":
            U = np_mat(fr_mat(case["U"]))
            x = np_vec(fr_vec(case["x"]))
            out = cf._cholupdate(U, x)
            return {"U": qmat(np.asarray(out, dtype=float))}
        if sub == "insert":
            n = len(case["U"])
            U = np_mat(fr_mat(case["U"])) if n else np.zeros((0, 0))
            x = np_vec(fr_vec(case["x"]))
            try:
                S = cf.cholinsertlast(U, x)
            except ValueError:
                return {"err": "domain"}
            return {"U": qmat(np.asarray(S, dtype=float))}
        if sub == "delete":
            U = np_mat(fr_mat(case["U"]))
            out = cf.choldeleteindexes(U, self._as_index_container(case["indexes"], case.get("dels_as", "ndarray")))
            return {"U": qmat(np.asarray(out, dtype=float).reshape(len(out), len(out)))}
        if sub == "solve":
            U = np_mat(fr_mat(case["U"]))
            x = slg.cho_solve((U, False), np_vec(fr_vec(case["b"])))
            return {"x": qlist(x)}
        if sub == "cholesky":
            try:
                U = slg.cholesky(np_mat(fr_mat(case["A"])))
            except np.linalg.LinAlgError:
                return {"err": "domain"}
            return {"U": qmat(U)}
        if sub == "fnnls":
            from autoarray.util.fnnls import fnnls_cholesky

            n = len(case["b"])
            try:
                d = fnnls_cholesky(typed(case["A"], "float64", (n, n)), typed(case["b"], "float64", (n,)))
            except RuntimeError:
                return {"err": "runtime"}
            except (np.linalg.LinAlgError, ValueError):
                return {"err": "singular"}
            return {"d": qlist(d)}
        raise ValueError(sub)

    def _make_dataset(self, aa, case):
        """(dataset, mask, over_sampler, grid) of an inversion case"""
        H, W = case["H"], case["W"]
        sc = float(F(case["scale"]))
        m = np.array([c == "1" for c in case["mask"]], dtype=bool).reshape(H, W)
        mask = aa.Mask2D(mask=m, pixel_scales=(sc, sc))
        ints = case.get("ints")

        def vals(mat):
            if ints == "int64":
                return typed(mat, "int64")
            if ints == "list":
                return [[int(F(x)) for x in r] for r in mat]
            return np_mat(fr_mat(mat))

        data = aa.Array2D.no_mask(values=vals(case["data"]), pixel_scales=(sc, sc))
        noise = aa.Array2D.no_mask(values=vals(case["noise"]), pixel_scales=(sc, sc))
        psf = aa.Kernel2D.no_mask(values=vals(case["psf"]), pixel_scales=(sc, sc))
        sub = case["sub"]
        ds = aa.Imaging(
            data=data, noise_map=noise, psf=psf,
            over_sampling=aa.OverSamplingDataset(uniform=aa.OverSamplingUniform(sub_size=1),
                                                 pixelization=aa.OverSamplingUniform(sub_size=sub)),
        ).apply_mask(mask=mask)
        over = aa.OverSamplerUniform(mask=mask, sub_size=sub)
        return ds, mask, over, over.over_sampled_grid

    def _make_obj(self, aa, case, o, mask, over, grid):
        ints = case.get("ints")
        if o["type"] == "mapper":
            mesh_grid = aa.Mesh2DRectangular.overlay_grid(grid=grid, shape_native=tuple(o["shape"]))
            mg = aa.MapperGrids(mask=mask, source_plane_data_grid=grid, source_plane_mesh_grid=mesh_grid)
            return aa.MapperRectangular(
                mapper_grids=mg, over_sampler=over, border_relocator=None,
                regularization=aa.reg.Constant(coefficient=float(F(o["coefficient"]))))
        return aa.m.MockLinearObjFuncList(
            parameters=o["params"], grid=aa.Grid2D.from_mask(mask=mask),
            mapping_matrix=(typed(o["matrix"], "int64") if ints else np_mat(fr_mat(o["matrix"]))),
            regularization=aa.reg.Constant(coefficient=1.0) if o["regularized"] else None)

    @staticmethod
    def _source_zero(case):
        return (np.array(case["image_pixels_source_zero"], dtype=int)
                if case.get("zero_as") == "ndarray" else case["image_pixels_source_zero"])

    def _make_settings(self, aa, case):
        kw = {}
        if case.get("diag_value") is not None:  # round 4: integer-valued F+H through a real Inversion (tie cases)
            kw["no_regularization_add_to_curvature_diag_value"] = float(F(case["diag_value"]))
        return aa.SettingsInversion(
            use_w_tilde=case["use_w_tilde"],
            use_positive_only_solver=case["use_positive_only_solver"],
            positive_only_uses_p_initial=case["positive_only_uses_p_initial"],
            force_edge_pixels_to_zeros=case["force_edge_pixels_to_zeros"],
            force_edge_image_pixels_to_zeros=case["force_edge_image"],
            image_pixels_source_zero=self._source_zero(case), **kw)

    def _make_inversion(self, aa, case, ds, objs, settings, preloads=None):
        via = case.get("via", "factory")
        kw = {} if preloads is None else {"preloads": preloads}  # round 6: a Preloads object shared by several calls
        if via == "imaging_from":
            from autoarray.inversion.inversion import factory

            return factory.inversion_imaging_from(dataset=ds, linear_obj_list=objs, settings=settings, **kw)
        if via == "class" and not case["use_w_tilde"]:
            return aa.InversionImagingMapping(dataset=ds, linear_obj_list=objs, settings=settings, **kw)
        return aa.Inversion(dataset=ds, linear_obj_list=objs, settings=settings, **kw)

    def _build_inversion(self, aa, case):
        ds, mask, over, grid = self._make_dataset(aa, case)
        objs = [self._make_obj(aa, case, o, mask, over, grid) for o in case["objs"]]
        settings = self._make_settings(aa, case)
        return self._make_inversion(aa, case, ds, objs, settings), objs

    @staticmethod
    def _norm(case):
        """inversion case with the three solver settings resolved to what SettingsInversion reports"""
        if case.get("kind") != "inversion":
            return case
        c = dict(case)
        c["use_positive_only_solver"] = effective(case["use_positive_only_solver"], "use_positive_only_solver")
        c["positive_only_uses_p_initial"] = effective(case["positive_only_uses_p_initial"],
                                                      "positive_only_uses_p_initial")
        c["force_edge_pixels_to_zeros"] = bool(case["force_edge_pixels_to_zeros"])
        return c

    def _aux(self, inv, objs, case):
        """what the model / oracle take from the implementation without constraining it (F+H, D and the blurred
        mapping matrices are C04's / C03's subject; edge and zero lists are compared with independent ones)"""
        from autoarray.inversion.pixelization.mappers.abstract import AbstractMapper

        A = np.array(inv.curvature_reg_matrix, dtype=float)
        b = np.array(inv.data_vector, dtype=float)
        params = [int(o.params) for o in objs]
        starts = [sum(params[:i]) for i in range(len(params))]
        aux = {
            "A": qmat(A), "b": qlist(b), "params": params,
            "formalism": type(inv).__name__,
            "edge": [int(v) for v in inv.mapper_edge_pixel_list],
            "ranges": [[int(a), int(c)] for a, c in inv.param_range_list_from(cls=AbstractMapper)],
            "Bs": [qmat(np.asarray(B, dtype=float)) for B in inv.operated_mapping_matrix_list],
        }
        zero = []
        zero_expect = []
        if case["force_edge_image"]:
            zero = [int(v) for arr in inv.mapper_zero_pixel_list for v in np.asarray(arr)]
            for o, st in zip(objs, starts):
                if isinstance(o, AbstractMapper):
                    mm = np.asarray(o.mapping_matrix)[list(case["image_pixels_source_zero"])]
                    zero_expect += [int(j) + st for j in np.where((mm != 0).any(axis=0))[0]]
        aux["zero"] = zero
        aux["zero_expect"] = zero_expect
        return aux

    READS = ["reconstruction", "recon_dict", "mapped_dict", "mapped_total", "image_dict", "image_total"]

    def _observe(self, inv, objs, obs, order=None):
        """the observed quantities of an inversion, read in the given order (default: the order of READS)"""
        from autoarray import exc

        def flat(v):
            return qlist(np.asarray(v.array if hasattr(v, "array") else v).ravel())

        readers = {
            "reconstruction": lambda: qlist(np.array(inv.reconstruction, dtype=float)),
            "recon_dict": lambda: [qlist(np.asarray(inv.reconstruction_dict[o])) for o in objs],
            "mapped_dict": lambda: (lambda md: [flat(md[o]) for o in objs])(inv.mapped_reconstructed_data_dict),
            "mapped_total": lambda: flat(inv.mapped_reconstructed_data),
            # the `image` twins of the same quantities
            "image_dict": lambda: (lambda mi: [qlist(np.asarray(mi[o]).ravel()) for o in objs])(
                inv.mapped_reconstructed_image_dict),
            "image_total": lambda: qlist(np.asarray(inv.mapped_reconstructed_image).ravel()),
        }
        try:
            for name in (order or self.READS):
                obs[name] = readers[name]()
        except exc.InversionException:
            for name in self.READS:
                obs.pop(name, None)
            obs["err"] = "InversionException"
        return obs

    def _run_inversion(self, aa, case):
        inv, objs = self._build_inversion(aa, case)
        return self._observe(inv, objs, {"aux": self._aux(inv, objs, case)})

    # ------------------------------------------------------------------ round 4: histories on reused objects
    DECOYS = ["total_params", "mapper_edge_pixel_list", "no_regularization_index_list", "mapping_matrix",
              "operated_mapping_matrix", "data_vector", "curvature_matrix", "regularization_matrix",
              "regularization_matrix_reduced", "curvature_reg_matrix", "curvature_reg_matrix_reduced",
              "reconstruction_reduced", "regularization_term", "log_det_curvature_reg_matrix_term",
              "log_det_regularization_matrix_term", "reconstruction_noise_map", "data_subtracted_dict",
              "mapped_reconstructed_image", "mapped_reconstructed_data", "reconstruction_dict",
              "regularization_weights_mapper_dict", "all_linear_obj_have_regularization", "mapper_zero_pixel_list"]

    def _hist_virtual(self, case):
        """per step: the ordinary (single-call) case whose model value / oracle is the expectation of the step —
        the value a FRESH object in that state must give — or None for a deliberately faulty call"""
        out = []
        if case["surface"] == "inversion":
            for st in case["steps"]:
                if st.get("fault"):
                    out.append(None)
                    continue
                vc = st["case"]
                cfg = st.get("config")
                if cfg:  # round 6 (R5-D): an unset option resolves to the configuration value in force AT THE CALL
                    vc = dict(vc)
                    for k in ("use_positive_only_solver", "positive_only_uses_p_initial"):
                        if vc.get(k) is None and k in cfg:
                            vc[k] = bool(cfg[k])
                    if "check_reconstruction" in cfg:
                        vc["check_reconstruction"] = bool(cfg["check_reconstruction"])
                out.append(vc)
            return out
        slots = case["slots"]
        for st in case["steps"]:
            if st.get("fault"):
                out.append(None)
            elif st["call"] == "fnnls":
                out.append({"tag": "hist_solver", "kind": "solver", "A": slots[st["A"]], "b": slots[st["b"]],
                            "p_init": st.get("p_init")})
            elif st["call"] == "posonly":
                flag = {"shared": case.get("shared_p_initial"), "default": None}.get(st["settings"], st.get("p_initial"))
                out.append({"tag": "hist_recon_posonly", "kind": "recon", "fn": "posonly", "A": slots[st["A"]],
                            "b": slots[st["b"]], "p_initial": flag})
            else:
                out.append({"tag": "hist_recon_posneg", "kind": "recon", "fn": "posneg", "A": slots[st["A"]],
                            "b": slots[st["b"]], "ranges": st.get("ranges", [])})
        return out

    def _run_history(self, aa, case):
        if case["surface"] == "inversion":
            return self._run_history_inversion(aa, case)
        from autoarray import exc
        from autoarray.inversion.inversion import inversion_util
        from autoarray.util.fnnls import fnnls_cholesky

        # ONE ndarray per slot for the whole history: the same caller-owned objects are handed to every call
        arrs, orig = {}, {}
        for name, v in case["slots"].items():
            n = len(v)
            arrs[name] = typed(v, "float64", (n, n) if (n and isinstance(v[0], list)) else (n,))
            orig[name] = arrs[name].copy()
        shared = aa.SettingsInversion(positive_only_uses_p_initial=case.get("shared_p_initial"))
        # an unrelated 1x1 call of each routine first: what an earlier CASE left behind in module-level state must
        # not decide this history (each history is self-contained and replays alone)
        one = np.array([[1.0]])
        for flush in (lambda: fnnls_cholesky(one, np.array([1.0])),
                      lambda: inversion_util.reconstruction_positive_only_from(
                          data_vector=np.array([1.0]), curvature_reg_matrix=one, settings=aa.SettingsInversion()),
                      lambda: inversion_util.reconstruction_positive_negative_from(
                          data_vector=np.array([1.0]), curvature_reg_matrix=one, mapper_param_range_list=[])):
            try:
                flush()
            except Exception:
                pass
        steps = []
        for st in case["steps"]:
            A, b = arrs[st["A"]], arrs[st["b"]]
            fault = st.get("fault")
            p = st.get("p_init")
            P = (np.zeros(0, dtype=int) if p is None else np.array(p["mask"], dtype=bool) if p["kind"] == "mask"
                 else np.array(p["idx"], dtype=int))
            if fault == "short_b":
                b = b[:-1].copy()
            elif fault == "bad_index":
                P = np.array([len(b) + 3], dtype=int)
            elif fault == "not_spd":  # a negative diagonal entry: the factor update fails in the middle of the loop
                A = A.copy()
                j = st.get("fault_at", 0) % len(b)
                A[j, j] = -abs(A[j, j]) - 1.0
                b = np.abs(b) + 1.0
            try:
                if st["call"] == "fnnls":
                    d = fnnls_cholesky(A, b, P_initial=P)
                    o = {"d": qlist(d)}
                elif st["call"] == "posonly":
                    kw = {}
                    if st["settings"] == "shared":
                        kw["settings"] = shared
                    elif st["settings"] == "fresh":
                        kw["settings"] = aa.SettingsInversion(positive_only_uses_p_initial=st.get("p_initial"))
                    if fault == "bad_index":
                        raise IndexError("fault not applicable")
                    o = {"s": qlist(inversion_util.reconstruction_positive_only_from(
                        data_vector=b, curvature_reg_matrix=A, **kw))}
                else:
                    o = {"s": qlist(inversion_util.reconstruction_positive_negative_from(
                        data_vector=b, curvature_reg_matrix=A,
                        mapper_param_range_list=[list(r) for r in st.get("ranges", [])]))}
            except Exception as e:
                if fault:
                    o = {"fault": type(e).__name__}
                elif isinstance(e, exc.InversionException):
                    o = {"err": "InversionException"}
                elif st["call"] == "fnnls" and isinstance(e, RuntimeError):
                    o = {"err": "runtime"}
                elif st["call"] == "fnnls" and isinstance(e, (np.linalg.LinAlgError, ValueError)):
                    o = {"err": "singular"}
                else:
                    o = {"err": type(e).__name__, "msg": str(e)[:200], "unexpected": True}
            else:
                if fault:
                    o = {"fault": "returned"}
            steps.append(o)
        changed = sorted(k for k in arrs if not np.array_equal(arrs[k], orig[k]))
        obs = {"steps": steps}
        if changed:
            obs["slots_modified"] = changed
        return obs

    @staticmethod
    def _geometry(sc):
        return (sc["H"], sc["W"], sc["mask"], sc["scale"], sc["sub"], str(sc["noise"]), str(sc["psf"]), sc.get("ints"))

    def _run_history_inversion(self, aa, case):
        """steps on REUSED objects (settings / dataset / linear objects carried from step to step and edited through
        their public, in-place API) observed; the system each step is judged against (aux) comes from a completely
        FRESH world built in the state the step describes"""
        from autoconf import conf

        cfg_inv = conf.instance["general"]["inversion"]
        cfg_saved = {k: cfg_inv[k] for k in self.CONFIG_KEYS}
        try:
            return self._run_history_inversion_steps(aa, case, cfg_inv, cfg_saved)
        finally:  # the configuration is restored, also on exceptions
            for k, v in cfg_saved.items():
                cfg_inv[k] = v

    CONFIG_KEYS = ["use_positive_only_solver", "positive_only_uses_p_initial", "check_reconstruction",
                   "no_regularization_add_to_curvature_diag_value"]
    PRELOAD_FIELDS = ["curvature_matrix", "regularization_matrix", "operated_mapping_matrix"]

    @staticmethod
    def _scribble(inv):
        """round 6 (R5-B): the caller overwrites, in place, every array the inversion handed out (they are the
        caller's: nothing a later call uses may still live in them)"""
        arrays = []
        for name in ("reconstruction", "curvature_reg_matrix", "data_vector", "mapped_reconstructed_data",
                     "mapped_reconstructed_image", "reconstruction_reduced"):
            try:
                arrays.append(getattr(inv, name))
            except Exception:
                pass
        for name in ("reconstruction_dict", "mapped_reconstructed_data_dict", "mapped_reconstructed_image_dict"):
            try:
                arrays.extend(getattr(inv, name).values())
            except Exception:
                pass
        for x in arrays:
            a = x if isinstance(x, np.ndarray) else getattr(x, "_array", None)
            if isinstance(a, np.ndarray) and a.flags.writeable and a.size and a.dtype.kind == "f":
                a[...] = np.nan

    def _run_history_inversion_steps(self, aa, case, cfg_inv, cfg_saved):
        prev = None
        steps = []
        for st in case["steps"]:
            sc = st["case"]
            share = set(st.get("share", []))
            try:
                # round 6 (R5-D): the configuration values in force for THIS step (everything else: pinned default)
                for k, v in cfg_saved.items():
                    cfg_inv[k] = v
                for k, v in (st.get("config") or {}).items():
                    cfg_inv[k] = float(F(v)) if isinstance(v, str) else v
                geom_same = prev is not None and self._geometry(prev["case"]) == self._geometry(sc)
                # --- dataset: reused and edited in place through Array2D.__setitem__ where only the data differ
                if prev is not None and "dataset" in share and geom_same and not sc.get("ints"):
                    ds, mask, over, grid = prev["ds"], prev["mask"], prev["over"], prev["grid"]
                    H, W = sc["H"], sc["W"]
                    k = 0
                    for y in range(H):
                        for x in range(W):
                            if sc["mask"][y * W + x] == "0":
                                if sc["data"][y][x] != prev["case"]["data"][y][x]:
                                    ds.data[k] = float(F(sc["data"][y][x]))
                                k += 1
                else:
                    ds, mask, over, grid = self._make_dataset(aa, sc)
                # --- linear objects: reused by id when the geometry is the same (regularization re-assigned)
                objs, table = [], {}
                for o in sc["objs"]:
                    oid = o.get("id")
                    old = prev["objs"].get(oid) if (prev is not None and "objs" in share and geom_same and oid) else None
                    if old is not None and {k: v for k, v in old[1].items() if k != "coefficient"} == \
                            {k: v for k, v in o.items() if k != "coefficient"}:
                        obj = old[0]
                        if old[1].get("coefficient") != o.get("coefficient"):
                            obj.regularization = aa.reg.Constant(coefficient=float(F(o["coefficient"])))
                    else:
                        obj = self._make_obj(aa, sc, o, mask, over, grid)
                    objs.append(obj)
                    if oid:
                        table[oid] = (obj, o)
                # --- settings: one object across the worlds, public attributes edited in place
                pc = prev["case"] if prev is not None else None
                if prev is not None and "settings" in share and all(
                        pc.get(k) == sc.get(k) for k in ("use_positive_only_solver", "positive_only_uses_p_initial",
                                                         "diag_value")):
                    settings = prev["settings"]
                    settings.use_w_tilde = sc["use_w_tilde"]
                    settings.force_edge_pixels_to_zeros = sc["force_edge_pixels_to_zeros"]
                    settings.force_edge_image_pixels_to_zeros = sc["force_edge_image"]
                    settings.image_pixels_source_zero = self._source_zero(sc)
                else:
                    settings = self._make_settings(aa, sc)
                # --- round 6: ONE Preloads object carried from step to step (the generator keeps the preloaded
                #     quantities valid: they are computed once, by a fresh world without preloads, in the state of
                #     the first step that uses them); the caller keeps its own copies and checks them at the end
                fields = st.get("preload") or []
                preloads = None
                if fields:
                    if prev is not None and "preloads" in share and prev.get("preload_fields") == fields:
                        preloads, pcopy = prev["preloads"], prev["preload_copy"]
                    else:
                        src, _ = self._build_inversion(aa, sc)
                        vals = {f: np.array(getattr(src, f), dtype=float) for f in fields}
                        pcopy = {f: v.copy() for f, v in vals.items()}
                        how = st.get("preload_as", "c")  # R5-C: equal-valued Fortran-ordered / read-only preloads
                        if how == "fortran":
                            vals = {f: np.asfortranarray(v) for f, v in vals.items()}
                        elif how == "readonly":
                            for v in vals.values():
                                v.flags.writeable = False
                        preloads = aa.Preloads(**vals)
                prev = {"case": sc, "ds": ds, "mask": mask, "over": over, "grid": grid, "settings": settings,
                        "objs": {**(prev["objs"] if prev else {}), **table},
                        "preloads": preloads, "preload_fields": fields if preloads is not None else None,
                        "preload_copy": pcopy if preloads is not None else None}
                if st.get("fault"):  # a linear object with one row too few: the build raises in the middle
                    n_un = sc["mask"].count("0")
                    bad = aa.m.MockLinearObjFuncList(parameters=1, grid=aa.Grid2D.from_mask(mask=mask),
                                                     mapping_matrix=np.ones((max(1, n_un - 1), 1)))
                    try:
                        inv = self._make_inversion(aa, sc, ds, objs + [bad], settings, preloads=preloads)
                        inv.reconstruction
                        inv.mapped_reconstructed_data
                        steps.append({"fault": "returned"})
                    except Exception as e:
                        steps.append({"fault": type(e).__name__})
                    continue
                inv = self._make_inversion(aa, sc, ds, objs, settings, preloads=preloads)
                for name in st.get("decoys", []):  # unrelated derived quantities read FIRST
                    try:
                        getattr(inv, name)
                    except Exception:
                        pass
                fresh_inv, fresh_objs = self._build_inversion(aa, sc)
                obs = {"aux": self._aux(fresh_inv, fresh_objs, sc)}
                steps.append(self._observe(inv, objs, obs, order=st.get("order")))
                if st.get("scribble"):
                    self._scribble(inv)
                    self._scribble(fresh_inv)
                if preloads is not None:  # the preloaded arrays are the caller's: bit-for-bit what was handed in
                    drift = [f for f in fields if not np.array_equal(getattr(preloads, f), prev["preload_copy"][f])]
                    if drift:
                        steps[-1]["preloads_modified"] = drift
            except Exception as e:
                steps.append({"err": type(e).__name__, "msg": str(e)[:200], "unexpected": True})
        return {"steps": steps}

    # -- generators of histories
    def _hist_linear_cases(self, rng, count):
        P_MODES = ["none", "prod", "mask", "idx", "full"]
        types = ["twin_b", "twin_A", "twin_tiny", "fault_reuse", "fault_first", "modes", "worlds", "worlds_size"]
        for k in range(count):
            htype = types[k % len(types)]
            n = rng.randint(2, 6)
            src = rng.random()
            if src < 0.3 and n >= 3:
                A, b, _ = sym_system(rng, n)
            elif src < 0.5:
                A = spd_int(rng, n)
                b = [F(rng.randint(-6, 6)) for _ in range(n)]
            else:
                A, _ = spd_dyadic(rng, n, rng.choice(["gram", "gram", "tridiag", "diag"]))
                b = rhs_for(rng, A, rng.choice(["planted", "noise", "noise", "negative"]))
            call = rng.choice(["fnnls", "fnnls", "fnnls", "posonly", "posonly", "mixed"])
            shared_flag = rng.choice([None, True, False])
            slots = {"A0": qmat(A), "b0": qlist(b)}

            def step(An, bn, label, fault=None, mode=None):
                c = call if call != "mixed" else rng.choice(["posonly", "posneg", "fnnls"])
                st = {"call": c, "A": An, "b": bn, "label": label, "fault": fault}
                Af, bf = fr_mat(slots[An]), fr_vec(slots[bn])
                if c == "fnnls":
                    st["p_init"] = p_init_for(rng, Af, bf, mode or rng.choice(P_MODES))
                elif c == "posonly":
                    st["settings"] = rng.choice(["shared", "shared", "default", "fresh"])
                    st["p_initial"] = rng.choice([None, True, False])
                else:
                    cut = rng.randint(0, len(bf) - 1)
                    st["ranges"] = [[cut, len(bf)]]
                if fault == "not_spd":
                    st["fault_at"] = rng.randrange(len(bf))
                return st

            j = rng.randrange(n)
            if htype == "twin_b":  # inside np.allclose's default tolerance, far outside the property's 1e-9
                eps = F(1, 2 ** rng.choice([17, 18, 20]))
                b1 = list(b)
                b1[j] = b[j] * (1 + eps) if b[j] != 0 else F(1, 2 ** 30)
                slots["b1"] = qlist(b1)
                steps = [step("A0", "b0", "base"), step("A0", "b1", f"b[{j}] moved by {float(eps):.1e} relative"),
                         step("A0", "b0", "base again")]
            elif htype == "twin_A":
                eps = F(1, 2 ** rng.choice([17, 18, 20]))
                i = rng.randrange(n)
                A1 = [r[:] for r in A]
                A1[i][j] = A1[j][i] = A[i][j] * (1 + eps) if A[i][j] != 0 else F(1, 2 ** 24)
                slots["A1"] = qmat(A1)
                steps = [step("A0", "b0", "base"), step("A1", "b0", f"A[{i},{j}] moved by {float(eps):.1e} relative"),
                         step("A0", "b0", "base again")]
            elif htype == "twin_tiny":  # tiny values, absolute move of 2^-33 ~ 1.2e-10
                bt = [x / 2 ** 24 for x in b]
                b1 = list(bt)
                b1[j] = bt[j] + F(1, 2 ** 33)
                slots["b0"], slots["b1"] = qlist(bt), qlist(b1)
                steps = [step("A0", "b0", "tiny base"), step("A0", "b1", f"b[{j}] moved by 2^-33 absolute"),
                         step("A0", "b0", "tiny base again")]
            elif htype in ("fault_reuse", "fault_first"):
                fk = rng.choice(["short_b", "bad_index", "not_spd", "not_spd"])
                b1 = [x + (1 if t == j else 0) for t, x in enumerate(b)]
                slots["b1"] = qlist(b1)
                steps = ([step("A0", "b0", "base")] if htype == "fault_reuse" else []) + \
                        [step("A0", "b0", f"faulty call ({fk})", fault=fk), step("A0", "b0", "base after the fault"),
                         step("A0", "b1", "other data after the fault")]
            elif htype == "modes":
                ms = rng.sample(P_MODES, 3) + ["none"]
                steps = [step("A0", "b0", f"P_initial mode {m}", mode=m) for m in ms]
            else:
                n2 = n if htype == "worlds" else max(1, n + rng.choice([-1, 1]))
                A2 = spd_int(rng, n2)
                b2 = [F(rng.randint(-6, 6)) for _ in range(n2)]
                slots["A2"], slots["b2"] = qmat(A2), qlist(b2)
                steps = [step("A0", "b0", "world 1"), step("A2", "b2", "world 2"), step("A0", "b0", "world 1 again"),
                         step("A2", "b2", "world 2 again")]
            yield {"tag": f"hist_{call}_{htype}", "kind": "history", "surface": "linear", "slots": slots,
                   "shared_p_initial": shared_flag, "steps": steps}

    def _inv_base(self, rng, layout, positive=True):
        """a small inversion world for histories (float dyadic values; every linear object carries an id)"""
        H, W = rng.randint(6, 8), rng.randint(6, 8)
        m, _ = gen.random_mask(rng, H, W, margin=2, kind=rng.choice(["all", "block", "cross", "bernoulli"]))
        n_un = sum(1 for r in m for v in r if not v)
        if n_un < 4:
            m, _ = gen.random_mask(rng, H, W, margin=2, kind="all")
            n_un = sum(1 for r in m for v in r if not v)
        data = [[gen.dyadic(rng, -4, 4, 3) for _ in range(W)] for _ in range(H)]
        noise = [[gen.pos_dyadic(rng, 2, 3, 2) for _ in range(W)] for _ in range(H)]
        psf = [[F(rng.randint(0, 4), 8) for _ in range(3)] for _ in range(3)]
        psf[1][1] = F(1)
        base = {"kind": "inversion", "H": H, "W": W, "mask": "".join("1" if v else "0" for r in m for v in r),
                "data": qmat(data), "noise": qmat(noise), "psf": qmat(psf), "sub": rng.choice([1, 2]),
                "scale": q(rng.choice([F(1), F(1, 2), F(2)])), "ints": None, "via": rng.choice(["factory", "class"]),
                "use_w_tilde": rng.random() < 0.4, "use_positive_only_solver": positive,
                "positive_only_uses_p_initial": rng.choice([True, False]),
                "force_edge_pixels_to_zeros": rng.random() < 0.6, "force_edge_image": False,
                "image_pixels_source_zero": None}
        base["objs"] = [self._inv_obj(rng, o, f"{o[0]}{i}", n_un) for i, o in enumerate(layout.split("+"))]
        base["tag"] = "hist_step"
        return base, n_un

    @staticmethod
    def _inv_obj(rng, o, oid, n_un):
        if o == "mapper":
            return {"type": "mapper", "id": oid, "shape": [rng.randint(3, 4), rng.randint(3, 4)],
                    "coefficient": q(gen.pos_dyadic(rng, 1, 4, 2))}
        k = rng.randint(1, 2)
        return {"type": "func", "id": oid, "params": k, "regularized": rng.random() < 0.3,
                "matrix": qmat([[gen.dyadic(rng, 0, 4, 2) for _ in range(k)] for _ in range(n_un)])}

    def _hist_inversion_cases(self, rng, count):
        types = ["flags", "data_edit", "position", "fault", "reg", "two_objs", "source_zero",
                 "preload_curv", "config", "preload_mixed", "config_args", "ownership"]  # round 6: the last five
        ALL = ["settings", "dataset", "objs", "preloads"]
        for k in range(count):
            htype = types[k % len(types)]
            layout = rng.choice(["mapper", "mapper", "mapper+func", "func+mapper"]) if htype != "fault" else \
                rng.choice(["mapper", "func", "mapper+func"])
            if htype == "preload_curv" and k < len(types):
                layout = "mapper"  # one regularization: the in-place `F += H` branch of curvature_reg_matrix
            if htype.startswith("config"):
                layout = rng.choice(["mapper+func", "func+mapper"])  # the configured diagonal value acts on the func
            if htype == "preload_mixed" and k < len(types):
                layout = rng.choice(["mapper+func", "func+mapper"])  # two regularizations: the `np.add` branch
            base, n_un = self._inv_base(rng, layout, positive=(k < len(types) or rng.random() < 0.8))
            if htype == "preload_mixed" and k < len(types):
                for o in base["objs"]:
                    if o["type"] == "func":
                        o["regularized"] = True
            if k < len(types):  # the first history of every type runs where the forced zeros / warm start act
                base["force_edge_pixels_to_zeros"] = True
                if htype in ("source_zero", "position") and sum(o["type"] == "mapper" for o in base["objs"]) != 1:
                    base["objs"] = [self._inv_obj(rng, "mapper", "m0", n_un)]

            def st(c, label, share=ALL, fault=None, preload=None, config=None, scribble=None):
                order = self.READS[:]
                if rng.random() < 0.7:
                    rng.shuffle(order)
                out = {"case": c, "label": label, "share": list(share), "fault": fault,
                       "decoys": rng.sample(self.DECOYS, rng.randint(0, 6)), "order": order,
                       # round 6 (R5-B): after the observation the caller overwrites every array it was handed
                       "scribble": (rng.random() < 0.5) if scribble is None else scribble}
                if preload:
                    out["preload"] = list(preload)
                if config is not None:
                    out["config"] = dict(config)
                return out

            def edited(c, cnt=3):
                """copy of world c with a few data values changed (F, H and the blurred mapping matrices are not)"""
                c = dict(c)
                d = [r[:] for r in c["data"]]
                for (y, x) in rng.sample(unmasked, min(cnt, len(unmasked))):
                    d[y][x] = q(gen.dyadic(rng, -6, 6, 3))
                c["data"] = d
                return c

            def recoef(c):
                c = dict(c)
                c["objs"] = [dict(o, coefficient=q(F(o["coefficient"]) * rng.choice([2, F(1, 2), 4])))
                             if o["type"] == "mapper" else o for o in c["objs"]]
                return c

            unmasked = [(i // base["W"], i % base["W"]) for i, ch in enumerate(base["mask"]) if ch == "0"]
            if htype == "flags":
                c1 = dict(base)
                c1["use_w_tilde"] = not base["use_w_tilde"] if rng.random() < 0.5 else base["use_w_tilde"]
                c1["force_edge_pixels_to_zeros"] = not base["force_edge_pixels_to_zeros"]
                steps = [st(base, "world A"), st(c1, "same objects, settings flags edited in place"),
                         st(base, "flags edited back")]
            elif htype == "data_edit":
                c1, c2 = dict(base), dict(base)
                d1 = [r[:] for r in base["data"]]
                for (y, x) in rng.sample(unmasked, min(3, len(unmasked))):
                    d1[y][x] = q(gen.dyadic(rng, -6, 6, 3))
                c1["data"] = d1
                d2 = [r[:] for r in d1]
                for (y, x) in unmasked:  # near-duplicate: inside np.allclose's default tolerance, far outside 1e-9
                    v = F(d2[y][x])
                    d2[y][x] = q(v * (1 + F(1, 2 ** rng.choice([17, 18]))) if v != 0 else F(1, 2 ** 18))
                c2["data"] = d2
                steps = [st(base, "world A"), st(c1, "data edited in place (dataset.data[k] = v)"),
                         st(c2, "every data value moved by 4e-6 .. 8e-6 relative in place")]
            elif htype == "position":
                mapper = next((o for o in base["objs"] if o["type"] == "mapper"), None)
                keep = [mapper] if mapper else base["objs"][:1]
                c0, c1, c2 = dict(base), dict(base), dict(base)
                c0["objs"] = keep
                c1["objs"] = [self._inv_obj(rng, "func", "fx", n_un)] + keep
                c2["objs"] = keep + [self._inv_obj(rng, "func", "fy", n_un)]
                steps = [st(c0, "object alone"), st(c1, "same object behind a new one (parameter offset)"),
                         st(c2, "same object in front of a new one"), st(c0, "object alone again")]
            elif htype == "fault":
                c1 = dict(base)
                c1["data"] = [[q(-F(v)) for v in r] for r in base["data"]]
                steps = ([st(base, "world A")] if rng.random() < 0.5 else []) + \
                        [st(base, "faulty build on the same objects (a linear object with a row too few)", fault="bad_rows"),
                         st(base, "world A after the fault"), st(c1, "negated data after the fault")]
            elif htype == "reg":
                c1 = dict(base)
                c1["objs"] = [dict(o, coefficient=q(F(o["coefficient"]) * rng.choice([2, F(1, 2), 1 + F(1, 2 ** 16)])))
                              if o["type"] == "mapper" else o for o in base["objs"]]
                steps = [st(base, "world A"), st(c1, "regularization re-assigned on the same mapper"),
                         st(base, "regularization assigned back")]
            elif htype == "two_objs":
                c1 = dict(base)
                c1["objs"] = [self._inv_obj(rng, "mapper", "mz", n_un)] + [o for o in base["objs"] if o["type"] == "func"]
                steps = [st(base, "world A"), st(c1, "same dataset and settings, another mesh"), st(base, "world A again")]
            elif htype in ("preload_curv", "preload_mixed"):
                # round 6 (R5-B, C05-r6m2): ONE Preloads object handed to consecutive inversions, as a model-fit does
                # with a fixed mapper: only the data, the solver settings and (where H is not preloaded) the
                # regularization coefficient change between the calls, so the preloaded quantities stay valid
                first = k < len(types)
                if htype == "preload_curv":
                    fields = ["curvature_matrix"]
                    base["use_w_tilde"] = True if first else rng.random() < 0.6
                else:
                    fields = sorted(rng.sample(self.PRELOAD_FIELDS, rng.randint(1, 3)))
                    if first:
                        fields = sorted(set(fields) | {"regularization_matrix"})
                worlds = [base]
                for i in range(3):
                    c = edited(worlds[-1]) if rng.random() < 0.7 else dict(worlds[-1])
                    if "regularization_matrix" not in fields and rng.random() < 0.4:
                        c = recoef(c)
                    if rng.random() < 0.5:
                        c["use_positive_only_solver"] = not c["use_positive_only_solver"]
                    if rng.random() < 0.3:
                        c["positive_only_uses_p_initial"] = not c["positive_only_uses_p_initial"]
                    if not (first and htype == "preload_curv") and rng.random() < 0.3:
                        c["use_w_tilde"] = not c["use_w_tilde"]
                    if first and htype == "preload_curv":  # both formalisms twice in a row on the shared object
                        c["use_w_tilde"] = i == 0
                    worlds.append(c)
                steps = [st(c, ("world A" if i == 0 else "same objects, data / solver settings edited") +
                            f", shared Preloads({', '.join(fields)})", preload=fields) for i, c in enumerate(worlds)]
                how = "c" if first else rng.choice(["c", "fortran", "readonly"])
                for t in steps:
                    t["preload_as"] = how
                    t["label"] += {"c": "", "fortran": " [Fortran-ordered]", "readonly": " [read-only arrays]"}[how]
            elif htype == "ownership":
                # round 6 (R5-B): observe -> overwrite everything that was handed out -> the same world again, once on
                # the same objects and once rebuilt from fresh equal inputs -> observe; then the other solver, twice
                flip = dict(base)
                flip["use_positive_only_solver"] = not base["use_positive_only_solver"]
                steps = [st(base, "world A", scribble=True),
                         st(base, "world A again on the same objects, after the returned arrays were overwritten",
                            scribble=True),
                         st(base, "world A rebuilt from fresh equal inputs", share=[], scribble=True),
                         st(flip, "world A, other solver", scribble=True),
                         st(flip, "world A, other solver, again after the returned arrays were overwritten",
                            share=rng.choice([ALL, []]), scribble=True)]
            elif htype in ("config", "config_args"):
                # round 6 (R5-D): the configuration values the anchored code reads, flipped BETWEEN calls on reused
                # objects; options left unset follow the value in force at call time, explicit ones do not move
                for o in base["objs"]:
                    if o["type"] == "func":
                        o["regularized"] = False
                unset = dict(base)
                unset.update({"use_positive_only_solver": None, "positive_only_uses_p_initial": None})
                dv = lambda: q(rng.choice([F(1, 16), F(1, 2), F(1), F(1, 1024)]))
                cfgs = [{}, {"use_positive_only_solver": False, "check_reconstruction": rng.random() < 0.5},
                        {"positive_only_uses_p_initial": False, "no_regularization_add_to_curvature_diag_value": dv()},
                        {"use_positive_only_solver": False, "positive_only_uses_p_initial": False,
                         "no_regularization_add_to_curvature_diag_value": dv()}, {}]
                if htype == "config":
                    mid = cfgs[1:4]
                    rng.shuffle(mid)
                    steps = [st(unset if i != 2 else edited(unset), f"options unset, configuration {cfg or 'default'}",
                                config=cfg) for i, cfg in enumerate([{}] + mid + [{}])]
                else:
                    steps = []
                    for i in range(4):
                        cfg = rng.choice(cfgs[1:4])
                        c = dict(unset if i % 2 == 0 else base)
                        if i % 2:  # explicit arguments are the controls: the configuration must not move them
                            c["use_positive_only_solver"] = rng.choice([True, False, 1, 0])
                            c["positive_only_uses_p_initial"] = rng.choice([True, False])
                            c["diag_value"] = dv() if rng.random() < 0.5 else None
                        steps.append(st(c, ("options unset" if i % 2 == 0 else "explicit options") +
                                        f", configuration {cfg}", config=cfg))
            else:  # image-pixel source-zero list on the shared settings, edited between the worlds
                n_m = sum(1 for o in base["objs"] if o["type"] == "mapper")
                c0, c1, c2 = dict(base), dict(base), dict(base)
                if n_m == 1 and base["use_positive_only_solver"]:
                    for c, cnt in ((c1, 2), (c2, 1)):
                        c.update({"force_edge_pixels_to_zeros": True, "force_edge_image": True, "zero_as": "list",
                                  "image_pixels_source_zero": sorted(rng.sample(range(n_un), min(cnt, n_un)))})
                else:
                    c1["positive_only_uses_p_initial"] = not base["positive_only_uses_p_initial"]
                steps = [st(c0, "world A"), st(c1, "source-zero list set on the shared settings"),
                         st(c2, "another list"), st(c0, "list removed")]
            yield {"tag": f"hist_inversion_{htype}", "kind": "history", "surface": "inversion", "steps": steps}

    # -- round 6: decades streams
    EXTREME = [(150, 150), (-150, -20), (150, 128), (-100, 0), (100, 100), (300, 300), (-300, -40)]

    def _decade_solver_cases(self, rng, count):
        """A·2^ka, b·2^kb (powers of two keep the dyadic inputs exact).  The solver's documented absolute tolerance
        eps·n on the gradient and on the passive entries is part of the model; the stream stays where it is far
        below both scales (kb >= -40, kb - ka >= -40: eps·n is about 2^-48), so nothing here sits in its band,
        while D and s reach below the 1e-8 / 1e-5 defaults of np.allclose / np.isclose."""
        for i in range(count):
            n = rng.randint(2, 7)
            A, akind = spd_dyadic(rng, n)
            mode = rng.choice(["planted", "noise", "noise", "negative"])
            b = rhs_for(rng, A, mode)
            if i < len(self.EXTREME):
                ka, kb = self.EXTREME[i]
                band = "extreme"
            else:
                ka = rng.randint(-45, 45)
                lo = max(-40, ka - 40)
                kb = rng.randint(lo, lo + 6) if i % 3 == 0 else rng.randint(lo, 60)
                band = "wide"
            A = [[x * F(2) ** ka for x in r] for r in A]
            b = [x * F(2) ** kb for x in b]
            if rng.random() < 0.3:  # one nearly-equal ingredient: right-hand side entries 2^-30 (relative) apart
                b = [b[0] * (1 + F(rng.randint(-4, 4), 2 ** 30)) for _ in b]
                band += "_near_equal_b"
            for pm in ("none", "prod"):
                yield self._solver_case(rng, A, b, pm, f"decade_solver_{band}_{pm}")
            if rng.random() < 0.5:
                yield {"tag": f"decade_recon_{band}_posonly", "kind": "recon", "fn": "posonly", "A": qmat(A),
                       "b": qlist(b), "p_initial": rng.choice([True, False])}

    def _decade_inversion_cases(self, rng, count):
        """real inversions with the data scaled by 2^kd and the noise map by 2^kn (D ~ 2^(kd-2kn), F ~ 2^(-2kn)); the
        regularization coefficient and the diagonal value follow the noise (2^-kn, 2^-2kn) so that F+H keeps its
        shape.  Positive-only solver: kd >= -40 and kd - 2kn >= -40 (see _decade_solver_cases)."""
        for i in range(count):
            layout = ["mapper", "mapper+func", "func+mapper"][i % 3]
            base, n_un = self._inv_base(rng, layout, positive=(i % 2 == 0))
            kn = rng.randint(-45, 45) if i % 4 != 3 else 0
            if base["use_positive_only_solver"]:
                lo = max(-40, 2 * kn - 40)
                kd = rng.randint(lo, lo + 6) if i % 4 == 0 else rng.randint(lo, max(45, lo + 10))
            else:
                kd = rng.randint(-45, 45)
            sd, sn = F(2) ** kd, F(2) ** kn
            data = [[F(v) for v in r] for r in base["data"]]
            variant = rng.choice(["plain", "plain", "near_uniform", "offset"])
            if variant == "near_uniform":  # nearly-uniform data: 2^-30 relative apart
                v0 = gen.pos_dyadic(rng, 1, 4, 2) * rng.choice([1, -1])
                data = [[v0 * (1 + F(rng.randint(-4, 4), 2 ** 30)) for _ in r] for r in data]
            elif variant == "offset":  # a large common level under small structure
                data = [[v + 2 ** 20 for v in r] for r in data]
            base["data"] = qmat([[v * sd for v in r] for r in data])
            base["noise"] = qmat([[F(v) * sn for v in r] for r in base["noise"]])
            for o in base["objs"]:
                if o["type"] == "mapper":
                    o["coefficient"] = q(F(o["coefficient"]) / sn)
                else:
                    o["regularized"] = False
            base["diag_value"] = q(F(1, 1024) / (sn * sn))
            for wt in (True, False):
                c = dict(base)
                c.update({"use_w_tilde": wt, "tag": f"decade_inv_{layout}_{variant}_pos"
                                                    f"{int(bool(base['use_positive_only_solver']))}_wt{int(wt)}"})
                yield c

    def _tie_cases(self, rng, quick):
        """exact ratio ties of fix_constraint_cholesky and degenerate steps of the active-set loop (round 4, r4m2):
        systems invariant under permutations of parameters, with the passive-set guesses that put an orbit into the
        passive set first; classified by the exact trace `lh_trace` (ties are decidable there), compared with the
        exact model and judged by the KKT oracle like every solver case"""
        # (a) enumerated (seed-independent): [[a,c,e],[c,a,e],[e,e,f]] s = [p,p,r], the pair guessed passive
        fam = []
        for a, c, e, f, p, r in itertools.product((2, 3, 4), (-1, 0, 1), (1, 2, 3), (3, 5, 6, 9), (1, 2), (1, 2, 3, 4)):
            if a * a - c * c <= 0 or (a + c) * f - 2 * e * e <= 0:
                continue  # not positive definite
            A = [[F(a), F(c), F(e)], [F(c), F(a), F(e)], [F(e), F(e), F(f)]]
            b = [F(p), F(p), F(r)]
            if lh_trace(A, b, [0, 1])[1]:
                fam.append((A, b))
        stride = max(1, len(fam) // (24 if quick else 200))
        for t, (A, b) in enumerate(fam[::stride]):
            perm = rng.sample(range(3), 3)  # the pair is not always (0, 1)
            Ap = [[A[perm.index(i)][perm.index(j)] for j in range(3)] for i in range(3)]
            bp = [b[perm.index(i)] for i in range(3)]
            pair = [perm[0], perm[1]]
            for p_init in ({"kind": "idx", "idx": pair}, {"kind": "idx", "idx": pair[::-1]},
                           {"kind": "mask", "mask": [i in pair for i in range(3)]}):
                yield {"tag": "solver_tie_enum", "kind": "solver", "A": qmat(Ap), "b": qlist(bp), "p_init": p_init}
        # (a') cold-start ties: 3-column cores found by a closed-form pre-filter, alone and next to an unrelated
        # block of parameters on other pixels, as a solver call and through a real Inversion
        found = 0
        for _ in range(8000 if quick else 80000):
            if found >= (8 if quick else 80):
                break
            core = cold_tie_core(rng)
            if core is None:
                continue
            found += 1
            M, x, v = core
            extra = rng.choice([0, 0, 1, 2])  # unrelated parameters living on pixels of their own
            for t in range(extra):
                M = [r + [0] for r in M] + [[0] * (3 + t) + [rng.randint(1, 3)]]
                x = x + [rng.randint(-3, 3)]
            n = 3 + extra
            perm = rng.sample(range(n), n)  # the pair is not always (0, 1)
            M = [[r[perm[j]] for j in range(n)] for r in M]
            A, b = design_system(M, x, v)
            u = np.linalg.solve(np_mat(A), np_vec(b))
            for name, p_init in (("none", None), ("prod", {"kind": "mask", "mask": [bool(t > 0) for t in u]}),
                                 ("mask_empty", {"kind": "mask", "mask": [False] * n})):
                yield {"tag": f"solver_tie_cold_{name}", "kind": "solver", "A": qmat(A), "b": qlist(b), "p_init": p_init}
            if len(M) <= 16:
                yield from self._design_inversions(rng, M, x, v, ["none", "prod"], "cold")
        # (b) random permutation-invariant designs; every guess of the passive set that contains an orbit.  A design
        # whose tie occurs from the cold start or from the production warm start is ALSO run through a real
        # Inversion (F + H = M'M + v*I, integer valued: one linear object with mirror-image columns, identical data
        # and noise, no blurring) — the only two guesses an Inversion can make.
        n_tie = n_inv = 0
        for _ in range(700 if quick else 7000):
            n = rng.randint(3, 6 if quick else 8)
            M, x, v, orbits = sym_design(rng, n)
            A, b = design_system(M, x, v)
            u = np.linalg.solve(np_mat(A), np_vec(b))
            orb = rng.choice(orbits)
            others = [i for i in range(n) if i not in orb and rng.random() < 0.5]
            modes = {"none": None, "prod": {"kind": "mask", "mask": [bool(t > 0) for t in u]},
                     "orbit": {"kind": "idx", "idx": rng.sample(orb, len(orb))},
                     "orbit_plus": {"kind": "mask", "mask": [i in orb or i in others for i in range(n)]},
                     "orbits": {"kind": "idx", "idx": [i for o in orbits for i in o]},
                     "full": {"kind": "mask", "mask": [True] * n}}
            sa = sb = F(1)
            if rng.random() < 0.2:  # magnitudes: the absolute tolerance eps*n is not scale-free
                sa, sb = F(2) ** rng.randint(-6, 6), F(2) ** rng.randint(-6, 6)
            As = [[t * sa for t in r] for r in A]
            bs = [t * sb for t in b]
            hits = []
            for name, p_init in modes.items():
                if quick and n_tie >= 200 and name not in ("none", "prod"):
                    continue
                ties = lh_trace(A, b, p_init_indices(p_init))[1]
                if ties:
                    hits.append(name)
                    n_tie += 1
                if ties or rng.random() < 0.03:
                    yield {"tag": f"solver_{'tie' if ties else 'sym'}_{name}", "kind": "solver", "A": qmat(As),
                           "b": qlist(bs), "p_init": p_init}
            inv_modes = [name for name in hits if name in ("none", "prod")]
            if inv_modes and len(M) <= 16 and n_inv < (4 if quick else 40):
                n_inv += 1
                yield from self._design_inversions(rng, M, x, v, inv_modes, "sym")

    def _design_inversions(self, rng, M, x, v, modes, what):
        """the system F + H = M'M + v*I, D = M'x through a real Inversion: one linear object whose mapping matrix is
        M (rows scattered over the pixels of a small window, rows of zeros elsewhere), noise 1, no blurring"""
        n = len(M[0])
        side = 3 if len(M) <= 9 else 4
        H, W = rng.randint(side + 2, side + 4), rng.randint(side + 2, side + 5)
        y0, x0 = rng.randint(1, H - side - 1), rng.randint(1, W - side - 1)
        m = [[not (y0 <= y < y0 + side and x0 <= xx < x0 + side) for xx in range(W)] for y in range(H)]
        rows = M + [[0] * n for _ in range(side * side - len(M))]
        xs = x + [rng.randint(-3, 3) for _ in range(side * side - len(M))]  # pixels no column sees
        order = rng.sample(range(side * side), side * side)  # which pixel carries which row
        data = [[F(0)] * W for _ in range(H)]
        for t, k in enumerate(order):
            data[y0 + t // side][x0 + t % side] = F(xs[k])
        for name in modes:
            yield {"tag": f"inv_tie_{what}_{name}", "kind": "inversion", "H": H, "W": W,
                   "mask": "".join("1" if t else "0" for r in m for t in r), "data": qmat(data),
                   "noise": qmat([[F(1)] * W for _ in range(H)]),
                   "psf": qmat([[F(0)] * 3, [F(0), F(1), F(0)], [F(0)] * 3]),
                   "objs": [{"type": "func", "params": n, "regularized": False,
                             "matrix": qmat([rows[k] for k in order])}],
                   "sub": 1, "scale": "1", "ints": None, "via": rng.choice(["factory", "class"]),
                   "diag_value": q(v), "use_w_tilde": rng.random() < 0.5,
                   "use_positive_only_solver": True, "positive_only_uses_p_initial": name == "prod",
                   "force_edge_pixels_to_zeros": rng.random() < 0.5, "force_edge_image": False,
                   "image_pixels_source_zero": None}

    # ------------------------------------------------------------------ model
    def model_requests(self, case, impl_obs):
        if case.get("large") or case["kind"] == "big":
            return []  # large cases: the vectorised oracle judges alone (DESIGN §13)
        if case["kind"] == "history":
            reqs, spans = [], []
            steps_obs = impl_obs.get("steps") if isinstance(impl_obs, dict) else None
            if steps_obs is None:
                case["_spans"] = []
                return []
            for vc, so in zip(self._hist_virtual(case), steps_obs):
                rs = []
                if vc is not None and not so.get("unexpected") and "fault" not in so:
                    try:
                        rs = self.model_requests(vc, so)
                    except Skip:
                        rs = []
                spans.append((len(reqs), len(reqs) + len(rs)))
                reqs.extend(rs)
            case["_spans"] = spans
            return reqs
        case = self._norm(case)
        kind = case["kind"]
        if kind == "solver":
            n = len(case["b"])
            return [{"op": "c05.fnnls", "A": case["A"], "b": case["b"], "tol": q(EPS * n),
                     "p_init": p_init_indices(case["p_init"])}]
        if kind == "chol":
            sub, num = case["sub"], case.get("num", "float")
            if sub == "seq":
                return [{"op": "c05.chol_seq", "num": num, "A": case["A"], "b": case["b"],
                         "inserts": case["inserts"], "deletes": case["deletes"]}]
            if sub == "update":
                return [{"op": "c05.cholupdate", "num": num, "U": case["U"], "x": case["x"]}]
            if sub == "insert":
                return [{"op": "c05.cholinsertlast", "num": num, "U": case["U"], "x": case["x"]}]
            if sub == "delete":
                return [{"op": "c05.choldelete", "num": num, "U": case["U"], "indexes": case["indexes"]}]
            if sub == "solve":
                return [{"op": "c05.cho_solve", "num": num, "U": case["U"], "b": case["b"]}]
            if sub == "cholesky":
                return [{"op": "c05.cholesky", "num": num, "A": case["A"]}]
            return [{"op": "c05.fnnls_chol", "A": case["A"], "b": case["b"], "tol": q(EPS * len(case["b"]))}]
        if kind == "recon":
            return [{"op": "c05.reconstruction", "A": case["A"], "b": case["b"], "eps": q(EPS),
                     "atol": q(1e-8), "rtol": q(1e-5),
                     "use_positive_only_solver": case["fn"] == "posonly",
                     "positive_only_uses_p_initial": effective(case.get("p_initial", False),
                                                               "positive_only_uses_p_initial"),
                     "force_edge_pixels_to_zeros": False, "mapper_ranges": case.get("ranges", [])}]
        aux = impl_obs["aux"]
        reqs = [{"op": "c05.reconstruction", "A": aux["A"], "b": aux["b"], "eps": q(EPS),
                 "atol": q(1e-8), "rtol": q(1e-5),
                 "use_positive_only_solver": case["use_positive_only_solver"],
                 "positive_only_uses_p_initial": case["positive_only_uses_p_initial"],
                 "force_edge_pixels_to_zeros": case["force_edge_pixels_to_zeros"],
                 "force_edge_image_pixels_to_zeros": case["force_edge_image"],
                 "check_reconstruction": bool(case.get("check_reconstruction", True)),
                 "edge": aux["edge"], "zero": aux["zero"], "mapper_ranges": aux["ranges"]}]
        if "reconstruction" in impl_obs:
            reqs.append({"op": "c05.mapped_data", "Bs": aux["Bs"], "s": impl_obs["reconstruction"],
                         "m": len(aux["Bs"][0]) if aux["Bs"] else 0})
        return reqs

    def model_obs(self, case, responses):
        kind = case["kind"]
        if kind == "history":
            out = []
            for vc, (a, b) in zip(self._hist_virtual(case), case.get("_spans", [])):
                out.append(self.model_obs(vc, responses[a:b]) if (vc is not None and b > a) else None)
            return {"steps": out}
        r = responses[0]
        if kind == "solver":
            return r["ok"] if "ok" in r else {"err": r["err"]}
        if kind == "chol":
            if "err" in r:
                return {"err": r["err"]}
            sub = case["sub"]
            if sub == "seq":
                return {"stages": r["ok"]}
            if sub == "solve":
                return {"x": r["ok"]}
            if sub == "fnnls":
                return r["ok"]
            return {"U": r["ok"]}
        err = None
        if "err" in r:
            err = "InversionException" if r["err"] in ("singular", "degenerate", "empty", "runtime") else r["err"]
        if kind == "recon":
            return {"err": err, "why": r["err"]} if err else {"s": r["ok"]}
        if err:
            return {"err": err, "why": r["err"]}
        out = {"reconstruction": r["ok"]}
        if len(responses) > 1 and "ok" in responses[1]:
            out["mapped_dict"] = responses[1]["ok"]["dict"]
            out["mapped_total"] = responses[1]["ok"]["total"]
        return out

    def compare(self, case, impl_obs, model_obs, cmp: Cmp):
        kind = case["kind"]
        if kind == "history":
            compared = 0
            for i, (vc, so, mo) in enumerate(zip(self._hist_virtual(case), impl_obs["steps"], model_obs["steps"])):
                if vc is None or mo is None:
                    continue
                try:
                    d = self.compare(vc, so, mo, cmp)
                except Skip:
                    continue
                compared += 1
                if d:
                    return f"$.steps[{i}] ({case['steps'][i].get('label', '')}): " + d
            if not compared:
                raise Skip("no step of the history has a certified model value")
            return None
        if kind == "chol":
            if model_obs.get("err") == "irrational":
                raise Skip("a square root met by the exact model is irrational")
            if case["sub"] == "fnnls" and model_obs.get("err") == "singular":
                raise Skip("the entering order meets an irrational root (exact model reports singular)")
        ierr, merr = impl_obs.get("err"), model_obs.get("err")
        if ierr or merr:
            if ierr == merr:
                cmp.exact += 1
                return None
            return f"$.err: impl={ierr!r} model={merr!r} ({model_obs.get('why', '')})"
        if kind == "chol":
            return self._compare_chol(case, impl_obs, model_obs, cmp)
        if kind == "solver":
            A, b = fr_mat(case["A"]), fr_vec(case["b"])
            md = model_obs["d"]
            if not model_obs.get("kkt", True):
                # the model left through no_update / with a non-certified result: nothing exact to compare with
                raise Skip("model result not KKT-certified")
            return diff_vec(cmp, impl_obs["d"], md, rel_tol(A) * sol_scale(A, b, md), "$.d")
        if kind == "recon":
            A, b = fr_mat(case["A"]), fr_vec(case["b"])
            return diff_vec(cmp, impl_obs["s"], model_obs["s"], rel_tol(A) * sol_scale(A, b, model_obs["s"]), "$.s")
        aux = impl_obs["aux"]
        A, b = fr_mat(aux["A"]), fr_vec(aux["b"])
        ms = model_obs["reconstruction"]
        d = diff_vec(cmp, impl_obs["reconstruction"], ms, rel_tol(A) * sol_scale(A, b, ms), "$.reconstruction")
        if d:
            return d
        if "mapped_dict" in model_obs:
            if len(model_obs["mapped_dict"]) != len(impl_obs["mapped_dict"]):
                return "$.mapped_dict: number of linear objects differs"
            allv = [abs(F(v)) for img in model_obs["mapped_dict"] for v in img] + [F(1, 2**40)]
            tol = REL_MAP * max(allv)
            for k, (a, mo) in enumerate(zip(impl_obs["mapped_dict"], model_obs["mapped_dict"])):
                d = diff_vec(cmp, a, mo, tol, f"$.mapped_dict[{k}]")
                if d:
                    return d
            return diff_vec(cmp, impl_obs["mapped_total"], model_obs["mapped_total"], tol * len(allv),
                            "$.mapped_total")
        return None

    # ------------------------------------------------------------------ Cholesky: comparison and oracle
    @staticmethod
    def _diff_mat(cmp, Ui, Um, rel, path):
        if len(Ui) != len(Um):
            return f"{path}: impl is {len(Ui)} rows, model {len(Um)}"
        scale = max([abs(F(x)) for r in Um for x in r] + [F(1, 2**40)])
        for i, (ri, rm) in enumerate(zip(Ui, Um)):
            d = diff_vec(cmp, ri, rm, rel * scale, f"{path}[{i}]")
            if d:
                return d
        return None

    def _compare_chol(self, case, impl_obs, model_obs, cmp):
        sub = case["sub"]
        if sub == "seq":
            A = fr_mat(case["A"])
            ms = model_obs["stages"][max(0, case.get("first_k", 0) - 1):]
            if len(ms) != len(impl_obs["stages"]):
                return f"$.stages: impl has {len(impl_obs['stages'])} stages, model {len(ms)}"
            b = fr_vec(case["b"])
            for k, (si, sm) in enumerate(zip(impl_obs["stages"], ms)):
                if si["P"] != sm["P"]:
                    return f"$.stages[{k}].P: impl={si['P']} model={sm['P']}"
                P = si["P"]
                App = [[A[i][j] for j in P] for i in P]
                rel = chol_tol(App)
                if rel is None or rel > F(1, 10**5):
                    raise Skip("ill-conditioned principal submatrix")
                d = self._diff_mat(cmp, si["U"], sm["U"], rel, f"$.stages[{k}].U")
                if d:
                    return d
                d = diff_vec(cmp, si["x"], sm["x"], rel * sol_scale(App, [b[i] for i in P], sm["x"]),
                             f"$.stages[{k}].x")
                if d:
                    return d
            return None
        if sub == "solve":
            U = fr_mat(case["U"])
            n = len(U)
            G = [[sum((U[k][i] * U[k][j] for k in range(min(i, j) + 1)), F(0)) for j in range(n)] for i in range(n)]
            rel = chol_tol(G)
            if rel is None or rel > F(1, 10**5):
                raise Skip("ill-conditioned factor")
            return diff_vec(cmp, impl_obs["x"], model_obs["x"], rel * sol_scale(G, fr_vec(case["b"]), model_obs["x"]),
                            "$.x")
        if sub == "fnnls":
            A, b = fr_mat(case["A"]), fr_vec(case["b"])
            return diff_vec(cmp, impl_obs["d"], model_obs["d"], rel_tol(A) * sol_scale(A, b, model_obs["d"]), "$.d")
        if sub == "cholesky":
            rel = chol_tol(fr_mat(case["A"]))
            if rel is None or rel > F(1, 10**5):
                raise Skip("ill-conditioned matrix")
            return self._diff_mat(cmp, impl_obs["U"], model_obs["U"], rel, "$.U")
        # update / insert / delete: the same float operations in the same order up to the LAPACK substitution
        return self._diff_mat(cmp, impl_obs["U"], model_obs["U"], F(1, 10**9), "$.U")

    def _oracle_chol(self, case, obs):
        sub = case["sub"]
        if sub == "seq":
            if "err" in obs:
                return False, "the factor update raised on a positive-definite system"
            A, b = fr_mat(case["A"]), fr_vec(case["b"])
            fk = case.get("first_k", 0)
            want, P = [], []
            for t, i in enumerate(case["inserts"]):
                P = P + [int(i)]
                if not (fk and t < fk - 1):
                    want.append(list(P))
            for d in case["deletes"]:
                P = np_delete_positions(P, d)
                want.append(list(P))
            if [s["P"] for s in obs["stages"]] != want:
                return False, "the passive list kept next to the factor is not the expected one"
            for k, (s, P) in enumerate(zip(obs["stages"], want)):
                U = s["U"]
                if len(U) != len(P):
                    return False, f"stage {k}: factor is {len(U)}x{len(U)} for {len(P)} passive indices"
                e = upper_posdiag(U)
                if e:
                    return False, f"stage {k}: {e}"
                App = [[A[i][j] for j in P] for i in P]
                e = gram_matches(U, App, k, f"stage {k} (P = {P})")
                if e:
                    return False, e
                if P:
                    ok, det = self._solves(App, [b[i] for i in P], fr_vec(s["x"]))
                    if not ok:
                        return False, f"stage {k}: cho_solve through the factor: " + det
            return True, ""
        if sub == "update":
            U, x = fr_mat(case["U"]), fr_vec(case["x"])
            n = len(x)
            e = upper_posdiag(obs["U"])
            if e:
                return False, e
            G = gram_fr(U)
            M = [[G[i][j] + x[i] * x[j] for j in range(n)] for i in range(n)]
            e = gram_matches(obs["U"], M, 1, "_cholupdate: U'^T U' = U^T U + x x^T")
            return (e is None), (e or "")
        if sub == "insert":
            U, x = fr_mat(case["U"]), fr_vec(case["x"])
            n = len(U)
            G = gram_fr(U) if n else []
            # Schur complement in exact arithmetic: x[n] - |S12|^2 with U'S12 = x[:n]
            S12 = []
            for i in range(n):
                S12.append((x[i] - sum((U[k][i] * S12[k] for k in range(i)), F(0))) / U[i][i])
            t = x[n] - sum((v * v for v in S12), F(0))
            if "err" in obs:
                return (t < 0 or abs(t) < F(1, 10**9)), "cholinsertlast raised although the Schur complement is positive"
            if t <= F(1, 10**9):
                return True, ""  # negative / zero Schur complement: no factor exists, nothing to state
            e = upper_posdiag(obs["U"])
            if e:
                return False, e
            M = [[(G[i][j] if (i < n and j < n) else x[min(i, j)]) for j in range(n + 1)] for i in range(n + 1)]
            e = gram_matches(obs["U"], M, 1, "cholinsertlast: S^T S = bordered matrix")
            return (e is None), (e or "")
        if sub == "delete":
            U = fr_mat(case["U"])
            keep = np_delete_positions(list(range(len(U))), case["indexes"])
            e = upper_posdiag(obs["U"])
            if e:
                return False, e
            G = gram_fr(U)
            M = [[G[i][j] for j in keep] for i in keep]
            e = gram_matches(obs["U"], M, len(case["indexes"]), f"choldeleteindexes (kept positions {keep})")
            return (e is None), (e or "")
        if sub == "solve":
            U = fr_mat(case["U"])
            n = len(U)
            Uu = [[U[i][j] if j >= i else F(0) for j in range(n)] for i in range(n)]
            G = gram_fr(Uu)
            x, b = fr_vec(obs["x"]), fr_vec(case["b"])
            Gabs = gram_fr([[abs(v) for v in r] for r in Uu])
            gx = matvec(Gabs, [abs(v) for v in x])
            Gx = matvec(G, x)
            for i in range(n):
                slack = F(1, 10**10) * n * (gx[i] + abs(b[i]))
                if abs(Gx[i] - b[i]) > slack:
                    return False, f"cho_solve: (U'U x - b)[{i}] = {float(Gx[i]-b[i])!r} (slack {float(slack):.3e})"
            return True, ""
        if sub == "cholesky":
            if "err" in obs:
                return False, "scipy.linalg.cholesky raised on a positive-definite matrix"
            e = upper_posdiag(obs["U"])
            if e:
                return False, e
            e = gram_matches(obs["U"], fr_mat(case["A"]), len(case["A"]), "cholesky")
            return (e is None), (e or "")
        if "err" in obs:
            return False, f"fnnls_cholesky raised ({obs['err']}) on an SPD system"
        A, b = fr_mat(case["A"]), fr_vec(case["b"])
        return kkt_check(A, b, fr_vec(obs["d"]), F(EPS * len(b)))

    # ------------------------------------------------------------------ oracle
    def oracle(self, case, obs):
        kind = case["kind"]
        if kind == "big":
            if "err" in obs and "msg" in obs:
                return False, f"unexpected {obs['err']}: {obs['msg']}"
            return self._oracle_big(case, obs)
        if kind == "history":
            if "steps" not in obs:
                return False, f"the history raised {obs.get('err')}: {obs.get('msg', '')}"
            if obs.get("slots_modified"):
                return False, f"the caller's arrays {obs['slots_modified']} were modified in place by the calls"
            for i, (vc, so) in enumerate(zip(self._hist_virtual(case), obs["steps"])):
                if vc is None or "fault" in so:
                    continue  # a deliberately faulty call: its outcome is not the property's business
                label = case["steps"][i].get("label", "")
                if so.get("unexpected"):
                    return False, f"history step {i} ({label}): unexpected {so['err']}: {so.get('msg', '')}"
                if so.get("preloads_modified"):
                    return False, (f"history step {i} ({label}): the caller's preloaded arrays "
                                   f"{so['preloads_modified']} were modified in place by the inversion")
                try:
                    ok, det = self.oracle(vc, so)
                except Skip:
                    continue
                if not ok:
                    return False, f"history step {i} ({label}; expectation = a fresh object in this state): {det}"
            return True, ""
        for key in ("d", "s", "reconstruction"):  # NaN / inf in a returned solution (r4m2): judged, not crashed on
            if isinstance(obs, dict) and isinstance(obs.get(key), list):
                k = nonfinite_in(obs[key])
                if k is not None:
                    return False, f"the returned solution has a non-finite entry: s[{k}] = {obs[key][k]}"
        if kind == "chol":
            return self._oracle_chol(case, obs)
        if kind == "solver":
            if "err" in obs:
                return False, f"fnnls_cholesky raised ({obs['err']}) on an SPD system"
            A, b = fr_mat(case["A"]), fr_vec(case["b"])
            return kkt_check(A, b, fr_vec(obs["d"]), F(EPS * len(b)))
        if kind == "recon":
            A, b = fr_mat(case["A"]), fr_vec(case["b"])
            n = len(b)
            tag = case["tag"]
            if case["fn"] == "posneg":
                # "(F+H)s = D to numerical precision, or an inversion exception is raised": the statement
                # allows the exception (singular system, or the code's all-values-equal check, which also
                # fires for a mapper with a single parameter); WHEN it is raised is left to the
                # correspondence with the model.
                if "err" in obs:
                    return True, ""
                return self._solves(A, b, fr_vec(obs["s"]))
            outside = ("singular" in tag) or ("empty" in tag)  # not SPD: outside the quantifier
            if "err" in obs:
                return (True, "") if outside else (False, "InversionException on a positive-definite system")
            if outside:
                return True, ""
            s = fr_vec(obs["s"])
            if case["fn"] == "posonly":
                return kkt_check(A, b, s, F(EPS * n))
            return self._solves(A, b, s)
        return self._oracle_inversion(case, obs)

    @staticmethod
    def _solves(A, b, s):
        if len(s) != len(b):
            return False, "solution length differs from the system size"
        As = matvec(A, s)
        amax = max((abs(x) for r in A for x in r), default=F(0))
        slack = KKT_SLACK * (amax * sum(abs(x) for x in s) + max((abs(x) for x in b), default=F(0)))
        for i in range(len(b)):
            if abs(As[i] - b[i]) > slack:
                return False, f"((F+H)s - D)[{i}] = {float(As[i]-b[i])!r} (slack {float(slack):.3e})"
        return True, ""

    def _oracle_inversion(self, case, obs):
        case = self._norm(case)
        aux = obs["aux"]
        A, b = fr_mat(aux["A"]), fr_vec(aux["b"])
        n = len(b)
        params = aux["params"]
        starts = [sum(params[:i]) for i in range(len(params))]
        ids = set()
        if case["use_positive_only_solver"] and case["force_edge_pixels_to_zeros"]:
            for o, st in zip(case["objs"], starts):
                if o["type"] == "mapper":
                    ids |= {st + e for e in rect_edge(o["shape"])}
            if case["force_edge_image"]:
                ids |= set(aux["zero_expect"])
        if "err" in obs:
            if not case["use_positive_only_solver"]:
                return True, ""  # the statement allows the exception for the unconstrained solver
            if len(ids) == n:
                return True, ""  # every parameter forced to zero: the reduced system is empty (the code's
                #                  documented `len(data_vector) == 0` exception), nothing left to optimise
            return False, "InversionException on a positive-definite system"
        s = fr_vec(obs["reconstruction"])
        if len(s) != n or sum(params) != n:
            return False, "reconstruction length differs from the total number of parameters"
        if case["use_positive_only_solver"]:
            for i in sorted(ids):
                if s[i] != 0:
                    return False, f"parameter {i} is forced to zero by the settings but is {float(s[i])!r}"
            keep = [i for i in range(n) if i not in ids]
            Ar = [[A[i][j] for j in keep] for i in keep]
            br = [b[i] for i in keep]
            ok, det = kkt_check(Ar, br, [s[i] for i in keep], F(EPS * len(keep)))
            if not ok:
                return False, "reduced system: " + det
        else:
            ok, det = self._solves(A, b, s)
            if not ok:
                return False, det
        # per-object slices and mapped data
        Bs = [fr_mat(B) for B in aux["Bs"]]
        total = None
        scale = F(1, 2**40)
        imgs = []
        for k, (st, p) in enumerate(zip(starts, params)):
            sl = s[st:st + p]
            if fr_vec(obs["recon_dict"][k]) != sl:
                return False, f"reconstruction_dict entry {k} is not the slice [{st}:{st+p}] of the reconstruction"
            img = matvec(Bs[k], sl)
            imgs.append(img)
            scale = max([scale] + [abs(v) for v in img])
            total = img if total is None else [x + y for x, y in zip(total, img)]
        tol = REL_MAP * scale
        for k, img in enumerate(imgs):
            got = fr_vec(obs["mapped_dict"][k])
            if len(got) != len(img) or any(abs(x - y) > tol for x, y in zip(got, img)):
                return False, f"mapped data of linear object {k} is not its blurred mapping matrix times its slice of s"
        got = fr_vec(obs["mapped_total"])
        if len(got) != len(total) or any(abs(x - y) > tol * (len(imgs) + 1) for x, y in zip(got, total)):
            return False, "total mapped reconstructed data is not the sum over the linear objects"
        if obs.get("image_dict") != obs["mapped_dict"] or obs.get("image_total") != obs["mapped_total"]:
            return False, "mapped_reconstructed_image(_dict) differs from mapped_reconstructed_data(_dict)"
        return True, ""

    # ------------------------------------------------------------------ bookkeeping
    def nontrivial(self, case, obs):
        kind = case["kind"]
        if kind == "big":
            return True
        if kind == "history":
            return sum(1 for st in case["steps"] if not st.get("fault")) >= 2
        if "err" in obs:
            return True
        if kind == "chol":
            if case["sub"] == "seq":  # at least one deletion that is not the last position (runs _cholupdate)
                cur = len(case["inserts"])
                for d in case["deletes"]:
                    if any(int(v) != cur - 1 - k for k, v in enumerate(sorted(d, reverse=True))):
                        return True
                    cur -= len(d)
                return len(case["inserts"]) >= 2
            return len(case.get("U", case.get("A", []))) >= 2
        if kind == "solver":
            d = fr_vec(obs["d"])
            return any(x == 0 for x in d) and any(x > 0 for x in d)
        if kind == "recon":
            s = fr_vec(obs["s"])
            return case["fn"] == "posneg" or (any(x == 0 for x in s) and any(x > 0 for x in s))
        s = fr_vec(obs["reconstruction"])
        return any(x == 0 for x in s) or any(x < 0 for x in s)

    def known_finding(self, case, obs):
        """D4c: on a system whose exact optimum is degenerate (a zero entry with zero gradient) rounding
        noise in w can exceed the absolute tolerance 2.2204e-16*n and the float active-set iteration
        cycles until the 10000-iteration guard raises.  Input class: degenerate optimum (decided in exact
        arithmetic on the input); only the exception outcome belongs to the finding — a non-optimal
        *returned* solution on the same input is still reported."""
        if case.get("kind") == "history":
            # the finding belongs to the FIRST step the oracle rejects, judged as the single call it is
            if not (isinstance(obs, dict) and "steps" in obs) or obs.get("slots_modified"):
                return None
            for vc, so in zip(self._hist_virtual(case), obs["steps"]):
                if vc is None or "fault" in so:
                    continue
                if so.get("unexpected"):
                    return None
                try:
                    ok, _ = self.oracle(vc, so)
                except Exception:
                    return None
                if not ok:
                    return self.known_finding(vc, so)
            return None
        if case.get("kind") == "big":
            if case["sub"] not in ("solver", "recon") or case.get("fn") == "posneg" or case.get("rhs") == "planted":
                return None  # planted optimum: strict complementarity by construction, never degenerate
            if not (isinstance(obs, dict) and obs.get("err") in ("runtime", "InversionException")):
                return None
            A, b, _ = big_system(case["seed"], case["n"], case["k"], case["design"], case["rhs"], case["scale"])
            return "D4c" if degenerate_optimum_np(A, b) else None
        case = self._norm(case)
        if case.get("fn") == "posneg" or case.get("kind") == "chol":
            return None
        if not (isinstance(obs, dict) and obs.get("err") in ("runtime", "InversionException")):
            return None
        if case["kind"] == "inversion":
            if not case["use_positive_only_solver"] or "aux" not in obs:
                return None
            aux = obs["aux"]
            A, b = fr_mat(aux["A"]), fr_vec(aux["b"])
            ids = set()
            if case["force_edge_pixels_to_zeros"]:
                starts = [sum(aux["params"][:i]) for i in range(len(aux["params"]))]
                for o, st in zip(case["objs"], starts):
                    if o["type"] == "mapper":
                        ids |= {st + e for e in rect_edge(o["shape"])}
                ids |= set(aux.get("zero_expect", []))
            keep = [i for i in range(len(b)) if i not in ids]
            A, b = [[A[i][j] for j in keep] for i in keep], [b[i] for i in keep]
        else:
            A, b = fr_mat(case["A"]), fr_vec(case["b"])
        if not b or exact_solve(A, b) is None:
            return None
        return "D4c" if degenerate_optimum(A, b) else None

    def shrink(self, case):
        if case["kind"] == "history":
            # every step states its world absolutely, so sub-histories are histories.  Prefixes first (a failure at
            # step i depends only on the steps before it), then one inner step dropped; never below two real calls:
            # a single call cannot show a reuse defect by itself, it would only reflect what the PROCESS did before
            # (module-level state left by earlier cases), and the stored replay would not reproduce.
            steps = case["steps"]
            real = lambda ss: sum(1 for t in ss if not t.get("fault"))
            cands = [steps[:i] for i in range(2, len(steps))] + \
                    [steps[:i] + steps[i + 1:] for i in range(len(steps) - 1)]
            for ss in cands:
                if real(ss) >= 2:
                    c = {k: v for k, v in case.items() if not k.startswith("_")}
                    c["steps"] = ss
                    yield c
            return
        if case["kind"] == "big":  # smaller sizes of the same descriptor
            if case["sub"] in ("solver", "recon") and case["n"] > 8:
                for f in (2, 4):
                    c = dict(case)
                    c["n"], c["k"] = max(2, case["n"] * (f - 1) // f), max(1, case["k"] * (f - 1) // f)
                    yield c
            return
        if case["kind"] not in ("solver", "recon") or case.get("fn") == "posneg":
            return
        A, b = case["A"], case["b"]
        n = len(b)
        if n <= 1:
            return
        for i in range(n):
            keep = [k for k in range(n) if k != i]
            c = dict(case)
            c["A"] = [[A[r][k] for k in keep] for r in keep]
            c["b"] = [b[k] for k in keep]
            if case["kind"] == "solver" and case["p_init"] is not None:
                p = case["p_init"]
                if p["kind"] == "mask":
                    c["p_init"] = {"kind": "mask", "mask": [p["mask"][k] for k in keep]}
                else:
                    idx = [(j if j < i else j - 1) for j in p["idx"] if j != i]
                    if not idx:
                        continue
                    c["p_init"] = {"kind": "idx", "idx": idx}
            yield c

    def sample_view(self, case):
        # large cases are descriptors (seed + sizes): nothing big to dump; histories carry their worlds in full so
        # that a replay can re-run them
        return {k: v for k, v in case.items() if not k.startswith("_")}

    def theorems_for(self, case):
        kind = case["kind"]
        if kind == "history":
            return sorted({t for vc in self._hist_virtual(case) if vc is not None for t in self.theorems_for(vc)})
        if kind == "big":
            return {"chol": ["C05.chol_carried_factor_exact", "C05.chol_deleteindexes_exact"],
                    "inversion": ["C05.e_mapped_data_sum", "C05.b_fnnls_main_exit_kkt"]}.get(
                case["sub"], ["C05.b_fnnls_main_exit_kkt", "C05.a_minimiser_unique"])
        if kind == "chol":
            return {"seq": ["C05.chol_insertlast_passive_list", "C05.chol_deleteindexes_exact",
                            "C05.chol_cho_solve_factor", "C05.chol_carried_factor_exact"],
                    "update": ["C05.chol_update_rank_one"], "insert": ["C05.chol_insertlast_exact"],
                    "delete": ["C05.chol_deleteindexes_exact", "C05.chol_update_rank_one"],
                    "solve": ["C05.chol_cho_solve_solves"], "cholesky": ["C05.chol_solver_complete_pd"],
                    "fnnls": ["C05.chol_fnnls_main_exit_kkt", "C05.chol_terminates_exact"]}[case["sub"]]
        if kind == "solver":
            return ["C05.b_fnnls_main_exit_kkt", "C05.a_kkt_is_global_minimum", "C05.a_minimiser_unique"]
        if kind == "recon":
            return ["C05.c_unconstrained_solves", "C05.b_fnnls_main_exit_kkt"]
        return ["C05.d_forced_zeros", "C05.e_mapped_data_sum", "C05.b_fnnls_main_exit_kkt"]


CHECK = C05()
