"""C06 — mapping matrices conserve flux and encode the claimed interpolation.

Case kinds
  rect        mask x per-pixel sub-size map x source-plane grid x rectangular mesh shape, through
              aa.mesh.Rectangular(...).mapper_grids_from + aa.Mapper
  delaunay    mask x sub-size map x source-plane grid x Delaunay vertex set, through aa.mesh.Delaunay
  tables      mapper_util.mapping_matrix_from / data_slim_to_pixelization_unique_from on raw tables
  nbr         mesh_util.rectangular_neighbors_from / Mesh2DRectangular.neighbors for a shape
  bary        mapper_util.pixel_weights_delaunay_from / pix_indexes_for_sub_slim_index_delaunay_from on
              hand-made simplex tables (all vertex orders, argmin ties)

Round 5/6 streams (same kinds, extra fields; tags dec_* / lay_* / opt_* / fam_* / own_* / cfg_*, see
design_notes/C06.md): worlds scaled by 2^k and moved far from zero, near-ties inside allclose/isclose defaults,
other memory layouts / containers of every array argument, pairwise option crossings, same-key families,
ownership histories (scribble over everything returned / accepted, rebuild from fresh inputs, three rounds) and
configuration histories.

Qhull (scipy.spatial.Delaunay) is not modelled: `simplices`, `find_simplex`, `vertex_neighbor_vertices`
are read from the implementation, handed to the model, and their contract is checked by the oracle with
exact rational orientation predicates on every case.
"""
from __future__ import annotations

import base64
import itertools
import math
import zlib
from fractions import Fraction as F

import numpy as np

import gen
from common import Cmp, PropertyCheck, Skip, load_autoarray, mask_json, q, qlist, qmat

BUFFER = F(1e-8)  # the double the code uses as default `buffer`
SLACK = F(1, 10**9)  # containment slack (relative to the cell / triangle) for the oracle
TOL = F(1, 10**9)  # tolerance on real outputs
BAND = F(1, 10**11)  # |pixel coordinate - integer| below which a float cell decision is not compared


# ------------------------------------------------------------------------------------------------
# exact helpers
# ------------------------------------------------------------------------------------------------
def fr(x):
    return F(x)


def orient(a, b, c):
    return (b[0] - a[0]) * (c[1] - a[1]) - (b[1] - a[1]) * (c[0] - a[0])


def bary(v0, v1, v2, p):
    d = orient(v0, v1, v2)
    return [orient(p, v1, v2) / d, orient(v0, p, v2) / d, orient(v0, v1, p) / d]


def in_circle(a, b, c, d):
    """> 0 iff d strictly inside the circumcircle of the counter-clockwise triangle abc."""
    rows = []
    for p in (a, b, c):
        dx, dy = p[0] - d[0], p[1] - d[1]
        rows.append((dx, dy, dx * dx + dy * dy))
    (a1, a2, a3), (b1, b2, b3), (c1, c2, c3) = rows
    return a1 * (b2 * c3 - b3 * c2) - a2 * (b1 * c3 - b3 * c1) + a3 * (b1 * c2 - b2 * c1)


def convex_hull(pts):
    """indices of the hull vertices, counter-clockwise (Andrew monotone chain, exact)."""
    idx = sorted(range(len(pts)), key=lambda i: (pts[i][0], pts[i][1]))
    lower, upper = [], []
    for i in idx:
        while len(lower) >= 2 and orient(pts[lower[-2]], pts[lower[-1]], pts[i]) <= 0:
            lower.pop()
        lower.append(i)
    for i in reversed(idx):
        while len(upper) >= 2 and orient(pts[upper[-2]], pts[upper[-1]], pts[i]) <= 0:
            upper.pop()
        upper.append(i)
    return lower[:-1] + upper[:-1]


def int_points(pts):
    """the same point set scaled by the common denominator: integer coordinates (orientation / in-circle signs and
    ratios of areas are unchanged; integer arithmetic is ~10x faster than Fractions)"""
    d = 1
    for p in pts:
        for v in p:
            d = d * v.denominator // math.gcd(d, v.denominator)
    return [(int(p[0] * d), int(p[1] * d)) for p in pts]


def general_position(pts):
    n = len(pts)
    if len(set(pts)) < n:
        return False
    pts = int_points([(F(a), F(b)) for a, b in pts])
    for a, b, c in itertools.combinations(range(n), 3):
        if orient(pts[a], pts[b], pts[c]) == 0:
            return False
    for a, b, c, d in itertools.combinations(range(n), 4):
        pa, pb, pc = pts[a], pts[b], pts[c]
        if orient(pa, pb, pc) < 0:
            pb, pc = pc, pb
        if in_circle(pa, pb, pc, pts[d]) == 0:
            return False
    return True


def rnd(x, bits=16):
    """round a Fraction to a dyadic with `bits` fractional bits (an exact double)."""
    d = 1 << bits
    return F(round(x * d), d)


def blocks(subs):
    out, k = [], 0
    for s in subs:
        out.append((k, k + s * s))
        k += s * s
    return out


# ------------------------------------------------------------------------------------------------
# round 4: size-directed cases (kind "large") -- recipe expansion, array transport, vectorised helpers
# ------------------------------------------------------------------------------------------------
def _enc(a):
    """numpy array -> compact JSON-able exact transport (large observations never travel as "p/q" lists)."""
    a = np.ascontiguousarray(np.asarray(a))
    return {"z": base64.b64encode(zlib.compress(a.tobytes(), 1)).decode("ascii"), "dtype": a.dtype.str,
            "shape": list(a.shape)}


def _dec(e):
    return np.frombuffer(zlib.decompress(base64.b64decode(e["z"])), dtype=np.dtype(e["dtype"])).reshape(e["shape"])


def _factor_shape(t, lo=3):
    """a non-square (h, w), h <= w, both >= lo, with h*w == t and h as large as possible; None if t has none."""
    for d in range(math.isqrt(t), lo - 1, -1):
        if t % d == 0 and t // d >= lo:
            if d == t // d and d > lo:  # square: prefer the next divisor pair if one exists
                for d2 in range(d - 1, lo - 1, -1):
                    if t % d2 == 0:
                        return d2, t // d2
            return d, t // d
    return None


def _subs_for_total(rs, total, mode):
    """per-pixel sub-sizes in 1..4 with sum of squares == total exactly (odd sizes well represented)."""
    pool = {"mixed": [1, 2, 3, 3, 4], "three": [3, 3, 3, 3, 3, 2, 4, 1], "odd": [1, 3, 3]}[mode]
    out, rem = [], total
    draw = rs.choice(pool, size=max(8, total // 2 + 8))
    k = 0
    while rem >= 16:
        s = int(draw[k]); k += 1
        out.append(s)
        rem -= s * s
    tail = []
    for s in (3, 2, 1):
        while rem >= s * s:
            tail.append(s)
            rem -= s * s
    out = np.array(out + tail, dtype=np.int64)
    # the fix-up pixels go to random places, one of them first (so blocks are misaligned from the start)
    if len(out) > 1:
        rs.shuffle(out)
    return out


def _subs_for_count(rs, n, mode):
    if mode == "ones_sprinkle":
        s = np.ones(n, dtype=np.int64)
        k = max(1, n // 6)
        s[rs.integers(0, n, size=k)] = rs.integers(2, 5, size=k)
        return s
    if mode.startswith("uniform"):
        return np.full(n, int(mode[-1]), dtype=np.int64)
    pool = {"mixed": [1, 2, 3, 3, 4], "three": [3, 3, 3, 3, 3, 2, 4, 1], "odd": [1, 3, 3]}[mode]
    return rs.choice(pool, size=n).astype(np.int64)


def _large_mask(rs, H, W, n):
    """H x W mask (True = masked) with exactly n unmasked pixels: an off-centre elliptical blob with a hole,
    ragged rim; touches the frame edge when n is a large fraction of the frame."""
    if n >= H * W:
        return np.zeros((H, W), dtype=bool)
    yy, xx = np.mgrid[0:H, 0:W]
    cy, cx = (H - 1) * (0.35 + 0.3 * rs.random()), (W - 1) * (0.35 + 0.3 * rs.random())
    score = ((yy - cy) / max(H, 1)) ** 2 + ((xx - cx) / max(W, 1)) ** 2 + 0.02 * rs.random((H, W))
    if n + 4 <= H * W and H >= 4 and W >= 4:
        score[(np.abs(yy - round(cy)) <= 0) & (np.abs(xx - round(cx)) <= 1)] = 9.0  # hole at the centre
    order = np.argsort(score, axis=None, kind="stable")
    m = np.ones(H * W, dtype=bool)
    m[order[:n]] = False
    return m.reshape(H, W)


def _frame_for(rs, n, slack=1.35):
    """a non-square frame with at least n pixels (about slack*n)."""
    tot = max(n, int(n * slack) + 1)
    asp = [0.45, 0.7, 1.6, 2.3][int(rs.integers(0, 4))]
    H = max(1, int(round(math.sqrt(tot * asp))))
    W = -(-tot // H)
    if H == W:
        W += 1
    return H, W


def _expand_large(case):
    """recipe -> concrete inputs (deterministic): mask, sub-sizes, source-plane grid, mesh (shape or vertices)."""
    rs = np.random.default_rng([int(case["seed"]), 0xC06])
    out = {}
    if case["mesher"] == "tables":
        n, P, kmax = case["n_unmasked"], case["pixels"], case["kmax"]
        subs = _subs_for_total(rs, case["n_sub"], case["sub_mode"])
        nsub = int((subs ** 2).sum())
        sizes = rs.integers(0 if case.get("allow_zero") else 1, kmax + 1, size=nsub)
        idx = rs.integers(0, P, size=(nsub, kmax))
        idx[np.arange(kmax)[None, :] >= sizes[:, None]] = -1
        wts = rs.integers(-32 if case.get("signed") else 0, 33, size=(nsub, kmax)) / 8.0
        wts[np.arange(kmax)[None, :] >= sizes[:, None]] = 0.0
        return {"subs": subs, "idx": idx.astype(np.int64), "sizes": sizes.astype(np.int64), "wts": wts, "pixels": P}
    H, W = case["frame"]
    if case.get("n_sub"):
        subs = _subs_for_total(rs, case["n_sub"], case["sub_mode"])
        n = len(subs)
    else:
        n = case["n_unmasked"]
        subs = _subs_for_count(rs, n, case["sub_mode"])
    m = _large_mask(rs, H, W, n)
    sy, sx = case["scales"]
    oy, ox = case["origin"]
    ys, xs = np.nonzero(~m)
    rep = subs * subs
    nsub = int(rep.sum())
    pix = np.repeat(np.arange(n), rep)
    start = np.concatenate([[0], np.cumsum(rep)[:-1]])
    j = np.arange(nsub) - np.repeat(start, rep)
    sj = subs[pix]
    y1, x1 = j // sj, j % sj
    py = oy + ((H - 1) / 2 - ys[pix]) * sy + sy / 2 - (2 * y1 + 1) / 2 * sy / sj
    px = ox + (xs[pix] - (W - 1) / 2) * sx - sx / 2 + (2 * x1 + 1) / 2 * sx / sj
    # normalise to O(1), then affine + quadratic distortion + jitter, off-origin
    u = (py - oy) / (max(H, 2) * sy / 2)
    v = (px - ox) / (max(W, 2) * sx / 2)
    a = [1.3, -0.35, 0.25, 0.8] if case["seed"] % 2 else [-0.6, 1.1, 0.9, 0.45]
    c = rs.integers(-4, 5, size=6) / 32.0
    jit = 2.0 ** -11 if case.get("style") != "clump" else 0.0
    gy = a[0] * u + a[1] * v + c[0] * u * u + c[1] * u * v + c[2] * v * v + jit * rs.standard_normal(nsub) + 1.75
    gx = a[2] * u + a[3] * v + c[3] * u * u + c[4] * u * v + c[5] * v * v + jit * rs.standard_normal(nsub) - 0.625
    if case.get("style") == "clump" and nsub > 4:
        # almost every point in one place (one cell / one triangle gets ~nsub entries), four far corners
        gy[:] = 1.75 + 0.03125
        gx[:] = -0.625 - 0.0625
        k = rs.choice(nsub, size=4, replace=False)
        gy[k] = 1.75 + np.array([-2.0, -2.0, 2.0, 2.0])
        gx[k] = -0.625 + np.array([-1.5, 1.5, -1.5, 1.5])
    corners = case.get("style") == "corners" and nsub >= 12
    if corners:
        # the four corners of the bounding box are data points: the first / last row and column of a rectangular
        # mesh (cell indices 0, W-1, P-W, P-1) are certainly hit
        k = rs.choice(nsub, size=4, replace=False)
        lo_, hi_ = [gy.min(), gx.min()], [gy.max(), gx.max()]
        gy[k] = [lo_[0], lo_[0], hi_[0], hi_[0]]
        gx[k] = [lo_[1], hi_[1], lo_[1], hi_[1]]
    grid = np.stack([gy, gx], axis=1)
    out.update({"mask": m, "subs": subs, "grid": grid})
    if case["mesher"] == "rect":
        out["shape"] = tuple(case["mesh"])
    else:
        P = int(case["mesh"])
        lo, hi = grid.min(axis=0), grid.max(axis=0)
        mid, half = (lo + hi) / 2, (hi - lo) / 2 * 0.86 + 1e-3  # hull inside the data: some sub-pixels outside
        rows = max(2, int(round(math.sqrt(P * 0.6))))
        cols = -(-P // rows)
        ly, lx = np.divmod(np.arange(rows * cols), cols)
        keep = np.sort(rs.permutation(rows * cols)[:P]) if rows * cols > P else np.arange(P)
        ly, lx = ly[keep], lx[keep]
        jy = (rs.random(P) - 0.5) * 0.62
        jx = (rs.random(P) - 0.5) * 0.62
        pts = np.stack([mid[0] - half[0] + (ly + 0.5 + jy) * (2 * half[0] / rows),
                        mid[1] - half[1] + (lx + 0.5 + jx) * (2 * half[1] / cols)], axis=1)
        if corners and P >= 3:
            # data points exactly on the last, the first and a middle vertex, and on the last edge's midpoint
            free = np.setdiff1d(np.arange(nsub), k)
            kk = rs.choice(free, size=4, replace=False)
            grid[kk[0]], grid[kk[1]], grid[kk[2]] = pts[P - 1], pts[0], pts[P // 2]
            grid[kk[3]] = (pts[P - 1] + pts[P - 2]) / 2
        out["points"] = pts
    return out


def _orient_np(a, b, c):
    return (b[..., 0] - a[..., 0]) * (c[..., 1] - a[..., 1]) - (b[..., 1] - a[..., 1]) * (c[..., 0] - a[..., 0])


def _hull_np(pts):
    """indices of the convex hull, counter-clockwise (monotone chain on doubles)."""
    idx = np.lexsort((pts[:, 1], pts[:, 0]))
    P = pts.tolist()

    def half(seq):
        st = []
        for i in seq:
            while len(st) >= 2:
                a, b, c = P[st[-2]], P[st[-1]], P[i]
                if (b[0] - a[0]) * (c[1] - a[1]) - (b[1] - a[1]) * (c[0] - a[0]) <= 0:
                    st.pop()
                else:
                    break
            st.append(int(i))
        return st

    lower, upper = half(idx), half(idx[::-1])
    return np.array(lower[:-1] + upper[:-1], dtype=np.int64)


def _first(mask_bad):
    return int(np.flatnonzero(mask_bad)[0])


class _Retry(Exception):
    """history generator: the pinned ingredients could not be combined (draw again)"""


# ------------------------------------------------------------------------------------------------
# round 5/6: layouts / containers (R5-C), configuration values (R5-D), float-aware bands (R5-A / R5-E)
# ------------------------------------------------------------------------------------------------
EPS = F(1, 1 << 52)  # double-precision machine epsilon


def _lay(a, var, fill=None):
    """the same values in another memory layout / container (R5-C); `a` is a fresh ndarray (1-D or 2-D)"""
    if var in (None, "C", "plain"):
        return a
    a = np.asarray(a)
    if var == "F":
        return np.asfortranarray(a)
    if var == "T":  # a transposed view of a C-ordered buffer of the transposed shape
        return np.ascontiguousarray(a.T).T
    if var == "strided":  # every other row (and the inner columns) of a larger buffer filled with junk
        if fill is None:
            fill = True if a.dtype == bool else (np.nan if a.dtype.kind == "f" else -99)
        if a.ndim == 1:
            big = np.full(2 * len(a) + 1, fill, dtype=a.dtype)
            big[1::2] = a
            return big[1::2]
        big = np.full((2 * a.shape[0] + 1, a.shape[1] + 2), fill, dtype=a.dtype)
        big[1::2, 1:-1] = a
        return big[1::2, 1:-1]
    if var == "revview":  # negative strides
        return a[::-1].copy()[::-1]
    if var == "readonly":
        b = a.copy()
        b.flags.writeable = False
        return b
    if var == "list":
        return a.tolist()
    if var == "tuple_rows":
        return [tuple(r) for r in a.tolist()]
    if var == "f32":
        b = a.astype(np.float32)
        assert np.array_equal(b.astype(float), a), "float32 variant of a value that float32 cannot hold"
        return b
    if var == "i32":
        return a.astype(np.int32)
    raise KeyError(var)


# every configuration value that code reachable from the C06 entry points (mask / array / grid structures,
# over-sampler, meshes, mappers, the profiling decorator) reads through `conf.instance[...]` at call time
CONFIG_KEYS = {
    "repeats": ("general", "profiling", "repeats"),
    "native_only": ("general", "structures", "native_binned_only"),
    "flip_ds9": ("general", "fits", "flip_for_ds9"),
    "nn_max": ("general", "pixelization", "voronoi_nn_max_interpolation_neighbors"),
    "remove_centre": ("general", "grid", "remove_projected_centre"),
}
CONFIG_FLIPS = {"repeats": [2, 3], "native_only": [True], "flip_ds9": [True], "nn_max": [1], "remove_centre": [True]}


def _conf_section(name):
    from autoconf import conf

    f, s, k = CONFIG_KEYS[name]
    return conf.instance[f][s], k


class _ConfigGuard:
    """remembers the first value of every configuration key that is changed and puts it back on exit (also on
    exceptions)"""

    def __init__(self):
        self.old = {}

    def set(self, name, value):
        try:  # (a key that a later version of the library no longer has is simply not flipped)
            sec, k = _conf_section(name)
            if name not in self.old:
                self.old[name] = sec[k]
            sec[k] = value
            return True
        except Exception:
            return False

    def __enter__(self):
        return self

    def __exit__(self, *a):
        for name, v in self.old.items():
            try:
                sec, k = _conf_section(name)
                sec[k] = v
            except Exception:
                pass
        return False


def mask_from_bits(mj):
    return [[mj["bits"][y * mj["w"] + x] == "1" for x in range(mj["w"])] for y in range(mj["h"])]


# ------------------------------------------------------------------------------------------------
class C06(PropertyCheck):
    pid = "C06"
    title = "mapping matrices"
    rtol = TOL
    atol = TOL
    nontrivial_rule = (
        "mapper cases: >= 2 unmasked pixels or a sub-size > 1, and at least two distinct source pixels hit; "
        "table cases: at least one repeated source pixel inside a data pixel; neighbour cases: every shape "
        "is non-trivial; distinct = distinct case dict"
    )
    exhaustive_note = {
        "quick": "rectangular_neighbors_from / Mesh2DRectangular.neighbors for every mesh shape 3..9 x 3..9 "
                 "(everything else is structured random generation)",
        "thorough": "rectangular_neighbors_from / Mesh2DRectangular.neighbors for every mesh shape 3..16 x 3..16 "
                    "(everything else is structured random generation)",
    }
    # loop ties (DESIGN §12): regenerated from the source on every run, tie theorems proved for all sizes
    loop_tie_modules = ["LoopsMapper", "LoopsDelaunay", "LoopsMapper2"]
    modelled_functions = [
        "autoarray/inversion/pixelization/mappers/mapper_util.py:mapping_matrix_from",
        "autoarray/inversion/pixelization/mappers/mapper_util.py:data_slim_to_pixelization_unique_from",
        "autoarray/inversion/pixelization/mappers/mapper_util.py:pix_indexes_for_sub_slim_index_delaunay_from",
        "autoarray/inversion/pixelization/mappers/mapper_util.py:pixel_weights_delaunay_from",
        "autoarray/inversion/pixelization/mappers/abstract.py:AbstractMapper.mapping_matrix",
        "autoarray/inversion/pixelization/mappers/abstract.py:AbstractMapper.unique_mappings",
        "autoarray/inversion/pixelization/mappers/abstract.py:AbstractMapper.neighbors",
        "autoarray/inversion/pixelization/mappers/abstract.py:AbstractMapper.pix_indexes_for_sub_slim_index",
        "autoarray/inversion/pixelization/mappers/abstract.py:AbstractMapper.pix_sizes_for_sub_slim_index",
        "autoarray/inversion/pixelization/mappers/abstract.py:AbstractMapper.pix_weights_for_sub_slim_index",
        "autoarray/inversion/pixelization/mappers/abstract.py:AbstractMapper.slim_index_for_sub_slim_index",
        "autoarray/inversion/pixelization/mappers/abstract.py:PixSubWeights.__init__",
        "autoarray/inversion/pixelization/mappers/rectangular.py:MapperRectangular.pix_sub_weights",
        "autoarray/inversion/pixelization/mappers/delaunay.py:MapperDelaunay.pix_sub_weights",
        "autoarray/inversion/pixelization/mappers/delaunay.py:MapperDelaunay.delaunay",
        "autoarray/inversion/pixelization/mappers/factory.py:mapper_from",
        "autoarray/inversion/pixelization/mappers/mapper_grids.py:MapperGrids.__init__",
        "autoarray/inversion/pixelization/mesh/mesh_util.py:rectangular_neighbors_from",
        "autoarray/inversion/pixelization/mesh/mesh_util.py:rectangular_corner_neighbors",
        "autoarray/inversion/pixelization/mesh/mesh_util.py:rectangular_top_edge_neighbors",
        "autoarray/inversion/pixelization/mesh/mesh_util.py:rectangular_left_edge_neighbors",
        "autoarray/inversion/pixelization/mesh/mesh_util.py:rectangular_right_edge_neighbors",
        "autoarray/inversion/pixelization/mesh/mesh_util.py:rectangular_bottom_edge_neighbors",
        "autoarray/inversion/pixelization/mesh/mesh_util.py:rectangular_central_neighbors",
        "autoarray/inversion/pixelization/mesh/mesh_util.py:delaunay_triangle_area_from",
        "autoarray/inversion/pixelization/mesh/rectangular.py:Rectangular.__init__",
        "autoarray/inversion/pixelization/mesh/rectangular.py:Rectangular.mapper_grids_from",
        "autoarray/inversion/pixelization/mesh/rectangular.py:Rectangular.mesh_grid_from",
        "autoarray/inversion/pixelization/mesh/triangulation.py:Triangulation.mapper_grids_from",
        "autoarray/inversion/pixelization/mesh/delaunay.py:Delaunay.mesh_grid_from",
        "autoarray/inversion/pixelization/mesh/abstract.py:AbstractMesh.relocated_grid_from",
        "autoarray/inversion/pixelization/mesh/abstract.py:AbstractMesh.relocated_mesh_grid_from",
        "autoarray/structures/mesh/rectangular_2d.py:Mesh2DRectangular.__init__",
        "autoarray/structures/mesh/rectangular_2d.py:Mesh2DRectangular.overlay_grid",
        "autoarray/structures/mesh/rectangular_2d.py:Mesh2DRectangular.neighbors",
        "autoarray/structures/mesh/rectangular_2d.py:Mesh2DRectangular.pixels",
        "autoarray/structures/mesh/delaunay_2d.py:Mesh2DDelaunay.neighbors",
        "autoarray/structures/mesh/triangulation_2d.py:Abstract2DMeshTriangulation.__init__",
        "autoarray/structures/mesh/triangulation_2d.py:Abstract2DMeshTriangulation.delaunay",
        "autoarray/structures/mesh/triangulation_2d.py:Abstract2DMeshTriangulation.pixels",
        "autoarray/inversion/linear_obj/unique_mappings.py:UniqueMappings.__init__",
        "autoarray/inversion/linear_obj/neighbors.py:Neighbors.__new__",
        "autoarray/geometry/geometry_util.py:central_pixel_coordinates_2d_from",
        "autoarray/geometry/geometry_util.py:central_scaled_coordinate_2d_from",
        "autoarray/geometry/geometry_util.py:grid_pixel_centres_2d_slim_from",
        "autoarray/geometry/geometry_util.py:grid_pixel_indexes_2d_slim_from",
        "autoarray/structures/grids/grid_2d_util.py:grid_2d_slim_via_shape_native_from",
        "autoarray/operators/over_sampling/over_sample_util.py:slim_index_for_sub_slim_index_via_mask_2d_from",
        "autoarray/operators/over_sampling/over_sample_util.py:total_sub_pixels_2d_from",
        "autoarray/operators/over_sampling/uniform.py:OverSamplerUniform.__init__",
        "autoarray/operators/over_sampling/uniform.py:OverSamplerUniform.sub_length",
        "autoarray/operators/over_sampling/uniform.py:OverSamplerUniform.sub_fraction",
        "autoarray/operators/over_sampling/uniform.py:OverSamplerUniform.slim_for_sub_slim",
    ]
    trusted_extra = [
        "Qhull via scipy.spatial.Delaunay (simplices, find_simplex, vertex_neighbor_vertices): modelled, not "
        "verified; contract (non-degenerate Delaunay simplices, located point in its simplex, unlocated point "
        "outside the hull, CSR neighbours = simplex edges) checked exactly on every Delaunay case",
        "IEEE rounding of the area ratios / cell coordinates: theorems are over exact ordered fields; real "
        "outputs compared at 1e-9, cell decisions within 1e-11 of a cell boundary are not compared",
    ]
    assumptions = [
        "Delaunay vertex sets in general position (no 3 collinear, no 4 cocircular)",
        "rectangular meshes produced by overlay_grid on the same grid, shape >= 3x3",
        "Voronoi natural-neighbour weights out of scope (C library absent)",
    ]

    # ============================================================== generation
    def generate(self, tier, rng):
        quick = tier == "quick"
        # 1. rectangular neighbour tables, exhaustive over shapes
        top = 9 if quick else 16
        for h in range(3, top + 1):
            for w in range(3, top + 1):
                yield {"tag": "nbr_exhaustive", "kind": "nbr", "h": h, "w": w}
        # 2. barycentric weights / nearest vertex on hand-made tables
        for _ in range(60 if quick else 600):
            yield from self._bary_cases(rng)
        # 3. raw tables through the util functions
        for _ in range(400 if quick else 4000):
            yield self._table_case(rng)
        # 4. mappers
        n = 700 if quick else 7000
        for i in range(n):
            yield self._rect_case(rng, i)
        for i in range(n):
            yield self._delaunay_case(rng, i)
        # 5. mid-size cases judged by the vectorised oracle alone (round 4; see design_notes/C06.md)
        yield from self._mid_cases(rng, quick)
        # 6. reuse histories on real objects (round 4)
        yield from self._history_cases(tier, rng)
        # 7. round 5/6: decades / near-ties (R5-A, R5-E), layouts and containers (R5-C), option crossings (R5-F),
        #    same-key families for the runner's order-of-evaluation stream, ownership histories (R5-B),
        #    configuration histories (R5-D)
        yield from self._r56_cases(tier, rng)

    # ---- ingredients
    def _mask_subs(self, rng, max_sub_total=48):
        while True:
            h, w = rng.randint(1, 4), rng.randint(1, 4)
            m, kind = gen.random_mask(rng, h, w)
            n = sum(1 for r in m for b in r if not b)
            mode = rng.random()
            if mode < 0.2:
                s = rng.randint(1, 4)
                subs = [s] * n
            else:
                subs = [rng.randint(1, 4) for _ in range(n)]
            tot = sum(s * s for s in subs)
            if tot <= max_sub_total and (tot >= 3 or rng.random() < 0.1):
                return m, kind, subs

    def _image_grid(self, rng, m, subs):
        """my own over-sampled image-plane positions (only used as a smooth starting point)."""
        h, w = len(m), len(m[0])
        sy, sx = gen.scales_pair(rng)
        oy, ox = gen.origin_pair(rng)
        pts = []
        k = 0
        for y in range(h):
            for x in range(w):
                if m[y][x]:
                    continue
                s = subs[k]
                k += 1
                yc = oy + (F(h - 1, 2) - y) * sy
                xc = ox + (x - F(w - 1, 2)) * sx
                for y1 in range(s):
                    for x1 in range(s):
                        pts.append((yc + sy / 2 - (F(2 * y1 + 1, 2)) * sy / s,
                                    xc - sx / 2 + (F(2 * x1 + 1, 2)) * sx / s))
        return pts

    def _distort(self, rng, pts):
        """affine + quadratic distortion + jitter, rounded to dyadics (exact doubles)."""
        while True:
            a = [gen.dyadic(rng, -2, 2, 2) for _ in range(4)]
            if a[0] * a[3] - a[1] * a[2] != 0:
                break
        t = (gen.dyadic(rng, -3, 3, 2), gen.dyadic(rng, -3, 3, 2))
        c = [gen.dyadic(rng, -1, 1, 4) * F(1, 4) for _ in range(6)]
        jit = rng.choice([0, 0, 3, 5])
        out = []
        for (y, x) in pts:
            yy = a[0] * y + a[1] * x + t[0] + c[0] * y * y + c[1] * x * y + c[2] * x * x
            xx = a[2] * y + a[3] * x + t[1] + c[3] * y * y + c[4] * x * y + c[5] * x * x
            if jit:
                yy += gen.dyadic(rng, -1, 1, jit) * F(1, 4)
                xx += gen.dyadic(rng, -1, 1, jit) * F(1, 4)
            out.append((rnd(yy), rnd(xx)))
        return out

    def _plumbing(self, rng, int_ok):
        """round-3 hardening axes: dtype / container of every array argument, alternative constructors,
        set-but-falsy optionals.  The exact model ignores all of them: results must be the same reals."""
        dt = "float"
        if int_ok and rng.random() < 0.9:
            # (tuples of tuples are not an accepted coordinate container of Grid2DIrregular / Mesh2DDelaunay)
            dt = rng.choice(["int_array", "int_list"])
        return {"dtype": dt,
                "grid_container": rng.choice(["irregular", "irregular", "ndarray"]),
                "route": rng.choice(["mesh", "mesh", "direct"]),
                "shape_container": rng.choice(["tuple", "tuple", "list"]),
                "over": rng.choice(["sampler", "sampler", "sampling"]),
                "run_time_dict": rng.choice(["none", "none", "empty"])}

    def _rect_case(self, rng, i, force=None):
        force = force or {}   # history stream only: pinned ingredients (never changes the ordinary stream)
        m, kind, subs = force["ms"] if "ms" in force else self._mask_subs(rng)
        n = sum(s * s for s in subs)
        h, w = rng.randint(3, 6), rng.randint(3, 6)
        if "hw" in force:
            h, w = force["hw"]
        style = rng.choice(["distort", "distort", "distort", "hug", "hug", "lattice", "line", "clump"])
        style = force.get("style", style)
        want_int = rng.random() < 0.22 and style != "hug" and not force.get("no_int")
        if want_int:
            # integer points sit exactly on the middle boundary of an even mesh far too often: odd sides
            h, w = rng.choice([3, 5]), rng.choice([3, 5])
        if style == "distort" or n < 3:
            style = "distort"
            pts = self._distort(rng, self._image_grid(rng, m, subs))
        elif style == "hug":
            # pin the extent with two corners, put the rest next to cell boundaries at (1 +- 2^-20)
            a, b = gen.pos_dyadic(rng, 1, 3, 2), gen.pos_dyadic(rng, 1, 3, 2)
            y0, x0 = gen.dyadic(rng, -4, 4, 2), gen.dyadic(rng, -4, 4, 2)
            pts = [(y0, x0), (y0 + h * a, x0 + w * b)]
            eps = F(1, 1 << 20)
            while len(pts) < n:
                ky, kx = rng.randint(0, h), rng.randint(0, w)
                # offset 0 = exactly a lattice point, 1e-8/scale away from the boundary (the overlay buffer)
                # except on the middle boundary of an even mesh, where it is exactly on it: avoided
                dy = rng.choice([-1, 1, 0 if 2 * ky != h else 1]) * eps * a * rng.choice([1, 1, 2, 64])
                dx = rng.choice([-1, 1, 0 if 2 * kx != w else -1]) * eps * b * rng.choice([1, 1, 2, 64])
                if rng.random() < 0.3:
                    dy = gen.dyadic(rng, 0, 1, 4) * a
                if rng.random() < 0.3:
                    dx = gen.dyadic(rng, 0, 1, 4) * b
                y, x = y0 + ky * a + dy, x0 + kx * b + dx
                y = min(max(y, y0), y0 + h * a)
                x = min(max(x, x0), x0 + w * b)
                if h % 2 == 0 and y == y0 + (h // 2) * a:
                    y += eps * a
                if w % 2 == 0 and x == x0 + (w // 2) * b:
                    x -= eps * b
                pts.append((y, x))
            head, tail = pts[:2], pts[2:]
            rng.shuffle(tail)
            pos = sorted(rng.sample(range(n), 2))
            tail.insert(pos[0], head[0])
            tail.insert(pos[1], head[1])
            pts = tail
        elif style == "lattice":
            a, b = gen.pos_dyadic(rng, 1, 3, 2), gen.pos_dyadic(rng, 1, 3, 2)
            pts = [(a * rng.choice([v for v in range(2 * h + 1) if v != h or h % 2]),
                    b * rng.choice([v for v in range(2 * w + 1) if v != w or w % 2])) for _ in range(n)]
            pts[0] = (F(0), F(0))
            pts[-1] = (a * 2 * h, b * 2 * w)
        elif style == "line":
            y = gen.dyadic(rng, -4, 4, 3)
            pts = [(y, gen.dyadic(rng, -6, 6, 6)) for _ in range(n)]
            if rng.random() < 0.5:
                pts = [(x, y) for (y, x) in pts]
            if len(set(pts)) < 2:
                pts[0] = (pts[0][0] + 1, pts[0][1] + 1)
        else:  # clump: many coincident points + two far ones
            c = (gen.dyadic(rng, -2, 2, 3), gen.dyadic(rng, -2, 2, 3))
            pts = [c] * n
            pts[rng.randrange(n)] = (c[0] + gen.pos_dyadic(rng, 1, 9, 2), c[1] - gen.pos_dyadic(rng, 1, 9, 2))
            pts[rng.randrange(n)] = (c[0] - gen.pos_dyadic(rng, 1, 9, 2), c[1] + gen.pos_dyadic(rng, 1, 9, 2))
        if want_int:
            # integer-valued coordinates, fed through integer-dtype arrays / python int containers
            pts = [(F(round(4 * p[0])), F(round(4 * p[1]))) for p in pts]
        ys = {p[0] for p in pts}
        xs = {p[1] for p in pts}
        # a degenerate extent puts every point at pixel coordinate H/2 (W/2): exactly on a cell boundary
        # when that side is even, so use odd sides there
        if len(ys) < 2 and h % 2 == 0:
            h += 1
        if len(xs) < 2 and w % 2 == 0:
            w -= 1
        return {"tag": f"rect_{style}" + ("_int" if want_int else ""), "kind": "rect", "mask": mask_json(m),
                "mask_kind": kind, **self._plumbing(rng, want_int),
                "sub_size": subs, "uniform_int_sub": len(set(subs)) == 1 and rng.random() < 0.5,
                "scales": [q(F(1)), q(F(1))] if rng.random() < 0.5 else qlist(gen.scales_pair(rng)),
                "origin": qlist(gen.origin_pair(rng)),
                "grid": [qlist(p) for p in pts], "h": h, "w": w,
                "degenerate_extent": len(ys) < 2 or len(xs) < 2}

    def _points(self, rng, integer=False):
        while True:
            n = rng.choice([3, 4, 4, 5, 5, 6, 7, 8, 9, 10])
            bits = rng.choice([2, 3, 4])
            if integer:
                n = min(n, 8)
                pts = [(F(rng.randint(-9, 9)), F(rng.randint(-9, 9))) for _ in range(n)]
            else:
                pts = [(gen.dyadic(rng, -4, 4, bits), gen.dyadic(rng, -4, 4, bits)) for _ in range(n)]
            if general_position(pts):
                return pts

    def _delaunay_case(self, rng, i, force=None):
        force = force or {}   # history stream only: pinned ingredients (never changes the ordinary stream)
        m, kind, subs = force["ms"] if "ms" in force else self._mask_subs(rng)
        n = sum(s * s for s in subs)
        pts = force["pts"] if "pts" in force else self._points(rng)
        style = rng.choice(["distort", "special", "special", "hullhug"])
        style = force.get("style", style)
        want_int = rng.random() < 0.22 and not force.get("no_int")
        if want_int:
            # integer vertices and integer grid points (vertices, lattice points inside and outside the hull)
            style = "intgrid"
            pts = self._points(rng, integer=True)
            g = []
            while len(g) < n:
                r = rng.random()
                if r < 0.2:
                    g.append(rng.choice(pts))
                elif r < 0.5:
                    a, b = rng.sample(range(len(pts)), 2)
                    g.append((F(int((pts[a][0] + pts[b][0]) // 2)), F(int((pts[a][1] + pts[b][1]) // 2))))
                else:
                    g.append((F(rng.randint(-12, 12)), F(rng.randint(-12, 12))))
        elif style == "distort":
            g = self._distort(rng, self._image_grid(rng, m, subs))
            # bring the cloud onto the mesh (half of the time) so both branches are hit
            if rng.random() < 0.6:
                cy = sum(p[0] for p in pts) / len(pts)
                cx = sum(p[1] for p in pts) / len(pts)
                gy = sum(p[0] for p in g) / len(g)
                gx = sum(p[1] for p in g) / len(g)
                sc = rng.choice([F(1, 4), F(1, 2), F(1)])
                g = [(rnd((p[0] - gy) * sc + cy), rnd((p[1] - gx) * sc + cx)) for p in g]
        elif style == "special":
            g = []
            while len(g) < n:
                r = rng.random()
                a, b, c = rng.sample(range(len(pts)), 3)
                if r < 0.15:
                    g.append(pts[a])  # exactly a vertex
                elif r < 0.3:
                    g.append(((pts[a][0] + pts[b][0]) / 2, (pts[a][1] + pts[b][1]) / 2))  # chord midpoint
                elif r < 0.7:
                    l0 = F(rng.randint(0, 8), 8)
                    l1 = F(rng.randint(0, 8 - int(l0 * 8)), 8)
                    l2 = 1 - l0 - l1
                    g.append((l0 * pts[a][0] + l1 * pts[b][0] + l2 * pts[c][0],
                              l0 * pts[a][1] + l1 * pts[b][1] + l2 * pts[c][1]))
                elif r < 0.85:
                    g.append((pts[a][0] + gen.dyadic(rng, -1, 1, 10) * F(1, 64),
                              pts[a][1] + gen.dyadic(rng, -1, 1, 10) * F(1, 64)))
                else:
                    g.append((gen.dyadic(rng, -9, 9, 3), gen.dyadic(rng, -9, 9, 3)))  # mostly outside
        else:  # hull-hugging: next to hull edges, just inside / just outside
            hull = convex_hull(pts)
            cy = sum(pts[i][0] for i in hull) / len(hull)
            cx = sum(pts[i][1] for i in hull) / len(hull)
            g = []
            eps = F(1, 1 << 20)
            while len(g) < n:
                k = rng.randrange(len(hull))
                a, b = pts[hull[k]], pts[hull[(k + 1) % len(hull)]]
                t = F(rng.randint(1, 15), 16)
                py, px = a[0] + t * (b[0] - a[0]), a[1] + t * (b[1] - a[1])
                s = rng.choice([-1, 1]) * eps * rng.choice([1, 4, 1024])
                g.append((rnd(py + s * (py - cy), 40), rnd(px + s * (px - cx), 40)))
        return {"tag": f"delaunay_{style}", "kind": "delaunay", "mask": mask_json(m), "mask_kind": kind,
                **self._plumbing(rng, want_int),
                "sub_size": subs, "uniform_int_sub": len(set(subs)) == 1 and rng.random() < 0.5,
                "scales": qlist(gen.scales_pair(rng)), "origin": qlist(gen.origin_pair(rng)),
                "grid": [qlist(p) for p in g], "points": [qlist(p) for p in pts]}

    def _table_case(self, rng):
        n = rng.randint(1, 5)
        subs = [rng.randint(1, 3) for _ in range(n)]
        if rng.random() < 0.2:
            subs = [rng.randint(1, 4) for _ in range(n)]
        nsub = sum(s * s for s in subs)
        pixels = rng.randint(1, 7)
        kmax = rng.randint(1, 4)
        allow_zero = rng.random() < 0.25
        signed = rng.random() < 0.5
        idx, sizes, wts = [], [], []
        for _ in range(nsub):
            sz = rng.randint(0 if allow_zero else 1, kmax)
            row = [rng.randrange(pixels) for _ in range(sz)] + [-1] * (kmax - sz)
            wrow = [gen.dyadic(rng, -4 if signed else 0, 4, 3) for _ in range(sz)] + [F(0)] * (kmax - sz)
            idx.append(row)
            sizes.append(sz)
            wts.append(wrow)
        if max(sizes) == 0:
            sizes[0] = 1
            idx[0][0] = 0
        int_w = rng.random() < 0.2
        if int_w:
            wts = [[F(round(v)) for v in r] for r in wts]
        return {"tag": ("tables_signed" if signed else "tables_nonneg") + ("_int" if int_w else ""),
                "kind": "tables", "sub_size": subs, "dtype": "int_array" if int_w else "float",
                "pixels": pixels, "idx": idx, "sizes": sizes, "wts": [qlist(r) for r in wts]}

    def _bary_cases(self, rng):
        # a non-degenerate triangle, a point inside (dyadic convex combination), all 6 vertex orders,
        # embedded in a mesh grid with decoy vertices
        int_in = rng.random() < 0.3
        while True:
            if int_in:
                # integer vertices = 16 * small integers, so the dyadic convex combination is an integer point
                tri = [(F(16 * rng.randint(-4, 4)), F(16 * rng.randint(-4, 4))) for _ in range(3)]
            else:
                tri = [(gen.dyadic(rng, -4, 4, 3), gen.dyadic(rng, -4, 4, 3)) for _ in range(3)]
            if orient(*tri) != 0:
                break
        l0 = F(rng.randint(0, 16), 16)
        l1 = F(rng.randint(0, 16 - int(l0 * 16)), 16)
        lam = [l0, l1, 1 - l0 - l1]
        p = (sum(l * v[0] for l, v in zip(lam, tri)), sum(l * v[1] for l, v in zip(lam, tri)))
        if int_in:
            decoys = [(F(rng.randint(-64, 64)), F(rng.randint(-64, 64))) for _ in range(rng.randint(0, 3))]
        else:
            decoys = [(gen.dyadic(rng, -4, 4, 3), gen.dyadic(rng, -4, 4, 3)) for _ in range(rng.randint(0, 3))]
        mesh = decoys + tri
        rng.shuffle(mesh)
        ids = [mesh.index(v) for v in tri]
        rows = [list(perm) for perm in itertools.permutations(ids)]
        yield {"tag": "bary_orders" + ("_int" if int_in else ""), "kind": "bary",
               "dtype": rng.choice(["int_array", "int_mesh_only"]) if int_in else "float",
               "mesh": [qlist(v) for v in mesh],
               "grid": [qlist(p)] * len(rows) + [qlist(p)], "idx": rows + [[ids[0], -1, -1]]}
        # nearest vertex with ties: points on a small integer lattice, query with equal distances
        pts = [(F(rng.randint(-2, 2)), F(rng.randint(-2, 2))) for _ in range(rng.randint(1, 7))]
        qs = [(F(rng.randint(-4, 4), 2), F(rng.randint(-4, 4), 2)) for _ in range(4)]
        int_near = rng.random() < 0.3
        if int_near:
            qs = [(F(rng.randint(-4, 4)), F(rng.randint(-4, 4))) for _ in range(4)]
        yield {"tag": "nearest_ties" + ("_int" if int_near else ""), "kind": "nearest",
               "dtype": "int_array" if int_near else "float", "points": [qlist(v) for v in pts],
               "grid": [qlist(v) for v in qs]}

    # ============================================================== implementation
    def _np(self, pairs, dtype="float"):
        """(N,2) coordinates as float64 ndarray / int64 ndarray / python int lists / tuples."""
        if dtype == "float" or dtype is None:
            return np.array([[float(F(a)), float(F(b))] for a, b in pairs], dtype=float).reshape(-1, 2)
        ints = []
        for a, b in pairs:
            fa, fb = F(a), F(b)
            assert fa.denominator == 1 and fb.denominator == 1, "integer-dtype case with non-integer coordinate"
            ints.append([int(fa), int(fb)])
        if dtype == "int_list":
            return ints
        if dtype == "int_tuple":
            return tuple(tuple(r) for r in ints)
        return np.array(ints, dtype=np.int64).reshape(-1, 2)

    def run_impl(self, case):
        aa = load_autoarray()
        kind = case["kind"]
        if kind == "large":
            return self._run_large(aa, case)
        if kind == "hist":
            return self._run_hist(aa, case)
        if kind in ("nbr", "tables", "bary", "nearest"):
            rounds = int(case.get("rounds", 1))
            first = None
            for r in range(rounds):
                keep = []
                o = self._run_util(aa, case, keep)
                if first is None:
                    first = o
                elif o != first:
                    return o  # ownership history: a later round differs from the first (judged like any observation)
                if r + 1 < rounds:
                    for a in keep:  # scribble over every array the call accepted or returned
                        self._scribble_array(a, case.get("scribble", "nan"))
            return first
        # ---- mappers through the public API
        if case.get("lay") or case.get("opts"):
            mapper, over, grid = self._build_mapper_variant(aa, case)  # round 5/6: layouts / option crossings
            return self._observe(kind, mapper, over, grid)
        m = np.array([c == "1" for c in case["mask"]["bits"]], dtype=bool).reshape(
            case["mask"]["h"], case["mask"]["w"])
        mask = aa.Mask2D(mask=m, pixel_scales=tuple(float(F(v)) for v in case["scales"]),
                         origin=tuple(float(F(v)) for v in case["origin"]))
        subs = case["sub_size"]
        if case.get("uniform_int_sub"):
            sub = int(subs[0])
        else:
            sub = aa.Array2D(values=np.array(subs, dtype=int), mask=mask)
        if case.get("over") == "sampling":
            over = aa.OverSamplingUniform(sub_size=sub).over_sampler_from(mask=mask)
        else:
            over = aa.OverSamplerUniform(mask=mask, sub_size=sub)
        dt = case.get("dtype", "float")
        rtd = {} if case.get("run_time_dict") == "empty" else None
        raw = self._np(case["grid"], dt)
        if case.get("grid_container") == "ndarray":
            grid = np.asarray(raw)  # a bare ndarray where a grid structure is accepted
        else:
            grid = aa.Grid2DIrregular(values=raw)
        direct = case.get("route") == "direct"
        if kind == "rect":
            shp = (case["h"], case["w"]) if case.get("shape_container") != "list" else [case["h"], case["w"]]
            if direct:
                # alternative constructor: mesh object and mapper class built by hand
                mesh_obj = aa.Mesh2DRectangular.overlay_grid(shape_native=shp, grid=grid)
                mg = aa.MapperGrids(mask=mask, source_plane_data_grid=grid, source_plane_mesh_grid=mesh_obj,
                                    run_time_dict=rtd)
                mapper = aa.MapperRectangular(mapper_grids=mg, over_sampler=over, border_relocator=None,
                                              regularization=None, run_time_dict=rtd)
            else:
                mg = aa.mesh.Rectangular(shape=shp).mapper_grids_from(
                    mask=mask, border_relocator=None, source_plane_data_grid=grid, run_time_dict=rtd)
                mapper = aa.Mapper(mapper_grids=mg, over_sampler=over, regularization=None, run_time_dict=rtd)
        else:
            pts_in = self._np(case["points"], dt)
            if direct:
                mg = aa.MapperGrids(mask=mask, source_plane_data_grid=grid,
                                    source_plane_mesh_grid=aa.Mesh2DDelaunay(values=pts_in), run_time_dict=rtd)
                mapper = aa.MapperDelaunay(mapper_grids=mg, over_sampler=over, border_relocator=None,
                                           regularization=None, run_time_dict=rtd)
            else:
                mg = aa.mesh.Delaunay().mapper_grids_from(
                    mask=mask, border_relocator=None, source_plane_data_grid=grid,
                    source_plane_mesh_grid=aa.Grid2DIrregular(values=pts_in), run_time_dict=rtd)
                mapper = aa.Mapper(mapper_grids=mg, over_sampler=over, regularization=None, run_time_dict=rtd)
        return self._observe(kind, mapper, over, grid)

    def _run_util(self, aa, case, keep):
        kind = case["kind"]
        lay = case.get("lay") or {}

        def L(a, name):
            a = _lay(a, lay.get(name))
            if isinstance(a, np.ndarray):
                keep.append(a)
            return a

        def K(a):
            keep.append(a)
            return a

        if kind == "nbr":
            from autoarray.inversion.pixelization.mesh import mesh_util

            h, w = case["h"], case["w"]
            shp = {"tuple": (h, w), "list": [h, w], "np_ints": (np.int64(h), np.int32(w)),
                   "array": np.array([h, w])}[case.get("shape_container", "tuple")]
            nb, sz = mesh_util.rectangular_neighbors_from(shape_native=shp)
            mesh = aa.Mesh2DRectangular.overlay_grid(
                shape_native=(h, w) if isinstance(shp, np.ndarray) else shp, grid=K(np.array([[0.0, 0.0], [1.0, 1.0]])))
            nb2 = mesh.neighbors
            out = {"neighbors": [[int(v) for v in r] for r in nb], "neighbors_sizes": [int(v) for v in sz],
                   "mesh.neighbors": [[int(v) for v in r] for r in np.asarray(nb2)],
                   "mesh.neighbors.sizes": [int(v) for v in nb2.sizes]}
            keep.extend([nb, sz, np.asarray(nb2), nb2.sizes])
            return out
        from autoarray.inversion.pixelization.mappers import mapper_util

        if kind == "tables":
            subs = np.array(case["sub_size"], dtype=int)
            idx = L(np.array(case["idx"], dtype=int), "idx")
            sizes = L(np.array(case["sizes"], dtype=int), "sizes")
            wts = np.array([[float(F(v)) for v in r] for r in case["wts"]], dtype=float)
            if case.get("dtype") == "int_array":
                wts = wts.astype(np.int64)
            wts = L(wts, "wts")
            slim_for = K(np.array([i for i, s in enumerate(case["sub_size"]) for _ in range(s * s)], dtype=int))
            mm = mapper_util.mapping_matrix_from(
                pix_indexes_for_sub_slim_index=idx, pix_size_for_sub_slim_index=sizes,
                pix_weights_for_sub_slim_index=wts, pixels=case["pixels"], total_mask_pixels=len(subs),
                slim_index_for_sub_slim_index=slim_for, sub_fraction=K(1.0 / subs.astype(float) ** 2))
            d2p, dw, pl = mapper_util.data_slim_to_pixelization_unique_from(
                data_pixels=len(subs), pix_indexes_for_sub_slim_index=idx,
                pix_sizes_for_sub_slim_index=sizes, pix_weights_for_sub_slim_index=wts,
                pix_pixels=case["pixels"], sub_size=K(subs))
            out = {"mapping_matrix": qmat(mm),
                   "unique": {"data_to_pix_unique": [[int(v) for v in r] for r in d2p],
                              "data_weights": qmat(dw), "pix_lengths": [int(v) for v in pl]}}
            keep.extend([mm, d2p, dw, pl])
            return out
        if kind == "bary":
            dt = case.get("dtype", "float")
            grid = L(self._np(case["grid"], "int_array" if dt == "int_array" else "float"), "grid")
            w = mapper_util.pixel_weights_delaunay_from(
                source_plane_data_grid=grid,
                source_plane_mesh_grid=L(self._np(case["mesh"], "float" if dt == "float" else "int_array"), "pts"),
                slim_index_for_sub_slim_index=K(np.zeros(len(grid), dtype=int)),
                pix_indexes_for_sub_slim_index=L(np.array(case["idx"], dtype=int), "idx"))
            keep.append(w)
            return {"weights": qmat(w)}
        grid = L(self._np(case["grid"], case.get("dtype", "float")), "grid")
        mp, sz = mapper_util.pix_indexes_for_sub_slim_index_delaunay_from(
            source_plane_data_grid=grid,
            simplex_index_for_sub_slim_index=K(-1 * np.ones(len(grid), dtype=int)),
            pix_indexes_for_simplex_index=K(np.zeros((0, 3), dtype=int)),
            delaunay_points=L(self._np(case["points"], case.get("dtype", "float")), "pts"))
        keep.extend([mp, sz])
        return {"mappings": [[int(v) for v in r] for r in mp], "sizes": [int(v) for v in sz]}

    @staticmethod
    def _scribble_array(a, how="nan"):
        """overwrite an array in place (ownership histories, R5-B); read-only / foreign objects are left alone"""
        try:
            arr = a if isinstance(a, np.ndarray) else getattr(a, "_array", None)
            if not isinstance(arr, np.ndarray) or arr.size == 0:
                return False
            if arr.dtype == bool:
                arr[...] = ~arr
            elif arr.dtype.kind == "f":
                if how == "nan":
                    arr[...] = np.nan
                else:
                    arr += 1.0
            elif arr.dtype.kind in "iu":
                if how == "nan":
                    arr[...] = 7
                else:
                    arr += 1
            else:
                return False
            return True
        except Exception:
            return False

    # ---- round 5/6: the same world through other layouts / containers (R5-C) and option combinations (R5-F)
    @staticmethod
    def _call(fn, kw, explicit_defaults=False):
        """fn(**kw); with `explicit_defaults` every optional parameter that was left out is passed with the default
        value its signature declares (introspected), which must be the same as leaving it out"""
        if explicit_defaults:
            import inspect

            for name, p in inspect.signature(fn).parameters.items():
                if p.kind in (p.VAR_POSITIONAL, p.VAR_KEYWORD) or name in ("self", "cls"):
                    continue
                if p.default is not p.empty and name not in kw:
                    kw[name] = p.default
        return fn(**kw)

    def _build_mapper_variant(self, aa, case):
        lay = case.get("lay") or {}
        opts = case.get("opts") or {}
        kind = case["kind"]
        expl = set(opts.get("explicit_defaults") or [])
        # ---------------- mask
        m = np.array([c == "1" for c in case["mask"]["bits"]], dtype=bool).reshape(
            case["mask"]["h"], case["mask"]["w"])
        scales = tuple(float(F(v)) for v in case["scales"])
        origin = tuple(float(F(v)) for v in case["origin"])
        mkw = {"pixel_scales": scales, "origin": origin}
        if opts.get("mask.pixel_scales") == "scalar":
            assert scales[0] == scales[1]
            mkw["pixel_scales"] = scales[0]
        if opts.get("mask.origin") == "omit":
            assert origin == (0.0, 0.0)
            del mkw["origin"]
        mv = lay.get("mask", "plain")
        if mv == "invert":  # the complement with invert=True is the same mask
            mask = self._call(aa.Mask2D, dict(mask=~m, invert=True, **mkw), "mask" in expl)
        elif mv == "from_mask":  # a Mask2D built from a Mask2D (which carries another geometry)
            inner = aa.Mask2D(mask=m.copy(), pixel_scales=(scales[1] * 2.0, scales[0] * 0.5),
                              origin=(origin[0] + 1.5, origin[1] - 2.25))
            mask = self._call(aa.Mask2D, dict(mask=inner, **mkw), "mask" in expl)
        elif mv == "int":
            mask = self._call(aa.Mask2D, dict(mask=m.astype(int), **mkw), "mask" in expl)
        else:
            mask = self._call(aa.Mask2D, dict(mask=_lay(m.copy(), mv), **mkw), "mask" in expl)
        # ---------------- sub-size map and over-sampler
        subs = case["sub_size"]
        sv = lay.get("sub", "arr")
        if sv == "arr":
            sub = int(subs[0]) if case.get("uniform_int_sub") else aa.Array2D(values=np.array(subs, dtype=int), mask=mask)
        elif sv == "ndarray":
            sub = np.array(subs, dtype=int)
        elif sv == "arr_of_arr":
            sub = aa.Array2D(values=aa.Array2D(values=np.array(subs, dtype=int), mask=mask), mask=mask)
        else:
            sub = aa.Array2D(values=_lay(np.array(subs, dtype=int), sv), mask=mask)
        if case.get("over") == "sampling":
            over = self._call(aa.OverSamplingUniform, dict(sub_size=sub), "over" in expl).over_sampler_from(mask=mask)
        else:
            over = self._call(aa.OverSamplerUniform, dict(mask=mask, sub_size=sub), "over" in expl)
        # ---------------- source-plane grid
        dt = case.get("dtype", "float")

        def container(raw, how):
            if how == "ndarray":
                return raw if isinstance(raw, np.ndarray) else np.asarray(raw)
            if how == "irr_of_irr":
                return aa.Grid2DIrregular(values=aa.Grid2DIrregular(values=raw))
            if how == "mesh":
                return aa.Mesh2DDelaunay(values=raw)
            if how == "grid2d_nomask":
                a = np.asarray(raw)
                return aa.Grid2D.no_mask(values=a.reshape(1, -1, 2), pixel_scales=1.0)
            if how == "grid2d_slim":  # a uniform-grid structure over the mask (every sub-size is 1), slim input
                return aa.Grid2D(values=np.asarray(raw, dtype=float), mask=mask)
            if how == "grid2d_native_in":  # ... built from a native (H, W, 2) array (stored slim by the library)
                nat = np.zeros(m.shape + (2,))
                nat[~m] = np.asarray(raw, dtype=float)
                return aa.Grid2D(values=nat, mask=mask)
            return aa.Grid2DIrregular(values=raw)

        def make_grid(pairs):
            raw = self._np(pairs, dt)
            if lay.get("grid") and isinstance(raw, np.ndarray):
                raw = _lay(raw, lay["grid"])
            return container(raw, case.get("grid_container"))

        grid = make_grid(case["grid"])
        plain_grid = np.array([[float(F(a)), float(F(b))] for a, b in case["grid"]], dtype=float).reshape(-1, 2)
        n_unmasked = len(subs)
        # ---------------- optional arguments
        def rtd_of(name):
            return {"none": None, "empty": {}, "filled": {"c06_decoy_0": 0.25}}[name]

        rtd_name = case.get("run_time_dict", "none")
        mgkw = {"mask": mask, "source_plane_data_grid": grid}
        if rtd_name != "omit":
            mgkw["run_time_dict"] = rtd_of(rtd_name)
        v = opts.get("image_plane_mesh_grid", "omit")
        if v == "none":
            mgkw["image_plane_mesh_grid"] = None
        elif v == "grid":
            mgkw["image_plane_mesh_grid"] = aa.Grid2DIrregular(values=[[0.25, -0.5], [1.0, 0.75], [-0.5, 0.125]])
        v = opts.get("adapt_data", "omit")
        if v == "none":
            mgkw["adapt_data"] = None
        elif v in ("arr", "zeros"):
            vals = np.zeros(n_unmasked) if v == "zeros" else np.arange(n_unmasked) * 0.5 + 1.0
            mgkw["adapt_data"] = aa.Array2D(values=vals, mask=mask)
        v = opts.get("preloads", "omit")
        if v == "default":
            mgkw["preloads"] = aa.Preloads()
        elif v == "unrelated":
            mgkw["preloads"] = aa.Preloads(use_w_tilde=False, mapper_list=[], regularization_matrix=np.eye(2),
                                           log_det_regularization_matrix_term=0.0)
        elif v in ("relocated_same", "relocated_decoy"):
            # documented: a preloaded relocated grid is used instead of the grid that is passed in
            mgkw["preloads"] = aa.Preloads(relocated_grid=grid)
            if v == "relocated_decoy":
                shifted = [(F(a) * 2 + 1, F(b) - 3) for a, b in case["grid"]]
                mgkw["source_plane_data_grid"] = aa.Grid2DIrregular(
                    values=np.array([[float(a), float(b)] for a, b in shifted], dtype=float).reshape(-1, 2))
            else:
                mgkw["source_plane_data_grid"] = make_grid(case["grid"])
        mkw2 = {"over_sampler": over}
        reg = opts.get("regularization", "none")
        mkw2["regularization"] = None if reg == "none" else self.REGS[reg](aa)
        rn = opts.get("mapper.run_time_dict", rtd_name)
        if rn != "omit":
            mkw2["run_time_dict"] = mgkw.get("run_time_dict") if rn == rtd_name else rtd_of(rn)
        direct = case.get("route") == "direct"
        br = opts.get("border_relocator", "none")
        if br == "none":
            mkw2["border_relocator"] = None
            if not direct:
                mgkw["border_relocator"] = None
        # ---------------- mesh, mapper grids, mapper
        if kind == "rect":
            sc = case.get("shape_container", "tuple")
            h, w = case["h"], case["w"]
            shp = {"tuple": (h, w), "list": [h, w], "np_ints": (np.int64(h), np.int32(w)), "array": np.array([h, w]),
                   "floats": (float(h), float(w))}[sc]
            if direct:
                okw = {"shape_native": shp if sc != "floats" else (h, w), "grid": grid}
                if opts.get("buffer", "omit") != "omit":
                    okw["buffer"] = float(F(opts["buffer"]))
                mesh_obj = self._call(aa.Mesh2DRectangular.overlay_grid, okw, "overlay" in expl)
                mgkw.pop("border_relocator", None)
                mgkw["source_plane_mesh_grid"] = mesh_obj
                mg = self._call(aa.MapperGrids, mgkw, "mapper_grids" in expl)
                cls = aa.MapperRectangular if opts.get("mapper_cls") != "factory" else aa.Mapper
                if cls is not aa.Mapper:
                    mkw2["border_relocator"] = None  # (a required argument of the mapper classes)
                mapper = self._call(cls, dict(mapper_grids=mg, **mkw2), "mapper" in expl)
            else:
                cfg = aa.mesh.Rectangular(shape=shp)
                mg = self._call(cfg.mapper_grids_from, mgkw, "mapper_grids_from" in expl)
                mapper = self._call(aa.Mapper, dict(mapper_grids=mg, **mkw2), "mapper" in expl)
        else:
            praw = self._np(case["points"], dt)
            if lay.get("pts") and isinstance(praw, np.ndarray):
                praw = _lay(praw, lay["pts"])
            pts_in = container(praw, lay.get("pts_container", "irr"))
            if direct:
                mgkw.pop("border_relocator", None)
                mgkw["source_plane_mesh_grid"] = aa.Mesh2DDelaunay(values=pts_in)
                mg = self._call(aa.MapperGrids, mgkw, "mapper_grids" in expl)
                cls = aa.MapperDelaunay if opts.get("mapper_cls") != "factory" else aa.Mapper
                if cls is not aa.Mapper:
                    mkw2["border_relocator"] = None  # (a required argument of the mapper classes)
                mapper = self._call(cls, dict(mapper_grids=mg, **mkw2), "mapper" in expl)
            else:
                mgkw["source_plane_mesh_grid"] = pts_in
                mg = self._call(aa.mesh.Delaunay().mapper_grids_from, mgkw, "mapper_grids_from" in expl)
                mapper = self._call(aa.Mapper, dict(mapper_grids=mg, **mkw2), "mapper" in expl)
        return mapper, over, plain_grid

    def _observe(self, kind, mapper, over, grid, order=("psw", "um", "nb", "mm")):
        """the C06 observables of one mapper; `order` = the order in which the (cached) quantities are first read"""
        got = {}
        for what in order:
            got[what] = {"psw": lambda: mapper.pix_sub_weights, "um": lambda: mapper.unique_mappings,
                         "nb": lambda: mapper.neighbors, "mm": lambda: mapper.mapping_matrix}[what]()
        psw, um, nb = got["psw"], got["um"], got["nb"]
        mesh = mapper.source_plane_mesh_grid
        obs = {
            "class": type(mapper).__name__,
            "slim_for_sub_slim": [int(v) for v in mapper.slim_index_for_sub_slim_index],
            "sub_fraction": qlist(np.asarray(over.sub_fraction)),
            "mappings": [[int(v) for v in r] for r in np.asarray(psw.mappings)],
            "sizes": [int(v) for v in np.asarray(psw.sizes)],
            "weights": qmat(np.asarray(psw.weights)),
            "mapping_matrix": qmat(np.asarray(got["mm"])),
            "unique": {"data_to_pix_unique": [[int(v) for v in r] for r in um.data_to_pix_unique],
                       "data_weights": qmat(um.data_weights), "pix_lengths": [int(v) for v in um.pix_lengths]},
            "neighbors": [[int(v) for v in r] for r in np.asarray(nb)],
            "neighbors_sizes": [int(v) for v in nb.sizes],
            "mesh.neighbors_same": bool(np.array_equal(np.asarray(mesh.neighbors), np.asarray(nb))),
            "pixels": int(mapper.pixels),
        }
        if kind == "rect":
            obs["geom"] = {"sy": q(mesh.pixel_scales[0]), "sx": q(mesh.pixel_scales[1]),
                           "oy": q(mesh.origin[0]), "ox": q(mesh.origin[1])}
            obs["shape_native"] = [int(v) for v in mesh.shape_native]
        else:
            d = mapper.delaunay
            indptr, indices = d.vertex_neighbor_vertices
            obs["_qhull"] = {
                "simplices": [[int(v) for v in r] for r in d.simplices],
                "find_simplex": [int(v) for v in d.find_simplex(np.asarray(grid))],
                "indptr": [int(v) for v in indptr], "indices": [int(v) for v in indices],
                "points": qmat(d.points),
            }
        return obs

    # ============================================================== model
    def model_requests(self, case, obs):
        kind = case["kind"]
        if kind == "large":
            return []  # judged by the vectorised oracle alone
        if kind == "hist":
            return self._hist_requests(case, obs)
        if isinstance(obs, dict) and "err" in obs:
            # still ask the model, so an implementation exception on a legal input is a disagreement
            if kind in ("rect", "delaunay"):
                return []
        if kind == "nbr":
            return [{"op": "c06.rect_neighbors", "h": case["h"], "w": case["w"]}]
        if kind == "tables":
            subs = case["sub_size"]
            slim_for = [i for i, s in enumerate(subs) for _ in range(s * s)]
            return [
                {"op": "c06.mapping_matrix", "idx": case["idx"], "sizes": case["sizes"], "wts": case["wts"],
                 "pixels": case["pixels"], "total": len(subs), "slim_for": slim_for,
                 "frac": [q(F(1, s * s)) for s in subs]},
                {"op": "c06.unique_from", "idx": case["idx"], "sizes": case["sizes"], "wts": case["wts"],
                 "pix_pixels": case["pixels"], "data_pixels": len(subs), "sub_size": subs},
            ]
        if kind == "bary":
            reqs = []
            for row, p in zip(case["idx"], case["grid"]):
                if row[1] != -1:
                    reqs.append({"op": "c06.bary_weights", "v0": case["mesh"][row[0]], "v1": case["mesh"][row[1]],
                                 "v2": case["mesh"][row[2]], "p": p})
            return reqs
        if kind == "nearest":
            return [{"op": "c06.nearest_vertex", "points": case["points"], "p": p} for p in case["grid"]]
        if kind == "rect":
            return [{"op": "c06.mapper_rect", "mask": case["mask"], "sub_size": case["sub_size"],
                     "grid": case["grid"], "h": case["h"], "w": case["w"], "buffer": q(self._buffer(case)),
                     "geom": obs["geom"]}]
        qh = obs["_qhull"]
        return [{"op": "c06.mapper_delaunay", "mask": case["mask"], "sub_size": case["sub_size"],
                 "grid": case["grid"], "points": case["points"], "simplices": qh["simplices"],
                 "find_simplex": qh["find_simplex"], "indptr": qh["indptr"], "indices": qh["indices"]}]

    def model_obs(self, case, responses):
        kind = case["kind"]
        if kind == "hist":
            return [r["ok"] if "ok" in r else {"err": r.get("err")} for r in responses]
        for r in responses:
            if "err" in r:
                return {"err": r["err"]}
        if kind == "tables":
            return {"mapping_matrix": responses[0]["ok"], "unique": responses[1]["ok"]}
        if kind == "bary":
            return {"weights": [r["ok"] for r in responses] + [["1", "0", "0"]]}
        if kind == "nearest":
            return {"mappings": [[r["ok"], -1, -1] for r in responses], "sizes": [1] * len(responses)}
        return responses[0]["ok"]

    MAPPER_KEYS = ["slim_for_sub_slim", "sub_fraction", "mappings", "sizes", "weights", "mapping_matrix",
                   "unique", "neighbors", "neighbors_sizes"]

    def compare(self, case, impl, model, cmp):
        kind = case["kind"]
        if kind == "hist":
            return self._hist_compare(case, impl, model, cmp)
        if "err" in impl or "err" in model:
            return cmp.diff(impl, model)
        if kind == "nbr":
            if model.get("spec_equal") is not True:
                return "model: Impl.rectNeighbors != Spec.rectNeighbors for this shape"
            d = cmp.diff({"neighbors": impl["neighbors"], "neighbors_sizes": impl["neighbors_sizes"]},
                         {"neighbors": model["neighbors"], "neighbors_sizes": model["neighbors_sizes"]})
            if d:
                return d
            return cmp.diff({"neighbors": impl["mesh.neighbors"], "neighbors_sizes": impl["mesh.neighbors.sizes"]},
                            {"neighbors": model["neighbors"], "neighbors_sizes": model["neighbors_sizes"]},
                            "$mesh")
        if kind == "tables" and case.get("wscale"):
            # decades stream: weights scaled by 2^k -- compare relative to the scaled magnitude (exact de-scaling)
            return cmp.diff(self._descale_tables(impl, case["wscale"]), self._descale_tables(model, case["wscale"]))
        if kind in ("tables", "bary", "nearest"):
            return cmp.diff(impl, model)
        if kind == "rect":
            # cell decisions taken by float arithmetic within BAND of a boundary (plus the rounding error of the
            # pixel coordinate itself, which matters for far-from-zero / nearly degenerate worlds) are not compared
            by, bx = self._px_band(case, impl["geom"])
            inband = [k for k, (fy, fx) in enumerate(model["pixel_coord"])
                      if any(abs(v - round(v)) <= BAND * max(1, abs(v)) + b for v, b in ((F(fy), by), (F(fx), bx)))]
            if inband and not case.get("pb"):
                raise Skip("sub-pixel within 1e-11 of a cell boundary")
            d = self._geom_diff(case, impl["geom"], model["overlay"], cmp)
            if d:
                return d
            if impl["shape_native"] != [case["h"], case["w"]]:
                return f"mesh shape {impl['shape_native']}"
            if inband:
                if not impl["mesh.neighbors_same"]:
                    return "mapper.neighbors differs from source_plane_mesh_grid.neighbors"
                return self._partial_diff(case, impl, model, cmp, set(inband))
        else:
            # Qhull's neighbour sets must equal the simplex edge relation (model-side check)
            got = [sorted(r[:s]) for r, s in zip(impl["neighbors"], impl["neighbors_sizes"])]
            if got != model["neighbors_from_simplices"]:
                return f"neighbours (as sets) != edge relation of the simplices: {got} vs {model['neighbors_from_simplices']}"
        if not impl["mesh.neighbors_same"]:
            return "mapper.neighbors differs from source_plane_mesh_grid.neighbors"
        tol = self._dl_tol(case, impl) if (kind == "delaunay" and case.get("ctol")) else TOL
        if tol > TOL:
            # far-from-zero world: the area ratios are ill-conditioned, reals compared at the conditioned tolerance
            real = ("weights", "mapping_matrix", "unique")
            d = cmp.diff({k: impl[k] for k in self.MAPPER_KEYS if k not in real},
                         {k: model[k] for k in self.MAPPER_KEYS if k not in real})
            if d:
                return d
            c2 = Cmp(tol, tol)
            d = c2.diff({k: impl[k] for k in real}, {k: model[k] for k in real})
            cmp.exact += c2.exact
            cmp.tolerant += c2.tolerant
            return d
        return self._fdiff(cmp, {k: impl[k] for k in self.MAPPER_KEYS}, {k: model[k] for k in self.MAPPER_KEYS})

    # ---- round 5/6 helpers of compare / oracle
    @staticmethod
    def _leaves(x):
        if isinstance(x, (list, tuple)):
            return sum(C06._leaves(v) for v in x)
        if isinstance(x, dict):
            return sum(C06._leaves(v) for v in x.values())
        return 1

    def _fdiff(self, cmp, a, b, path="$"):
        """cmp.diff(a, b) with a fast path: structurally identical observations (same canonical "p/q" strings, same
        integers) are equal, and are counted as that many exact comparisons"""
        if isinstance(a, dict) and isinstance(b, dict) and set(a) == set(b):
            for k in sorted(a):
                d = self._fdiff(cmp, a[k], b[k], f"{path}.{k}")
                if d:
                    return d
            return None
        if type(a) is type(b) and isinstance(a, list) and a == b and not self._has_bool(a):
            cmp.exact += self._leaves(a)
            return None
        return cmp.diff(a, b, path)

    @staticmethod
    def _has_bool(x):
        if isinstance(x, list):
            return any(C06._has_bool(v) for v in x[:1])
        return isinstance(x, bool)

    def _buffer(self, case):
        b = (case.get("opts") or {}).get("buffer", "omit")
        return BUFFER if b == "omit" else F(b)

    @staticmethod
    def _descale_tables(o, k):
        sc = F(2) ** (-int(k))
        if "err" in o:
            return o
        return {"mapping_matrix": [[q(F(v) * sc) for v in r] for r in o["mapping_matrix"]],
                "unique": {**o["unique"], "data_weights": [[q(F(v) * sc) for v in r] for r in o["unique"]["data_weights"]]}}

    def _px_band(self, case, geom):
        """bound (in pixels, per axis) on the rounding error of the pixel coordinate (-y/sy) + (cy + oy/sy) + 0.5
        evaluated in doubles: a few ulps of |y|/sy and |oy|/sy"""
        try:
            sy, sx, oy, ox = (abs(F(geom[k])) for k in ("sy", "sx", "oy", "ox"))
            if sy == 0 or sx == 0:
                return F(0), F(0)
            my = max(abs(F(p[0])) for p in case["grid"]) + oy
            mx = max(abs(F(p[1])) for p in case["grid"]) + ox
            return 16 * EPS * (my / sy + case["h"]), 16 * EPS * (mx / sx + case["w"])
        except Exception:
            return F(0), F(0)

    def _geom_diff(self, case, g_impl, g_model, cmp):
        """overlay geometry: relative 1e-9 (not the absolute floor of the generic comparison, which would hide a
        relative change of a tiny world) plus the rounding error of (max + b) - (min - b) in doubles"""
        d = cmp.diff(g_impl, g_model, "$geom")
        if d:
            return d
        m = max(max(abs(F(p[0])), abs(F(p[1]))) for p in case["grid"]) + self._buffer(case)
        for k in ("sy", "sx", "oy", "ox"):
            a, b = F(g_impl[k]), F(g_model[k])
            if abs(a - b) > TOL * max(abs(a), abs(b)) + 32 * EPS * m:
                return (f"$geom.{k}: impl={float(a)!r} model={float(b)!r} (relative difference "
                        f"{float(abs(a - b) / max(abs(a), abs(b))):.3e})")
        return None

    def _partial_diff(self, case, impl, model, cmp, bad_sub):
        """rect case with some sub-pixels inside the band: everything that does not depend on their cells"""
        bl = blocks(case["sub_size"])
        bad_pix = {i for i, (a, b) in enumerate(bl) if any(k in bad_sub for k in range(a, b))}
        keys = ["slim_for_sub_slim", "sub_fraction", "neighbors", "neighbors_sizes"]
        d = cmp.diff({k: impl[k] for k in keys}, {k: model[k] for k in keys})
        if d:
            return d
        nsub, n = len(model["mappings"]), len(bl)
        for key in ("mappings", "sizes", "weights"):
            if len(impl[key]) != nsub:
                return f"$.{key}: length impl={len(impl[key])} model={nsub}"
            for k in range(nsub):
                if k not in bad_sub:
                    d = cmp.diff(impl[key][k], model[key][k], f"$.{key}[{k}]")
                    if d:
                        return d
        for key, a, b in (("mapping_matrix", impl["mapping_matrix"], model["mapping_matrix"]),
                          *((f"unique.{u}", impl["unique"][u], model["unique"][u])
                            for u in ("data_to_pix_unique", "data_weights", "pix_lengths"))):
            if len(a) != n:
                return f"$.{key}: length impl={len(a)} model={n}"
            for i in range(n):
                if i not in bad_pix:
                    d = cmp.diff(a[i], b[i], f"$.{key}[{i}]")
                    if d:
                        return d
        return None

    def _dl_tol(self, case, obs):
        """tolerance on the barycentric weights of a Delaunay case: 1e-9, or -- for worlds far from zero -- the
        rounding error of the area formula the code uses, x1*y2 + x2*y3 + x3*y1 - x2*y1 - x3*y2 - x1*y3 (six products
        of magnitude M^2, each rounded), relative to the smallest triangle: <= 44 eps M^2 / (2 area) per weight"""
        try:
            pts = [(F(a), F(b)) for a, b in case["points"]]
            allp = pts + [(F(a), F(b)) for a, b in case["grid"]]
            M = max(max(abs(p[0]), abs(p[1])) for p in allp)
            amin = min(abs(orient(*(pts[i] for i in s))) for s in obs["_qhull"]["simplices"])
            if amin == 0:
                return TOL
            return max(TOL, 64 * EPS * M * M / amin)
        except Exception:
            return TOL

    # ============================================================== oracle
    def oracle(self, case, obs):
        if isinstance(obs, dict) and "err" in obs:
            return False, f"implementation raised {obs}"
        kind = case["kind"]
        if kind == "large":
            return self._oracle_large(case, obs)
        if kind == "hist":
            return self._hist_oracle(case, obs)
        if kind == "nbr":
            for key_n, key_s in (("neighbors", "neighbors_sizes"), ("mesh.neighbors", "mesh.neighbors.sizes")):
                ok, why = self._check_rect_neighbors(case["h"], case["w"], obs[key_n], obs[key_s])
                if not ok:
                    return False, f"{key_n}: {why}"
            return True, ""
        if kind == "tables":
            subs = case["sub_size"]
            wts = [[F(v) for v in r] for r in case["wts"]]
            if case.get("wscale"):  # decades stream: judge relative to the scaled magnitude (exact de-scaling)
                sc = F(2) ** (-int(case["wscale"]))
                wts = [[v * sc for v in r] for r in wts]
                obs = self._descale_tables(obs, case["wscale"])
            return self._check_matrix_and_unique(subs, case["idx"], case["sizes"], wts, case["pixels"],
                                                 obs["mapping_matrix"], obs["unique"], rows_sum=False)
        if kind == "bary":
            mesh = [(F(a), F(b)) for a, b in case["mesh"]]
            for row, p, w in zip(case["idx"], case["grid"], obs["weights"]):
                w = [F(v) for v in w]
                if row[1] == -1:
                    if w != [1, 0, 0]:
                        return False, f"single-vertex row has weights {w}"
                    continue
                lam = bary(mesh[row[0]], mesh[row[1]], mesh[row[2]], (F(p[0]), F(p[1])))
                if any(abs(a - b) > TOL for a, b in zip(w, lam)):
                    return False, (f"weights {[float(v) for v in w]} are not the barycentric coordinates "
                                   f"{[float(v) for v in lam]} in vertex order {row}")
            return True, ""
        if kind == "nearest":
            pts = [(F(a), F(b)) for a, b in case["points"]]
            for p, row, sz in zip(case["grid"], obs["mappings"], obs["sizes"]):
                p = (F(p[0]), F(p[1]))
                d = [(v[0] - p[0]) ** 2 + (v[1] - p[1]) ** 2 for v in pts]
                if row != [d.index(min(d)), -1, -1] or sz != 1:
                    return False, f"point {p}: row {row} is not [first nearest vertex {d.index(min(d))}, -1, -1]"
            return True, ""
        # ---------------- mappers
        subs = case["sub_size"]
        n = len(subs)
        nsub = sum(s * s for s in subs)
        grid = [(F(a), F(b)) for a, b in case["grid"]]
        exp_slim = [i for i, s in enumerate(subs) for _ in range(s * s)]
        if obs["slim_for_sub_slim"] != exp_slim:
            return False, "slim_index_for_sub_slim_index is not pixel i repeated sub_size_i^2 times"
        if any(abs(F(f) - F(1, s * s)) > TOL for f, s in zip(obs["sub_fraction"], subs)):
            return False, "sub_fraction != 1/sub_size^2"
        maps, sizes = obs["mappings"], obs["sizes"]
        wts = [[F(v) for v in r] for r in obs["weights"]]
        if not (len(maps) == len(sizes) == len(wts) == nsub == len(grid)):
            return False, "pix_sub_weights tables do not have one row per sub-pixel"
        wtol = TOL
        if kind == "rect":
            want_cls = "MapperRectangular"
            h, w = case["h"], case["w"]
            pixels = h * w
            ys, xs = [p[0] for p in grid], [p[1] for p in grid]
            buf = self._buffer(case)
            y_lo, y_hi = min(ys) - buf, max(ys) + buf
            x_lo, x_hi = min(xs) - buf, max(xs) + buf
            sy, sx = (y_hi - y_lo) / h, (x_hi - x_lo) / w
            # containment slack: 1e-9 of a cell, plus the rounding error a cell decision taken in doubles carries
            # (a few ulps of the coordinates' magnitude; negligible unless the world is far from zero or the
            # extent is nearly degenerate)
            fy = 16 * EPS * (max(abs(y_hi), abs(y_lo)) + (y_hi - y_lo))
            fx = 16 * EPS * (max(abs(x_hi), abs(x_lo)) + (x_hi - x_lo))
            if "geom" in obs:
                for nm, got, want in (("pixel scale y", obs["geom"]["sy"], sy), ("pixel scale x", obs["geom"]["sx"], sx),
                                      ("origin y", obs["geom"]["oy"], (y_hi + y_lo) / 2),
                                      ("origin x", obs["geom"]["ox"], (x_hi + x_lo) / 2)):
                    if abs(F(got) - want) > TOL * abs(want) + 2 * (fy + fx):
                        return False, (f"overlaid mesh {nm} = {float(F(got))!r}, the grid's extent + buffer "
                                       f"gives {float(want)!r}")
            for k, (p, row, sz, wr) in enumerate(zip(grid, maps, sizes, wts)):
                if sz != 1 or len(row) != 1 or wr != [1]:
                    return False, f"sub-pixel {k}: rectangular mapping must be one index with weight 1, got {row} {wr}"
                c = row[0]
                if not (0 <= c < pixels):
                    return False, f"sub-pixel {k}: cell index {c} outside 0..{pixels - 1}"
                cy, cx = divmod(c, w)
                top, bot = y_hi - cy * sy, y_hi - (cy + 1) * sy
                lft, rgt = x_lo + cx * sx, x_lo + (cx + 1) * sx
                if not (bot - SLACK * sy - fy <= p[0] <= top + SLACK * sy + fy
                        and lft - SLACK * sx - fx <= p[1] <= rgt + SLACK * sx + fx):
                    return False, (f"sub-pixel {k} at ({float(p[0])},{float(p[1])}) is not inside cell {c} = "
                                   f"(row {cy}, col {cx}) of the {h}x{w} mesh overlaid on the grid")
            ok, why = self._check_rect_neighbors(h, w, obs["neighbors"], obs["neighbors_sizes"])
            if not ok:
                return False, why
        else:
            want_cls = "MapperDelaunay"
            pts = [(F(a), F(b)) for a, b in case["points"]]
            pixels = len(pts)
            qh = obs["_qhull"]
            simplices = qh["simplices"]
            if case.get("ctol"):
                wtol = self._dl_tol(case, obs)
            # --- Qhull contract (exact; on the point set scaled to integer coordinates, which leaves every sign and
            #     the area identity unchanged)
            ipts = int_points(pts)
            simp_sets = set()
            for s in simplices:
                if len(s) != 3 or any(not (0 <= i < pixels) for i in s):
                    return False, f"Qhull contract: simplex {s} does not name three vertices"
                a, b, c = (ipts[i] for i in s)
                o = orient(a, b, c)
                if o == 0:
                    return False, f"Qhull contract: degenerate simplex {s}"
                if o < 0:
                    b, c = c, b
                for i, d in enumerate(ipts):
                    if i not in s and in_circle(a, b, c, d) > 0:
                        return False, f"Qhull contract: simplex {s} is not Delaunay (vertex {i} inside circumcircle)"
                simp_sets.add(frozenset(s))
            hull = convex_hull(ipts)
            hull_area2 = sum(orient(ipts[hull[0]], ipts[hull[i]], ipts[hull[i + 1]]) for i in range(1, len(hull) - 1))
            if sum(abs(orient(*(ipts[i] for i in s))) for s in simplices) != hull_area2:
                return False, "Qhull contract: simplices do not tile the convex hull"
            adj = [set() for _ in pts]
            for s in simplices:
                for i in s:
                    adj[i] |= set(s) - {i}
            indptr, indices = qh["indptr"], qh["indices"]
            for k in range(pixels):
                sl = indices[indptr[k]:indptr[k + 1]]
                if len(sl) != len(set(sl)) or set(sl) != adj[k]:
                    return False, f"Qhull contract: vertex_neighbor_vertices[{k}] = {sl} != simplex edges {sorted(adj[k])}"
            # --- neighbours = edges of the triangulation, symmetric
            nbs = []
            for k, (row, sz) in enumerate(zip(obs["neighbors"], obs["neighbors_sizes"])):
                used = row[:sz]
                if len(set(used)) != len(used) or set(used) != adj[k] or any(v != -1 for v in row[sz:]):
                    return False, f"neighbors[{k}] = {row} (size {sz}) is not the set of Delaunay edges {sorted(adj[k])}"
                nbs.append(set(used))
            if len(nbs) != pixels:
                return False, "neighbors table has wrong number of rows"
            for k in range(pixels):
                for j in nbs[k]:
                    if k not in nbs[j]:
                        return False, f"neighbour relation not symmetric: {j} in N({k}) but not conversely"
            # --- per sub-pixel interpolation
            def outside_hull(p):
                # not strictly inside: some hull edge has p on its right (or on it), with slack
                for i in range(len(hull)):
                    a, b = pts[hull[i]], pts[hull[(i + 1) % len(hull)]]
                    e2 = (b[0] - a[0]) ** 2 + (b[1] - a[1]) ** 2
                    if orient(a, b, p) <= SLACK * e2:
                        return True
                return False

            for k, (p, row, sz, wr, fs) in enumerate(zip(grid, maps, sizes, wts, qh["find_simplex"])):
                if len(row) != 3 or len(wr) != 3:
                    return False, f"sub-pixel {k}: Delaunay rows must have 3 slots"
                if sz == 3:
                    if frozenset(row) not in simp_sets or len(set(row)) != 3:
                        return False, f"sub-pixel {k}: vertices {row} are not a triangle of the triangulation"
                    lam = bary(pts[row[0]], pts[row[1]], pts[row[2]], p)
                    if min(lam) < -max(SLACK, wtol):
                        return False, (f"sub-pixel {k} at ({float(p[0])},{float(p[1])}) is not in the triangle "
                                       f"{row} it is mapped to (barycentric {[float(v) for v in lam]})")
                    if any(abs(a - b) > wtol for a, b in zip(wr, lam)):
                        return False, (f"sub-pixel {k}: weights {[float(v) for v in wr]} are not the barycentric "
                                       f"coordinates {[float(v) for v in lam]} w.r.t. vertices {row} (in order)")
                    if fs == -1:
                        return False, f"sub-pixel {k}: find_simplex = -1 but three vertices mapped"
                elif sz == 1:
                    if row[1:] != [-1, -1] or wr != [1, 0, 0]:
                        return False, f"sub-pixel {k}: single mapping must be [v,-1,-1] with weights [1,0,0]: {row} {wr}"
                    if not outside_hull(p):
                        return False, f"sub-pixel {k} at ({float(p[0])},{float(p[1])}) is strictly inside the hull but mapped to one vertex"
                    d = [(v[0] - p[0]) ** 2 + (v[1] - p[1]) ** 2 for v in pts]
                    if row[0] != d.index(min(d)):
                        return False, f"sub-pixel {k}: vertex {row[0]} is not the (first) nearest vertex {d.index(min(d))}"
                else:
                    return False, f"sub-pixel {k}: size {sz} not in (1, 3)"
        if obs["class"] != want_cls:
            return False, f"factory built {obs['class']}"
        if obs["pixels"] != pixels:
            return False, f"mapper.pixels = {obs['pixels']} != {pixels}"
        if not obs["mesh.neighbors_same"]:
            return False, "mapper.neighbors differs from source_plane_mesh_grid.neighbors"
        return self._check_matrix_and_unique(subs, maps, sizes, wts, pixels, obs["mapping_matrix"],
                                             obs["unique"], rows_sum=True, sum_tol=max(TOL, 4 * wtol) if wtol > TOL else TOL)

    def _check_rect_neighbors(self, h, w, nb, sz):
        if len(nb) != h * w or len(sz) != h * w:
            return False, "neighbour table has wrong number of rows"
        sets = []
        for k in range(h * w):
            y, x = divmod(k, w)
            exp = set()
            if y > 0:
                exp.add(k - w)
            if y < h - 1:
                exp.add(k + w)
            if x > 0:
                exp.add(k - 1)
            if x < w - 1:
                exp.add(k + 1)
            used = nb[k][: sz[k]]
            if len(used) != len(set(used)) or set(used) != exp or any(v != -1 for v in nb[k][sz[k]:]):
                return False, f"neighbors[{k}] = {nb[k]} (size {sz[k]}) is not the 4-connectivity {sorted(exp)} of a {h}x{w} mesh"
            sets.append(set(used))
        for k in range(h * w):
            for j in sets[k]:
                if k not in sets[j]:
                    return False, f"neighbour relation not symmetric at ({k},{j})"
        return True, ""

    def _check_matrix_and_unique(self, subs, maps, sizes, wts, pixels, mm, uq, rows_sum, sum_tol=TOL):
        n = len(subs)
        if len(mm) != n or any(len(r) != pixels for r in mm):
            return False, f"mapping matrix shape != ({n},{pixels})"
        exp = [[F(0)] * pixels for _ in range(n)]
        for i, (a, b) in enumerate(blocks(subs)):
            fr_i = F(1, subs[i] * subs[i])
            for sub in range(a, b):
                for c in range(sizes[sub]):
                    p = maps[sub][c]
                    if not (0 <= p < pixels):
                        return False, f"sub-pixel {sub}: source pixel index {p} out of range"
                    exp[i][p] += fr_i * wts[sub][c]
        tol = F(1, 10**12)
        for i in range(n):
            row = [F(v) for v in mm[i]]
            for p in range(pixels):
                if abs(row[p] - exp[i][p]) > tol * max(1, abs(exp[i][p])):
                    return False, (f"mapping_matrix[{i},{p}] = {float(row[p])} != sum over sub-pixels of "
                                   f"(1/sub_size^2) * weight = {float(exp[i][p])}")
            if rows_sum:
                if min(row) < 0:
                    return False, f"mapping_matrix row {i} has a negative entry {float(min(row))}"
                if abs(sum(row) - 1) > sum_tol:
                    return False, f"mapping_matrix row {i} sums to {float(sum(row))}, not 1"
            # sparse encoding
            ln = uq["pix_lengths"][i]
            keys = uq["data_to_pix_unique"][i][:ln]
            vals = [F(v) for v in uq["data_weights"][i][:ln]]
            distinct = set()
            for sub in range(*blocks(subs)[i]):
                distinct |= set(maps[sub][: sizes[sub]])
            if len(keys) != len(set(keys)):
                return False, f"unique row {i} repeats a source pixel: {keys}"
            if set(keys) != distinct or ln != len(distinct):
                return False, f"unique row {i}: pixels {keys} (length {ln}) != distinct source pixels {sorted(distinct)}"
            dense = [F(0)] * pixels
            for kk, v in zip(keys, vals):
                dense[kk] += v
            for p in range(pixels):
                if abs(dense[p] - row[p]) > tol * max(1, abs(row[p])):
                    return False, (f"unique mappings of data pixel {i} encode {float(dense[p])} for source pixel {p}, "
                                   f"the mapping matrix has {float(row[p])}")
        return True, ""

    # ============================================================== bookkeeping
    def nontrivial(self, case, obs):
        kind = case["kind"]
        if kind in ("nbr", "bary", "nearest", "large"):
            return True
        if kind == "hist":
            return len(obs.get("reads", [])) >= 1 and all("err" not in r for r in obs["reads"])
        if kind == "tables":
            for (a, b) in blocks(case["sub_size"]):
                seen = [p for sub in range(a, b) for p in case["idx"][sub][: case["sizes"][sub]]]
                if len(seen) != len(set(seen)):
                    return True
            return False
        if "err" in obs:
            return False
        hit = {p for row, s in zip(obs["mappings"], obs["sizes"]) for p in row[:s]}
        return (len(case["sub_size"]) >= 2 or max(case["sub_size"]) > 1) and len(hit) >= 2

    def shrink(self, case):
        kind = case["kind"]
        if kind == "large":
            yield from self._shrink_large(case)
            return
        if kind == "hist":
            yield from self._shrink_hist(case)
            return
        if kind not in ("rect", "delaunay"):
            return
        if case.get("opts"):  # option crossings: towards the smallest failing combination
            o = case["opts"]
            for k in o:
                if k == "explicit_defaults":
                    for ep in o[k]:
                        yield {**case, "opts": {**o, k: [e for e in o[k] if e != ep]}}
                elif len(o) > 1:
                    yield {**case, "opts": {kk: vv for kk, vv in o.items() if kk != k}}
            if case.get("run_time_dict") not in (None, "none"):
                yield {**case, "run_time_dict": "none"}
        if case.get("lay") and len(case["lay"]) > 1:
            for k in case["lay"]:
                yield {**case, "lay": {kk: vv for kk, vv in case["lay"].items() if kk != k}}
        subs = case["sub_size"]
        bl = blocks(subs)
        grid = case["grid"]
        # lower one sub-size to 1 (keep the first point of the block)
        for i, s in enumerate(subs):
            if s > 1:
                a, b = bl[i]
                yield {**case, "sub_size": subs[:i] + [1] + subs[i + 1:], "grid": grid[:a + 1] + grid[b:],
                       "uniform_int_sub": False}
        # mask one unmasked pixel
        if len(subs) > 1:
            bits = case["mask"]["bits"]
            un = [k for k, c in enumerate(bits) if c == "0"]
            for i, k in enumerate(un):
                a, b = bl[i]
                yield {**case, "mask": {**case["mask"], "bits": bits[:k] + "1" + bits[k + 1:]},
                       "sub_size": subs[:i] + subs[i + 1:], "grid": grid[:a] + grid[b:], "uniform_int_sub": False}
        if kind == "delaunay" and len(case["points"]) > 3:
            for i in range(len(case["points"])):
                yield {**case, "points": case["points"][:i] + case["points"][i + 1:]}

    def sample_view(self, case):
        return {k: v for k, v in case.items() if not k.startswith("_")}

    # ============================================================== round 4: reuse histories (kind "hist")
    # A history is a list of typed steps on real library objects.  `worlds` are ordinary rect / delaunay case
    # dicts (plus "adapt", "reg"); every mapper is built for one world and every `read` of it is compared with
    # the model / judged by the oracle for a FRESH mapper of that world.  Objects (mask, sub-size array,
    # over-sampling config, over-sampler, grid, mesh config, vertex grid, mesh, adapt image, regularization,
    # run-time dict) are carried from world to world by `share` (unchanged), `edit` (changed in place through the
    # public __setitem__ / numpy on a caller-owned array) and `derive` (arithmetic / deepcopy).
    HIST_OBJS = ["mask", "sub", "oversampling", "over", "grid", "meshcfg", "pts", "mesh", "adapt", "reg", "rtd"]
    REGS = {
        "constant": lambda aa: aa.reg.Constant(coefficient=1.5),
        "constant_zeroth": lambda aa: aa.reg.ConstantZeroth(coefficient_neighbor=1.0, coefficient_zeroth=0.5),
        "zeroth": lambda aa: aa.reg.Zeroth(coefficient=0.5),
        "constant_split": lambda aa: aa.reg.ConstantSplit(coefficient=1.0),
        "adaptive": lambda aa: aa.reg.AdaptiveBrightness(inner_coefficient=1.0, outer_coefficient=0.25, signal_scale=1.5),
        "adaptive_split": lambda aa: aa.reg.AdaptiveBrightnessSplit(inner_coefficient=1.0, outer_coefficient=0.25,
                                                                    signal_scale=1.5),
        "brightness_zeroth": lambda aa: aa.reg.BrightnessZeroth(coefficient=1.0, signal_scale=1.0),
        "gauss": lambda aa: aa.reg.GaussianKernel(coefficient=1.0, scale=1.0),
        "exp": lambda aa: aa.reg.ExponentialKernel(coefficient=1.0, scale=1.0),
    }
    DECOYS = ["pixel_signals", "data_weight_total", "sub_slim_for_pix", "sub_slim_for_pix_arr", "pix_for_slim",
              "pix_for_slim_nested", "mapped_to_source", "split_cross", "interpolated", "interpolated_ext", "extent",
              "extent_plain", "edge_pixel_list", "mesh_split_cross", "mesh_voronoi", "mesh_voronoi_areas",
              "mesh_areas_split", "mesh_geometry", "mesh_neighbors", "mesh_pixels", "mesh_interp_grid",
              "image_plane_data_grid", "over_sampled_grid", "over_binned", "over_misc", "reg_weights",
              "delaunay_obj", "own_reg_matrix"] + [f"reg:{r}" for r in
                                                  ("constant", "constant_zeroth", "zeroth", "constant_split", "adaptive",
                                                   "adaptive_split", "brightness_zeroth", "gauss", "exp")]
    FAULTS = ["mapped_to_source_short", "pix_for_slim_oob", "interpolated_wrong_len", "pixel_signals_bad_adapt",
              "binned_wrong_len", "bad_world"]

    def _do_decoy(self, aa, name, mapper, W):
        """a sibling API / unrelated derived quantity of the objects involved; its value is not observed"""
        P = int(mapper.pixels)
        n = len(W["sub_size"])
        nsub = sum(s * s for s in W["sub_size"])
        vals = np.arange(P) * 0.25 + 0.5
        mesh = mapper.source_plane_mesh_grid
        if name.startswith("reg:"):
            mapper.regularization = self.REGS[name[4:]](aa)
            return mapper.regularization_matrix
        return {
            "pixel_signals": lambda: mapper.pixel_signals_from(signal_scale=1.5),
            "data_weight_total": lambda: mapper.data_weight_total_for_pix_from(),
            "sub_slim_for_pix": lambda: mapper.sub_slim_indexes_for_pix_index,
            "sub_slim_for_pix_arr": lambda: mapper.sub_slim_indexes_for_pix_index_arr,
            "pix_for_slim": lambda: mapper.pix_indexes_for_slim_indexes(pix_indexes=[0, P - 1]),
            "pix_for_slim_nested": lambda: mapper.pix_indexes_for_slim_indexes(pix_indexes=[[0], [P - 1, 1]]),
            "mapped_to_source": lambda: mapper.mapped_to_source_from(
                array=aa.Array2D(values=np.arange(n) * 0.5 + 1.0, mask=mapper.over_sampler.mask)),
            "split_cross": lambda: mapper.pix_sub_weights_split_cross,
            "interpolated": lambda: mapper.interpolated_array_from(values=vals, shape_native=(5, 4)),
            "interpolated_ext": lambda: mapper.interpolated_array_from(values=vals, shape_native=(3, 3),
                                                                     extent=(-1.0, 1.0, -1.0, 1.0)),
            "extent": lambda: mapper.extent_from(values=vals, zoom_to_brightest=True, zoom_percent=0.5),
            "extent_plain": lambda: mapper.extent_from(),
            "edge_pixel_list": lambda: mapper.edge_pixel_list,
            "mesh_split_cross": lambda: mesh.split_cross,
            "mesh_voronoi": lambda: mesh.voronoi,
            "mesh_voronoi_areas": lambda: mesh.voronoi_pixel_areas,
            "mesh_areas_split": lambda: mesh.voronoi_pixel_areas_for_split,
            "mesh_geometry": lambda: (mesh.geometry.extent, mesh.origin),
            "mesh_neighbors": lambda: (mesh.neighbors, mesh.neighbors.sizes),
            "mesh_pixels": lambda: (mesh.pixels, mapper.params, mapper.pixels),
            "mesh_interp_grid": lambda: mesh.interpolation_grid_from(shape_native=(3, 3)),
            "image_plane_data_grid": lambda: mapper.mapper_grids.image_plane_data_grid,
            "over_sampled_grid": lambda: mapper.over_sampler.over_sampled_grid,
            "over_binned": lambda: mapper.over_sampler.binned_array_2d_from(array=np.arange(nsub) * 1.0),
            "over_misc": lambda: (mapper.over_sampler.sub_total, mapper.over_sampler.sub_length,
                                  mapper.over_sampler.sub_pixel_areas,
                                  mapper.over_sampler.sub_mask_native_for_sub_mask_slim),
            "reg_weights": lambda: mapper.regularization.regularization_weights_from(linear_obj=mapper),
            "delaunay_obj": lambda: (mapper.delaunay.vertex_neighbor_vertices, mapper.delaunay.convex_hull),
            "own_reg_matrix": lambda: mapper.regularization_matrix,
        }[name]()

    def _do_fault(self, aa, name, mapper, W):
        """a call that raises in the middle of an operation on objects that are used again afterwards"""
        P = int(mapper.pixels)
        n = len(W["sub_size"])
        nsub = sum(s * s for s in W["sub_size"])
        if name == "mapped_to_source_short":
            from autoarray.inversion.pixelization.mappers import mapper_util
            return mapper_util.mapped_to_source_via_mapping_matrix_from(
                mapping_matrix=mapper.mapping_matrix, array_slim=np.arange(max(n - 1, 0)) * 1.0)
        if name == "pix_for_slim_oob":
            return mapper.pix_indexes_for_slim_indexes(pix_indexes=[0, P + 3])
        if name == "interpolated_wrong_len":
            return mapper.interpolated_array_from(values=np.arange(P + 2) * 1.0, shape_native=(4, 3))
        if name == "pixel_signals_bad_adapt":
            from autoarray.inversion.pixelization.mappers import mapper_util
            return mapper_util.adaptive_pixel_signals_from(
                pixels=P, signal_scale=1.0, pixel_weights=mapper.pix_weights_for_sub_slim_index,
                pix_indexes_for_sub_slim_index=mapper.pix_indexes_for_sub_slim_index,
                pix_size_for_sub_slim_index=mapper.pix_sizes_for_sub_slim_index,
                slim_index_for_sub_slim_index=mapper.over_sampler.slim_for_sub_slim,
                adapt_data=np.arange(max(n - 1, 0)) * 1.0 + 2.0)
        if name == "binned_wrong_len":
            return mapper.over_sampler.binned_array_2d_from(array=np.arange(max(nsub - 1, 0)) * 1.0)
        raise KeyError(name)

    def _hist_make(self, aa, W, name, o):
        """one fresh library object of world W (o = the objects of that world made / carried so far)"""
        kind = W["kind"]
        direct = W.get("route") == "direct"
        if name == "mask":
            m = np.array([c == "1" for c in W["mask"]["bits"]], dtype=bool).reshape(W["mask"]["h"], W["mask"]["w"])
            return aa.Mask2D(mask=m, pixel_scales=tuple(float(F(v)) for v in W["scales"]),
                             origin=tuple(float(F(v)) for v in W["origin"]))
        if name == "sub":
            if W.get("uniform_int_sub"):
                return int(W["sub_size"][0])
            return aa.Array2D(values=np.array(W["sub_size"], dtype=int), mask=o["mask"])
        if name == "oversampling":
            return aa.OverSamplingUniform(sub_size=o["sub"]) if W.get("over") == "sampling" else None
        if name == "over":
            if W.get("over") == "sampling":
                return o["oversampling"].over_sampler_from(mask=o["mask"])
            return aa.OverSamplerUniform(mask=o["mask"], sub_size=o["sub"])
        if name == "grid":
            raw = self._np(W["grid"], "float")
            if W.get("readonly"):
                raw.flags.writeable = False
            return raw if W.get("grid_container") == "ndarray" else aa.Grid2DIrregular(values=raw)
        if name == "meshcfg":
            if direct:
                return None
            if kind == "rect":
                shp = (W["h"], W["w"]) if W.get("shape_container") != "list" else [W["h"], W["w"]]
                return aa.mesh.Rectangular(shape=shp)
            return aa.mesh.Delaunay()
        if name == "pts":
            if kind == "rect" or direct:
                return None
            raw = self._np(W["points"], "float")
            if W.get("readonly"):
                raw.flags.writeable = False
            return aa.Grid2DIrregular(values=raw)
        if name == "mesh":
            if not direct:
                return None
            if kind == "rect":
                return aa.Mesh2DRectangular.overlay_grid(shape_native=(W["h"], W["w"]), grid=o["grid"])
            return aa.Mesh2DDelaunay(values=self._np(W["points"], "float"))
        if name == "adapt":
            if W.get("adapt") is None:
                return None
            vals = np.array([float(F(v)) for v in W["adapt"]])
            if W.get("readonly"):
                vals.flags.writeable = False
            return aa.Array2D(values=vals, mask=o["mask"])
        if name == "reg":
            return self.REGS[W["reg"]](aa) if W.get("reg") else None
        if name == "rtd":
            return {} if W.get("run_time_dict") == "empty" else None
        raise KeyError(name)

    def _hist_build(self, aa, W, o):
        for name in self.HIST_OBJS:
            if name not in o:
                o[name] = self._hist_make(aa, W, name, o)
        if W.get("route") == "direct":
            mg = aa.MapperGrids(mask=o["mask"], source_plane_data_grid=o["grid"], source_plane_mesh_grid=o["mesh"],
                                adapt_data=o["adapt"], run_time_dict=o["rtd"])
            cls = aa.MapperRectangular if W["kind"] == "rect" else aa.MapperDelaunay
            return cls(mapper_grids=mg, over_sampler=o["over"], border_relocator=None, regularization=o["reg"],
                       run_time_dict=o["rtd"])
        kw = {} if W["kind"] == "rect" else {"source_plane_mesh_grid": o["pts"]}
        mg = o["meshcfg"].mapper_grids_from(mask=o["mask"], border_relocator=None, source_plane_data_grid=o["grid"],
                                            adapt_data=o["adapt"], run_time_dict=o["rtd"], **kw)
        return aa.Mapper(mapper_grids=mg, over_sampler=o["over"], regularization=o["reg"], run_time_dict=o["rtd"])

    def _hist_edit(self, aa, obj, target, Wd, via):
        """change `target` IN PLACE to the values of world Wd (public __setitem__, or numpy on a caller-owned array)"""
        if obj in ("grid", "pts", "mesh"):
            new = self._np(Wd["grid"] if obj == "grid" else Wd["points"], "float")
            cur = np.array(target, dtype=float)
            for k in np.flatnonzero(np.any(cur != new, axis=1)):
                target[int(k)] = new[k]
        elif obj == "sub":
            cur = np.array(target)
            for k, v in enumerate(Wd["sub_size"]):
                if int(cur[k]) != v:
                    target[k] = v
        elif obj == "mask":
            new = np.array([c == "1" for c in Wd["mask"]["bits"]], dtype=bool).reshape(Wd["mask"]["h"], Wd["mask"]["w"])
            cur = np.array(target, dtype=bool)
            for y, x in np.argwhere(cur != new):
                target[int(y), int(x)] = bool(new[y, x])
        elif obj == "adapt":
            new = [float(F(v)) for v in Wd["adapt"]]
            cur = np.array(target, dtype=float)
            for k, v in enumerate(new):
                if cur[k] != v:
                    target[k] = v
        else:
            raise KeyError(obj)

    def _run_hist(self, aa, case):
        with _ConfigGuard() as guard:  # configuration changed by `config` steps is restored, also on exceptions
            return self._run_hist_inner(aa, case, guard)

    def _scribble(self, mapper, objs, how):
        """ownership histories (R5-B): overwrite, in place, every array the API returned for this mapper and every
        array it accepted; returns how many arrays were overwritten"""
        targets = []
        d = mapper.__dict__
        for name in ("pix_sub_weights", "unique_mappings", "mapping_matrix", "pix_indexes_for_sub_slim_index",
                     "pix_sizes_for_sub_slim_index", "pix_weights_for_sub_slim_index"):
            if name in d:  # (cached: only what has been handed out already)
                v = d[name]
                if name == "pix_sub_weights":
                    targets += [v.mappings, v.sizes, v.weights]
                elif name == "unique_mappings":
                    targets += [v.data_to_pix_unique, v.data_weights, v.pix_lengths]
                else:
                    targets.append(v)
        mesh = mapper.source_plane_mesh_grid
        md = getattr(mesh, "__dict__", {})
        if "neighbors" in md:
            targets += [np.asarray(md["neighbors"]), md["neighbors"].sizes]
        if "delaunay" in md:
            try:
                targets += [md["delaunay"].simplices, md["delaunay"].points]
            except Exception:
                pass
        over = mapper.over_sampler
        od = getattr(over, "__dict__", {})
        if "slim_for_sub_slim" in od:
            targets.append(od["slim_for_sub_slim"])
        targets += [over.sub_size, mesh, mapper.source_plane_data_grid, mapper.mapper_grids.adapt_data]
        targets += [objs.get(k) for k in ("grid", "pts", "sub", "adapt", "mask", "mesh")]
        done, seen = 0, set()
        for t in targets:
            if t is None or id(t) in seen:
                continue
            seen.add(id(t))
            done += bool(self._scribble_array(t, how))
        return done

    def _run_hist_inner(self, aa, case, guard):
        import copy as _copy

        worlds = case["worlds"]
        objs = [dict() for _ in worlds]
        mappers = {}
        reads, notes = [], []
        for st in case["steps"]:
            op = st["op"]
            if op == "config":
                for name, value in st["set"].items():
                    if not guard.set(name, value):
                        notes.append(f"config:{name} not available")
            elif op == "scribble":
                mp, w = mappers[st["m"]]
                notes.append(f"scribble:{self._scribble(mp, objs[w], st.get('how', 'nan'))}")
            elif op == "touch":
                # a library call that reads the configuration while a flipped value is in force (its value is not
                # observed): an Array2D / Grid2D construction and a binning
                try:
                    mk = aa.Mask2D(mask=np.array([[False, True], [False, False]]), pixel_scales=1.0)
                    a2 = aa.Array2D(values=np.array([1.0, 2.0, 3.0]), mask=mk)
                    aa.Grid2D.from_mask(mask=mk)
                    aa.OverSamplingUniform(sub_size=1)
                    notes.append(f"touch:{type(a2).__name__}")
                except Exception as e:
                    notes.append(f"touch: {type(e).__name__}")
            elif op == "build":
                W = worlds[st["w"]]
                mappers[st["m"]] = (self._hist_build(aa, W, objs[st["w"]]), st["w"])
            elif op == "share":
                for name in st["objs"]:
                    if name in objs[st["src"]]:
                        objs[st["dst"]][name] = objs[st["src"]][name]
            elif op == "edit":
                target = objs[st["src"]][st["obj"]]
                self._hist_edit(aa, st["obj"], target, worlds[st["dst"]], st.get("via"))
                objs[st["dst"]][st["obj"]] = target
            elif op == "derive":
                src = objs[st["src"]][st["obj"]]
                if st["how"] == "deepcopy":
                    new = _copy.deepcopy(src)
                elif st["how"] == "copy":
                    new = _copy.copy(src)
                elif st["how"] == "add":
                    new = src + np.array([float(F(v)) for v in st["arg"]])
                elif st["how"] == "mul":
                    new = src * float(F(st["arg"]))
                elif st["how"] == "slice":
                    new = src[:]
                else:
                    raise KeyError(st["how"])
                objs[st["dst"]][st["obj"]] = new
            elif op == "decoy":
                mp, w = mappers[st["m"]]
                try:
                    self._do_decoy(aa, st["what"], mp, worlds[w])
                except Exception as e:  # availability differs per mesh type; the value is not observed
                    notes.append(f"{st['what']}: {type(e).__name__}")
            elif op == "fault":
                try:
                    if st["what"] == "bad_world":
                        o = objs[st["w"]]
                        mp = self._hist_build(aa, worlds[st["w"]], o)
                        for attr in st.get("order") or ("mapping_matrix", "unique_mappings", "pix_sub_weights"):
                            try:  # every observable on its own: each one is interrupted part-way
                                getattr(mp, attr)
                                notes.append(f"bad_world.{attr}: no exception")
                            except Exception as e:
                                notes.append(f"bad_world.{attr}: {type(e).__name__}")
                    else:
                        mp, w = mappers[st["m"]]
                        self._do_fault(aa, st["what"], mp, worlds[w])
                        notes.append(f"{st['what']}: no exception")
                except Exception as e:
                    notes.append(f"{st['what']}: {type(e).__name__}")
            elif op == "read":
                mp, w = mappers[st["m"]]
                W = worlds[w]
                g = self._np(W["grid"], "float")
                try:
                    reads.append(self._observe(W["kind"], mp, objs[w]["over"], g,
                                               order=tuple(st.get("order") or ("psw", "um", "nb", "mm"))))
                except Exception as e:
                    reads.append({"err": type(e).__name__, "msg": str(e)[:300]})
            else:
                raise KeyError(op)
        return {"reads": reads, "notes": notes}

    @staticmethod
    def _hist_read_worlds(case):
        """the world every `read` step refers to (in order)"""
        where, out = {}, []
        for st in case["steps"]:
            if st["op"] == "build":
                where[st["m"]] = st["w"]
            elif st["op"] == "read":
                out.append(case["worlds"][where[st["m"]]])
        return out

    def _hist_requests(self, case, obs):
        reqs = []
        for W, r in zip(self._hist_read_worlds(case), obs["reads"]):
            if "err" in r:
                return []
            reqs.extend(self.model_requests(W, r))
        return reqs

    def _hist_compare(self, case, impl, model, cmp):
        ws = self._hist_read_worlds(case)
        if len(impl["reads"]) != len(ws):
            return f"history produced {len(impl['reads'])} reads, expected {len(ws)}"
        skipped = 0
        for k, (W, r, mo) in enumerate(zip(ws, impl["reads"], model)):
            try:
                d = self.compare(W, r, mo, cmp)
            except Skip:
                skipped += 1
                continue
            if d:
                return f"history read #{k} ({W['kind']} world): {d}"
        if skipped == len(ws):
            raise Skip("every read within 1e-11 of a cell boundary")
        return None

    def _hist_oracle(self, case, obs):
        ws = self._hist_read_worlds(case)
        if len(obs["reads"]) != len(ws):
            return False, f"history produced {len(obs['reads'])} reads, expected {len(ws)}"
        for k, (W, r) in enumerate(zip(ws, obs["reads"])):
            ok, why = self.oracle(W, r)
            if not ok:
                done = [s["op"] + (":" + str(s.get("what") or s.get("obj") or s.get("m") or ",".join(s.get("objs", []))))
                        for s in case["steps"]]
                return False, (f"history read #{k} (a mapper of world {case['worlds'].index(W)} after "
                               f"{' > '.join(done)}): {why}")
        return True, ""

    def _shrink_hist(self, case):
        steps = case["steps"]
        n_reads = sum(1 for s in steps if s["op"] == "read")
        for i, st in enumerate(steps):
            if st["op"] in ("decoy", "fault", "config", "touch", "scribble") or (st["op"] == "read" and n_reads > 1):
                yield {**case, "steps": steps[:i] + steps[i + 1:]}

    # ---- history generators
    def _h_world(self, rng, mesher, force=None, inside=False):
        force = dict(force or {}, no_int=True)
        for _ in range(40):
            W = self._rect_case(rng, 0, force) if mesher == "rect" else self._delaunay_case(rng, 0, force)
            if "hw" in force and (W["h"], W["w"]) != tuple(force["hw"]):
                if "ms" in force:
                    raise _Retry()
                continue
            if inside and mesher == "delaunay":
                pts = [(F(a), F(b)) for a, b in W["points"]]
                hull = convex_hull(pts)
                if not any(all(orient(pts[hull[i]], pts[hull[(i + 1) % len(hull)]], (F(p[0]), F(p[1]))) > 0
                               for i in range(len(hull))) for p in W["grid"]):
                    continue
            break
        else:
            if "hw" in force:
                raise _Retry()
        W = {k: v for k, v in W.items() if k != "tag"}
        W["dtype"] = "float"
        W["adapt"] = qlist([gen.pos_dyadic(rng, 1, 6, 2) for _ in W["sub_size"]])
        regs = [r for r in self.REGS if mesher == "delaunay" or "split" not in r]
        W["reg"] = rng.choice(regs + [None])
        return W

    @staticmethod
    def _order(rng):
        o = ["psw", "um", "nb", "mm"]
        rng.shuffle(o)
        return o

    def _carry(self, W, exclude=()):
        """names of the objects that can be carried unchanged to a world that differs only in `exclude`d inputs"""
        down = {"mask": {"mask", "sub", "oversampling", "over", "adapt"}, "sub": {"sub", "oversampling", "over"},
                "grid": {"grid"} | ({"mesh"} if W["kind"] == "rect" else set()), "pts": {"pts", "mesh"},
                "adapt": {"adapt"}}
        drop = set()
        for e in exclude:
            drop |= down[e]
        return [n for n in self.HIST_OBJS if n not in drop]

    def _h_decoy(self, rng, mesher, decoy):
        W = self._h_world(rng, mesher, inside=True)
        steps = [{"op": "build", "m": "A", "w": 0}]
        if rng.random() < 0.35:
            steps.append({"op": "read", "m": "A", "order": self._order(rng)})
        names = [decoy] + [rng.choice(self.DECOYS) for _ in range(rng.choice([0, 0, 1, 2]))]
        if rng.random() < 0.3:  # two sibling regularization schemes on the same mapper, either order
            names += [f"reg:{r}" for r in rng.sample(sorted(self.REGS), 2)]
        rng.shuffle(names)
        steps += [{"op": "decoy", "m": "A", "what": d} for d in names]
        steps.append({"op": "read", "m": "A", "order": self._order(rng)})
        return {"tag": f"hist_decoy_{mesher}", "kind": "hist", "worlds": [W], "steps": steps}

    def _new_point(self, rng, W):
        ys = [F(p[0]) for p in W["grid"]]
        xs = [F(p[1]) for p in W["grid"]]
        lo_y, hi_y, lo_x, hi_x = min(ys), max(ys), min(xs), max(xs)
        if W["kind"] == "delaunay" or rng.random() < 0.3:  # also outside the present extent
            lo_y, hi_y, lo_x, hi_x = lo_y - 1, hi_y + 1, lo_x - 1, hi_x + 1
        return (rnd(lo_y + (hi_y - lo_y) * F(rng.randint(0, 1 << 12), 1 << 12) + F(rng.randint(-8, 8), 1 << 14)),
                rnd(lo_x + (hi_x - lo_x) * F(rng.randint(0, 1 << 12), 1 << 12) + F(rng.randint(-8, 8), 1 << 14)))

    def _h_edit(self, rng):
        mesher = rng.choice(["rect", "delaunay"])
        what = rng.choice(["grid", "grid", "grid_numpy", "sub", "mask", "adapt", "deepcopy"] +
                          (["pts", "pts"] if mesher == "delaunay" else ["grid"]))
        W0 = self._h_world(rng, mesher, force={"style": "distort"} if mesher == "rect" else None)
        W0["grid_container"] = "ndarray" if what == "grid_numpy" else "irregular"
        if what in ("sub", "mask"):
            W0["uniform_int_sub"] = False
        W1 = {**W0}
        bl = blocks(W0["sub_size"])
        pre = [{"op": "build", "m": "A", "w": 0}, {"op": "read", "m": "A", "order": self._order(rng)}]
        post = [{"op": "build", "m": "B", "w": 1}, {"op": "read", "m": "B", "order": self._order(rng)}]
        if what in ("grid", "grid_numpy", "deepcopy"):
            g = list(W0["grid"])
            for k in rng.sample(range(len(g)), min(len(g), rng.choice([1, 1, 2, 3]))):
                g[k] = qlist(self._new_point(rng, W0))
            W1["grid"] = g
            ys, xs = {p[0] for p in g}, {p[1] for p in g}
            if mesher == "rect" and (len(ys) < 2 or len(xs) < 2):
                W1["grid"] = W0["grid"]  # (a degenerate extent would need different mesh sides)
            if what == "deepcopy":
                mid = [{"op": "derive", "obj": "grid", "src": 0, "dst": 1, "how": "deepcopy"},
                       {"op": "edit", "obj": "grid", "src": 1, "dst": 1, "via": "setitem"},
                       {"op": "share", "src": 0, "dst": 1, "objs": self._carry(W0, ["grid"])}]
                post = post + [{"op": "read", "m": "A", "order": self._order(rng)}]
            else:
                mid = [{"op": "edit", "obj": "grid", "src": 0, "dst": 1,
                        "via": "numpy" if what == "grid_numpy" else "setitem"},
                       {"op": "share", "src": 0, "dst": 1, "objs": self._carry(W0, ["grid"])}]
        elif what == "sub":
            i = rng.randrange(len(W0["sub_size"]))
            s_new = rng.choice([s for s in (1, 2, 3, 4) if s != W0["sub_size"][i]])
            a, b = bl[i]
            W1["sub_size"] = W0["sub_size"][:i] + [s_new] + W0["sub_size"][i + 1:]
            W1["grid"] = W0["grid"][:a] + [qlist(self._new_point(rng, W0)) for _ in range(s_new * s_new)] + W0["grid"][b:]
            if mesher == "rect":  # keep the extent pinned by the old points where possible
                W1["grid"][a] = W0["grid"][a]
            mid = [{"op": "edit", "obj": "sub", "src": 0, "dst": 1, "via": "setitem"},
                   {"op": "share", "src": 0, "dst": 1, "objs": self._carry(W0, ["sub", "grid"]) + ["sub"]}]
        elif what == "mask":
            bits = W0["mask"]["bits"]
            un = [k for k, c in enumerate(bits) if c == "0"]
            ms = [k for k, c in enumerate(bits) if c == "1"]
            if ms and (len(un) < 2 or rng.random() < 0.5):  # unmask one pixel
                k = rng.choice(ms)
                i = sum(1 for u in un if u < k)
                s_new = rng.randint(1, 3)
                a = bl[i][0] if i < len(bl) else len(W0["grid"])
                W1["mask"] = {**W0["mask"], "bits": bits[:k] + "0" + bits[k + 1:]}
                W1["sub_size"] = W0["sub_size"][:i] + [s_new] + W0["sub_size"][i:]
                W1["grid"] = W0["grid"][:a] + [qlist(self._new_point(rng, W0)) for _ in range(s_new * s_new)] + W0["grid"][a:]
                W1["adapt"] = W0["adapt"][:i] + [q(gen.pos_dyadic(rng, 1, 6, 2))] + W0["adapt"][i:]
            elif len(un) >= 2:  # mask one pixel
                i = rng.randrange(len(un))
                a, b = bl[i]
                W1["mask"] = {**W0["mask"], "bits": bits[:un[i]] + "1" + bits[un[i] + 1:]}
                W1["sub_size"] = W0["sub_size"][:i] + W0["sub_size"][i + 1:]
                W1["grid"] = W0["grid"][:a] + W0["grid"][b:]
                W1["adapt"] = W0["adapt"][:i] + W0["adapt"][i + 1:]
            ys, xs = {p[0] for p in W1["grid"]}, {p[1] for p in W1["grid"]}
            if mesher == "rect" and (len(ys) < 2 or len(xs) < 2):
                W1 = {**W0}
            mid = [{"op": "edit", "obj": "mask", "src": 0, "dst": 1, "via": "setitem"},
                   {"op": "share", "src": 0, "dst": 1, "objs": self._carry(W0, ["mask", "grid"]) + ["mask"]}]
        elif what == "pts":
            pts = [(F(a), F(b)) for a, b in W0["points"]]
            for _ in range(30):
                k = rng.randrange(len(pts))
                cand = list(pts)
                cand[k] = (pts[k][0] + gen.dyadic(rng, -1, 1, 6), pts[k][1] + gen.dyadic(rng, -1, 1, 6))
                if general_position(cand):
                    pts = cand
                    break
            W1["points"] = [qlist(p) for p in pts]
            if W0.get("route") == "direct":
                # a Mesh2DDelaunay nothing has been read from yet: edit before the first read
                pre = [{"op": "build", "m": "A", "w": 0}]
                mid = [{"op": "edit", "obj": "mesh", "src": 0, "dst": 1, "via": "setitem"},
                       {"op": "share", "src": 0, "dst": 1, "objs": self._carry(W0, [])}]
            else:
                mid = [{"op": "edit", "obj": "pts", "src": 0, "dst": 1, "via": "setitem"},
                       {"op": "share", "src": 0, "dst": 1, "objs": self._carry(W0, ["pts"]) + ["pts"]}]
        else:  # adapt image edited in place between two reads of the SAME mapper
            W1["adapt"] = qlist([gen.pos_dyadic(rng, 1, 6, 2) for _ in W0["sub_size"]])
            mid = [{"op": "edit", "obj": "adapt", "src": 0, "dst": 1, "via": "setitem"},
                   {"op": "decoy", "m": "A", "what": rng.choice(["pixel_signals", "reg:adaptive", "reg:brightness_zeroth"])}]
            post = [{"op": "read", "m": "A", "order": self._order(rng)}]
        return {"tag": f"hist_edit_{mesher}", "flavour": what, "kind": "hist", "worlds": [W0, W1], "steps": pre + mid + post}

    def _hug_twin(self, rng, n, h, w):
        """two grids for an h x w overlay.  Their extents differ by 2^-18..2^-17 RELATIVE to the extreme coordinates
        (inside np.allclose's default tolerance, ~1e4 x the property's 1e-9), so the cell boundaries of the two
        overlays differ by ~1e-6 cells; the other points sit 2^-23 cells from the first overlay's boundaries (on
        opposite sides in the two grids): a mesh or a cell table kept from the twin puts them in the wrong cell."""
        a, b = rng.choice([F(1), F(3, 2), F(2), F(3)]), rng.choice([F(1), F(3, 2), F(2), F(3)])
        y0 = gen.dyadic(rng, 1, 4, 2) if rng.random() < 0.5 else -h * a - gen.dyadic(rng, 1, 4, 2)
        x0 = gen.dyadic(rng, 1, 4, 2) if rng.random() < 0.5 else -w * b - gen.dyadic(rng, 1, 4, 2)
        eps = F(1, 1 << 23)
        ext = [y0, x0, y0 + h * a, x0 + w * b]  # all of magnitude >= 1
        dl = [F(rng.choice([-2, -1, 0, 1, 2]), 1 << 18) * abs(v) for v in ext]
        if not any(dl):
            dl[rng.randrange(4)] = F(1, 1 << 18) * abs(ext[0])
        if rng.random() < 0.1:
            dl = [F(0)] * 4  # identical extents: only the interior points differ
        g0 = [(ext[0], ext[1]), (ext[2], ext[3])]
        g1 = [(rnd(ext[0] + dl[0], 40), rnd(ext[1] + dl[1], 40)), (rnd(ext[2] + dl[2], 40), rnd(ext[3] + dl[3], 40))]
        while len(g0) < n:
            ky, kx = rng.randint(1, h - 1), rng.randint(1, w - 1)
            dy = rng.choice([-1, 1]) * eps * a * rng.choice([1, 2])
            dx = rng.choice([-1, 1]) * eps * b * rng.choice([1, 2])
            if rng.random() < 0.3:
                dy = F(rng.randint(1, 15), 16) * a  # well inside a cell: not mirrored
            g0.append((y0 + ky * a + dy, x0 + kx * b + dx))
            g1.append((y0 + ky * a - dy if abs(dy) < a / 64 else y0 + ky * a + dy, x0 + kx * b - dx))
        perm = list(range(len(g0)))
        rng.shuffle(perm)
        g0, g1 = [g0[i] for i in perm], [g1[i] for i in perm]
        return g0[:n], g1[:n]

    def _h_twin(self, rng):
        mesher = rng.choice(["rect", "delaunay"])
        flavour = rng.choice(["near", "near", "sameshape"] + (["tiny"] if mesher == "delaunay" else ["near"]))
        if mesher == "rect":
            for _ in range(50):
                W0 = self._h_world(rng, "rect", force={"style": "distort"})
                if len(W0["grid"]) >= 4:
                    break
            n = len(W0["grid"])
            if flavour == "sameshape" or n < 4:
                W1 = self._h_world(rng, "rect", force={"style": "distort", "hw": (W0["h"], W0["w"]),
                                                       "ms": (mask_from_bits(W0["mask"]), W0["mask_kind"], W0["sub_size"])})
                for k in ("uniform_int_sub", "over", "route", "shape_container", "run_time_dict", "reg", "scales", "origin"):
                    W1[k] = W0[k]
            else:
                g0, g1 = self._hug_twin(rng, n, W0["h"], W0["w"])
                W0["grid"] = [qlist(p) for p in g0]
                W0["degenerate_extent"] = False
                W1 = {**W0, "grid": [qlist(p) for p in g1]}
            carry = self._carry(W0, ["grid"])
        else:
            W0 = self._h_world(rng, "delaunay", inside=True)
            if flavour == "sameshape":
                W1 = self._h_world(rng, "delaunay", force={
                    "ms": (mask_from_bits(W0["mask"]), W0["mask_kind"], W0["sub_size"])}, inside=True)
                for k in ("uniform_int_sub", "over", "route", "run_time_dict", "reg", "scales", "origin"):
                    W1[k] = W0[k]
            else:
                sc = F(1, 1 << 30) if flavour == "tiny" else F(1)
                pts = [(F(a) * sc, F(b) * sc) for a, b in W0["points"]]
                grid = [(F(a) * sc, F(b) * sc) for a, b in W0["grid"]]
                W0["points"], W0["grid"] = [qlist(p) for p in pts], [qlist(p) for p in grid]
                d = F(1, 1 << 34) if flavour == "tiny" else F(1, 1 << 20)

                def nudge(v):
                    # "near": relative 2^-20..2^-18 (inside allclose's rtol=1e-5); coordinates close to zero move
                    # by < 1e-8 (inside its atol).  "tiny": the whole world is ~1e-9 and moves by ~1e-10.
                    if flavour == "tiny":
                        return v + rng.choice([-1, 1]) * d * rng.choice([1, 2, 4])
                    if abs(v) < F(1, 16):
                        return v + rng.choice([-1, 0, 1]) * F(1, 1 << 28)
                    return rnd(v + rng.choice([-1, 1]) * d * abs(v) * rng.choice([1, 2, 4]), 44)

                for _ in range(30):
                    p1 = [(nudge(y), nudge(x)) for (y, x) in pts]
                    if general_position(p1):
                        break
                else:
                    p1 = pts
                g1 = [(nudge(y), nudge(x)) for (y, x) in grid] if rng.random() < 0.5 else grid
                W1 = {**W0, "points": [qlist(p) for p in p1], "grid": [qlist(p) for p in g1]}
            carry = self._carry(W0, ["grid", "pts"])
        ws = [W0, W1] if rng.random() < 0.5 else [W1, W0]
        steps = [{"op": "build", "m": "A", "w": 0}, {"op": "read", "m": "A", "order": self._order(rng)},
                 {"op": "share", "src": 0, "dst": 1, "objs": carry},
                 {"op": "build", "m": "B", "w": 1}, {"op": "read", "m": "B", "order": self._order(rng)}]
        if rng.random() < 0.3:
            steps.append({"op": "read", "m": "A", "order": self._order(rng)})
        return {"tag": f"hist_twin_{mesher}", "flavour": flavour, "kind": "hist", "worlds": ws, "steps": steps}

    def _h_fault(self, rng):
        mesher = rng.choice(["rect", "delaunay"])
        W0 = self._h_world(rng, mesher, force={"style": "distort"} if mesher == "rect" else None, inside=True)
        if rng.random() < 0.3:
            W0["readonly"] = True
        what = rng.choice(self.FAULTS)
        worlds = [W0, {**W0}]
        steps = [{"op": "build", "m": "A", "w": 0}]
        if rng.random() < 0.4:
            steps.append({"op": "read", "m": "A", "order": self._order(rng)})
        if what == "bad_world":
            bad = {**W0, "grid": W0["grid"][:-1]}  # one source-plane position missing: fails part-way
            worlds.append(bad)
            steps += [{"op": "share", "src": 0, "dst": 2, "objs": self._carry(W0, ["grid"])},
                      {"op": "fault", "what": "bad_world", "w": 2,
                       "order": rng.sample(["mapping_matrix", "unique_mappings", "pix_sub_weights", "neighbors"], 4)}]
        else:
            steps.append({"op": "fault", "m": "A", "what": what})
        steps += [{"op": "read", "m": "A", "order": self._order(rng)},
                  {"op": "share", "src": 0, "dst": 1, "objs": self._carry(W0, rng.choice([["grid"], [], ["grid", "pts"]]))},
                  {"op": "build", "m": "B", "w": 1}, {"op": "read", "m": "B", "order": self._order(rng)}]
        return {"tag": f"hist_fault_{mesher}", "flavour": what, "kind": "hist", "worlds": worlds, "steps": steps}

    def _h_shared(self, rng):
        mesher = rng.choice(["rect", "delaunay"])
        what = rng.choice(["config", "config", "oversampling", "mask_over"] + (["mesh"] if mesher == "delaunay" else ["config"]))
        base = {"style": "distort", "hw": (rng.choice([3, 5]), rng.choice([3, 5]))} if mesher == "rect" else {}
        f1 = dict(base)
        if what == "oversampling":
            s = rng.randint(1, 3)
            ms = []
            while len(ms) < 2:
                m, kind, subs = self._mask_subs(rng)
                if len(subs) * s * s <= 64:
                    ms.append((m, kind, [s] * len(subs)))
            W0 = self._h_world(rng, mesher, force=dict(base, ms=ms[0]))
            W1 = self._h_world(rng, mesher, force=dict(base, ms=ms[1]))
            for W_ in (W0, W1):
                W_["uniform_int_sub"], W_["over"] = True, "sampling"
            names = ["sub", "oversampling", "meshcfg", "reg", "rtd"]
            W0["route"] = "mesh"
            return self._h_shared_finish(rng, mesher, what, W0, W1, names)
        W0 = self._h_world(rng, mesher, force=base)
        if what != "mesh":
            W0["route"] = "mesh"
        if what == "mask_over":
            W1 = self._h_world(rng, mesher, force=dict(f1, ms=(mask_from_bits(W0["mask"]), W0["mask_kind"], W0["sub_size"])))
            for k in ("uniform_int_sub", "over", "scales", "origin"):
                W1[k] = W0[k]
            names = ["mask", "sub", "oversampling", "over", "meshcfg", "reg", "rtd"]
        elif what == "mesh":
            W0["route"] = "direct"
            W1 = self._h_world(rng, mesher, force={"pts": [(F(a), F(b)) for a, b in W0["points"]]})
            W1["route"] = "direct"
            names = ["mesh", "reg", "rtd"]
        else:
            W1 = self._h_world(rng, mesher, force=f1)
            names = ["meshcfg", "reg", "rtd"]
        return self._h_shared_finish(rng, mesher, what, W0, W1, names)

    def _h_shared_finish(self, rng, mesher, what, W0, W1, names):
        for k in ("route", "shape_container", "run_time_dict", "reg"):
            if k in W0:
                W1[k] = W0[k]
        if mesher == "rect":
            assert (W0["h"], W0["w"]) == (W1["h"], W1["w"])
        if W0.get("run_time_dict") != "empty" and rng.random() < 0.5:
            W0["run_time_dict"] = W1["run_time_dict"] = "empty"
        sh = {"op": "share", "src": 0, "dst": 1, "objs": names}
        bA, rA = {"op": "build", "m": "A", "w": 0}, {"op": "read", "m": "A", "order": self._order(rng)}
        bB, rB = {"op": "build", "m": "B", "w": 1}, {"op": "read", "m": "B", "order": self._order(rng)}
        steps = rng.choice([[bA, sh, bB, rB, rA], [bA, rA, sh, bB, rB], [bA, sh, bB, rA, rB, dict(rA)]])
        ws = [W0, W1] if rng.random() < 0.5 else [W1, W0]
        return {"tag": f"hist_shared_{mesher}", "flavour": what, "kind": "hist", "worlds": ws, "steps": steps}

    def _h_derive(self, rng):
        mesher = rng.choice(["rect", "delaunay"])
        W0 = self._h_world(rng, mesher, force={"style": "distort"} if mesher == "rect" else None, inside=True)
        how = rng.choice(["add", "mul", "deepcopy", "copy", "slice"])
        obj = "grid"
        if mesher == "delaunay" and rng.random() < 0.5:
            obj = "mesh"
            W0["route"] = "direct"
        else:
            W0["grid_container"] = "irregular"
        key = "grid" if obj == "grid" else "points"
        vals = [(F(a), F(b)) for a, b in W0[key]]
        st = {"op": "derive", "obj": obj, "src": 0, "dst": 1, "how": how}
        if how == "add":
            sh = (gen.dyadic(rng, -2, 2, 3), gen.dyadic(rng, -2, 2, 3))
            st["arg"] = qlist(sh)
            vals = [(y + sh[0], x + sh[1]) for y, x in vals]
        elif how == "mul":
            k = rng.choice([F(1, 2), F(2), F(-1), F(1, 4)])
            st["arg"] = q(k)
            vals = [(y * k, x * k) for y, x in vals]
        W1 = {**W0, key: [qlist(p) for p in vals]}
        steps = [{"op": "build", "m": "A", "w": 0}, {"op": "read", "m": "A", "order": self._order(rng)},
                 {"op": "decoy", "m": "A", "what": rng.choice(self.DECOYS)}, st,
                 {"op": "share", "src": 0, "dst": 1, "objs": self._carry(W0, ["grid"] if obj == "grid" else ["pts"])},
                 {"op": "build", "m": "B", "w": 1}, {"op": "read", "m": "B", "order": self._order(rng)},
                 {"op": "read", "m": "A", "order": self._order(rng)}]
        return {"tag": f"hist_derive_{mesher}", "flavour": f"{how}_{obj}", "kind": "hist", "worlds": [W0, W1], "steps": steps}

    N_HIST = {"quick": {"decoy": 1, "edit": 48, "twin": 48, "fault": 36, "shared": 40, "derive": 30},
              "thorough": {"decoy": 6, "edit": 400, "twin": 400, "fault": 300, "shared": 320, "derive": 240}}

    def _history_cases(self, tier, rng):
        nh = self.N_HIST["quick" if tier == "quick" else "thorough"]
        for _ in range(nh["decoy"]):
            for mesher in ("rect", "delaunay"):
                for d in self.DECOYS:
                    yield self._h_decoy(rng, mesher, d)
        for name, fn in (("edit", self._h_edit), ("twin", self._h_twin), ("fault", self._h_fault),
                         ("shared", self._h_shared), ("derive", self._h_derive)):
            for _ in range(nh[name]):
                for _try in range(20):
                    try:
                        yield fn(rng)
                        break
                    except _Retry:
                        continue

    # ============================================================== round 4: size-directed cases (kind "large")
    LARGE_MAX_HINT = 70000      # larger constants are not feasible in pure Python within the budget
    LARGE_MAX_SUB = 170000      # cap on the total number of sub-pixels of one large case
    LARGE_MAX_ENTRIES = 3_000_000  # cap on rows x columns of a dense mapping matrix

    def generate_large(self, hints, rng):
        """for every new integer constant c of the anchored source: mapper cases (rectangular and Delaunay, public
        API) and raw-table cases whose total sub-pixels, unmasked pixels, frame pixels / rows / columns, mesh
        pixels / mesh rows / mesh columns / Delaunay vertices and dense-matrix entries are c + c//3 + 1, c, c+1,
        c-1 and 2c+1.  Round-robin over the hints so that one hint cannot use up the budget."""
        gens = [self._large_for_hint(c, rng.randrange(1 << 20)) for c in sorted(set(hints))
                if 8 <= c <= self.LARGE_MAX_HINT]
        while gens:
            for g in list(gens):
                got = list(itertools.islice(g, 10))
                if not got:
                    gens.remove(g)
                yield from got

    def _large_case(self, c, t, dim, mesher, seed, **kw):
        """one recipe; returns None when the combination is not feasible."""
        rs = np.random.default_rng([seed, 7])
        sub_mode = kw.pop("sub_mode", ["mixed", "three", "odd"][seed % 3])
        case = {"kind": "large", "tag": f"large_{dim}_{mesher}", "hint": c, "t": t, "dim": dim, "mesher": mesher,
                "seed": int(seed), "sub_mode": sub_mode, "style": kw.pop("style", "distort"),
                "scales": [[0.5, 0.25], [0.125, 0.375], [1.0, 1.0], [2.0, 0.75]][seed % 4],
                "origin": [[0.5, -1.25], [-3.0, 2.5], [0.0, 0.0], [7.0, 0.125]][(seed // 4) % 4],
                "route": ["mesh", "direct", "mesh"][seed % 3], "over": ["sampler", "sampling"][(seed // 3) % 2],
                "grid_container": ["irregular", "ndarray", "irregular"][(seed // 6) % 3]}
        n_sub, n = kw.pop("n_sub", None), kw.pop("n_unmasked", None)
        if n_sub:
            subs = _subs_for_total(np.random.default_rng([int(seed), 0xC06]), n_sub, sub_mode)
            n = len(subs)
            case["n_sub"] = int(n_sub)
        est_sub = n_sub or n * {"mixed": 8, "three": 9, "odd": 7, "ones_sprinkle": 3}.get(sub_mode, 16)
        if est_sub > self.LARGE_MAX_SUB or n < 1:
            return None
        case["n_unmasked"] = int(n)
        frame = kw.pop("frame", None) or _frame_for(rs, n)
        if frame[0] * frame[1] < n:
            return None
        case["frame"] = [int(frame[0]), int(frame[1])]
        mesh = kw.pop("mesh", None)
        if mesher == "rect":
            mesh = mesh or [(3, 5), (5, 4), (4, 3), (3, 7)][seed % 4]
            P = mesh[0] * mesh[1]
            case["mesh"] = [int(mesh[0]), int(mesh[1])]
        elif mesher == "delaunay":
            mesh = mesh or [9, 12, 17, 7][seed % 4]
            P = mesh
            case["mesh"] = int(mesh)
        if n * P > self.LARGE_MAX_ENTRIES:
            return None
        assert not kw, kw
        return case

    def _large_for_hint(self, c, seed):
        sizes = [t for t in (c + c // 3 + 1, c, c + 1, c - 1, 2 * c + 1) if t >= 3]
        k = [seed]

        def nxt():
            k[0] += 1
            return k[0]

        for t in sizes:
            out = []
            # (a) total sub-pixels == t exactly, per-pixel sub-size maps with odd sizes (blocks misaligned)
            out.append(self._large_case(c, t, "subpixels", "rect", nxt(), n_sub=t))
            out.append(self._large_case(c, t, "subpixels", "delaunay", nxt(), n_sub=t))
            out.append(self._large_case(c, t, "subpixels", "rect", nxt(), n_sub=t, sub_mode="three", style="clump"))
            # (b) unmasked pixels == t
            out.append(self._large_case(c, t, "unmasked", "rect", nxt(), n_unmasked=t, sub_mode="ones_sprinkle"))
            out.append(self._large_case(c, t, "unmasked", "delaunay", nxt(), n_unmasked=t, sub_mode="mixed"))
            # (c) mesh pixels / Delaunay vertices == t (few data pixels, spread over the whole mesh)
            nd = 40 + t % 13
            shp = _factor_shape(t)
            if shp:
                shp = shp if nxt() % 2 else (shp[1], shp[0])
                out.append(self._large_case(c, t, "meshpixels", "rect", nxt(), n_unmasked=nd, mesh=shp, style="corners"))
            out.append(self._large_case(c, t, "vertices", "delaunay", nxt(), n_unmasked=nd, mesh=t, style="corners"))
            out.append(self._large_case(c, t, "meshrows", "rect", nxt(), n_unmasked=nd, mesh=(t, 3), style="corners"))
            out.append(self._large_case(c, t, "meshcols", "rect", nxt(), n_unmasked=nd, mesh=(4, t), style="corners"))
            # (d) frame pixels H*W == t (non-square, both orientations), rows == t, columns == t
            fs = _factor_shape(t, lo=2)
            if fs:
                nf = max(1, min(t * 3 // 5, 400))
                out.append(self._large_case(c, t, "frame", "rect", nxt(), n_unmasked=nf, frame=fs))
                out.append(self._large_case(c, t, "frame", "delaunay", nxt(), n_unmasked=nf, frame=(fs[1], fs[0])))
                if t <= 40000:
                    out.append(self._large_case(c, t, "frame_full", "rect", nxt(), n_unmasked=t, frame=(fs[1], fs[0]),
                                                sub_mode="ones_sprinkle"))
            out.append(self._large_case(c, t, "rows", "delaunay", nxt(), n_unmasked=min(2 * t, 300), frame=(t, 2)))
            out.append(self._large_case(c, t, "cols", "rect", nxt(), n_unmasked=min(3 * t, 300), frame=(3, t)))
            # (e) dense matrix entries n * P == t
            for P_, shp_ in ((15, (3, 5)), (20, (5, 4)), (12, (4, 3)), (21, (3, 7)), (16, (4, 4)), (9, (3, 3))):
                if t % P_ == 0 and t // P_ >= 1:
                    out.append(self._large_case(c, t, "entries", "rect", nxt(), n_unmasked=t // P_, mesh=shp_))
                    break
            # (f) raw tables through the util functions: t sub-pixel rows, and t source pixels
            out.append({"kind": "large", "tag": "large_subpixels_tables", "hint": c, "t": t, "dim": "subpixels",
                        "mesher": "tables", "seed": nxt(), "n_sub": t, "sub_mode": "mixed", "n_unmasked": None,
                        "pixels": 7 + t % 5, "kmax": 3, "signed": True, "allow_zero": bool(t % 2)})
            if t * 30 <= self.LARGE_MAX_ENTRIES:
                out.append({"kind": "large", "tag": "large_pixels_tables", "hint": c, "t": t, "dim": "pixels",
                            "mesher": "tables", "seed": nxt(), "n_sub": 150 + t % 7, "sub_mode": "odd",
                            "n_unmasked": None, "pixels": t, "kmax": 3, "signed": False, "allow_zero": False})
            for cs in out:
                if cs is not None:
                    yield cs

    # a fixed set of mid-size cases that is part of EVERY run (no hint needed): thresholds written without a
    # literal, or below the smallest recorded constant, are not visible to size_hints
    def _mid_cases(self, rng, quick):
        seed = rng.randrange(1 << 20)
        plan = [("subpixels", "rect", dict(n_sub=65551 if quick else 20011)), ("subpixels", "delaunay", dict(n_sub=9473)),
                ("unmasked", "rect", dict(n_unmasked=4099, sub_mode="ones_sprinkle")),
                ("vertices", "delaunay", dict(n_unmasked=45, mesh=2311, style="corners")),
                ("meshpixels", "rect", dict(n_unmasked=45, mesh=(67, 41), style="corners")),
                ("subpixels", "delaunay", dict(n_sub=601, mesh=41)),
                ("subpixels", "rect", dict(n_sub=353, mesh=(9, 14))),
                ("frame", "rect", dict(n_unmasked=120, frame=(37, 131))),
                # round 5/6 (R5-E): beyond 2^15 unmasked pixels / 2^16 sub-pixels (the first entry of this plan) /
                # 2^16 frame pixels and beyond 46340 vertices (int32 products of two vertex indices) -- one case each,
                # part of every run; mesh pixels beyond 2^16 in the thorough tier
                ("vertices", "delaunay", dict(n_unmasked=45, mesh=47017, style="corners")),
                ("unmasked", "rect", dict(n_unmasked=33001, sub_mode="ones_sprinkle")),
                ("frame", "delaunay", dict(n_unmasked=200, frame=(263, 257)))]
        if not quick:
            plan += [("subpixels", "rect", dict(n_sub=65551)),
                     ("meshpixels", "rect", dict(n_unmasked=40, mesh=(257, 263), style="corners")),
                     ("subpixels", "delaunay", dict(n_sub=66001, mesh=23)),("subpixels", "rect", dict(n_sub=70001)), ("unmasked", "delaunay", dict(n_unmasked=9001)),
                     ("vertices", "delaunay", dict(n_unmasked=60, mesh=40009, style="corners")),
                     ("meshpixels", "rect", dict(n_unmasked=60, mesh=(211, 163), style="corners")),
                     ("frame", "delaunay", dict(n_unmasked=300, frame=(517, 259)))]
        for j, (dim, mesher, kw) in enumerate(plan):
            t = kw.get("n_sub") or kw.get("mesh") or kw.get("n_unmasked")
            if dim == "frame":
                t = kw["frame"]
            t = t if isinstance(t, int) else t[0] * t[1]
            cs = self._large_case(0, t, dim, mesher, seed + j, **kw)
            if cs is not None:
                cs["tag"] = f"mid_{dim}_{mesher}"
                yield cs
        t = 5003
        yield {"kind": "large", "tag": "mid_subpixels_tables", "hint": 0, "t": t, "dim": "subpixels",
               "mesher": "tables", "seed": seed + 99, "n_sub": t, "sub_mode": "mixed", "n_unmasked": None,
               "pixels": 11, "kmax": 3, "signed": True, "allow_zero": True}

    def _shrink_large(self, case):
        """smaller sizes in the dimension the case was built for (a size-gated failure survives down to its gate)"""
        if case["mesher"] == "tables":
            key = "n_sub" if case["dim"] == "subpixels" else "pixels"
            v = case[key]
            for v2 in (v // 2, 3 * v // 4, v - v // 8, v - v // 64, v - 1):
                if 3 <= v2 < v:
                    yield {**case, key: v2, "t": v2}
            return
        dim = case["dim"]

        def smaller(v):
            return [v2 for v2 in (v // 2, 3 * v // 4, v - v // 8, v - v // 64, v - 1) if 3 <= v2 < v]

        base = {"sub_mode": case["sub_mode"], "style": case.get("style", "distort"), "mesh": case["mesh"]}
        cands = []
        if dim == "subpixels":
            cands = [dict(base, n_sub=v) for v in smaller(case["n_sub"])]
        elif dim in ("unmasked", "entries"):
            cands = [dict(base, n_unmasked=v) for v in smaller(case["n_unmasked"])]
        elif dim == "vertices":
            cands = [dict(base, n_unmasked=case["n_unmasked"], mesh=v) for v in smaller(case["mesh"])]
        elif dim in ("meshpixels", "meshrows", "meshcols"):
            h, w = case["mesh"]
            cands = [dict(base, n_unmasked=case["n_unmasked"], mesh=((v, w) if h >= w else (h, v)))
                     for v in smaller(max(h, w))]
        elif dim in ("frame", "frame_full", "rows", "cols"):
            H, W = case["frame"]
            for v in smaller(max(H, W)):
                fr = (v, W) if H >= W else (H, v)
                cands.append(dict(base, n_unmasked=min(case["n_unmasked"], fr[0] * fr[1]), frame=fr))
        for kw in cands:
            if "n_sub" not in kw and case.get("n_sub"):
                pass
            ms_, fr_ = kw.get("mesh"), kw.get("frame") or case["frame"]
            t2 = {"subpixels": kw.get("n_sub"), "vertices": ms_, "meshrows": ms_[0] if dim == "meshrows" else None,
                  "meshcols": ms_[1] if dim == "meshcols" else None,
                  "meshpixels": ms_[0] * ms_[1] if dim == "meshpixels" else None,
                  "frame": fr_[0] * fr_[1], "frame_full": fr_[0] * fr_[1], "rows": fr_[0], "cols": fr_[1],
                  }.get(dim) or kw.get("n_unmasked")
            cs = self._large_case(case["hint"], t2, dim, case["mesher"], case["seed"], **kw)
            if cs is not None:
                cs["tag"] = case["tag"]
                yield cs

    def _run_large(self, aa, case):
        X = _expand_large(case)
        from autoarray.inversion.pixelization.mappers import mapper_util

        if case["mesher"] == "tables":
            subs = X["subs"]
            slim_for = np.repeat(np.arange(len(subs)), subs * subs)
            mm = mapper_util.mapping_matrix_from(
                pix_indexes_for_sub_slim_index=X["idx"].copy(), pix_size_for_sub_slim_index=X["sizes"].copy(),
                pix_weights_for_sub_slim_index=X["wts"].copy(), pixels=X["pixels"], total_mask_pixels=len(subs),
                slim_index_for_sub_slim_index=slim_for, sub_fraction=1.0 / subs.astype(float) ** 2)
            d2p, dw, pl = mapper_util.data_slim_to_pixelization_unique_from(
                data_pixels=len(subs), pix_indexes_for_sub_slim_index=X["idx"].copy(),
                pix_sizes_for_sub_slim_index=X["sizes"].copy(), pix_weights_for_sub_slim_index=X["wts"].copy(),
                pix_pixels=X["pixels"], sub_size=subs.copy())
            return {"large": True, "summary": {"sub_pixels": int(len(slim_for)), "data_pixels": int(len(subs))},
                    "mapping_matrix": _enc(np.asarray(mm, dtype=float)),
                    "unique": {"data_to_pix_unique": _enc(np.asarray(d2p).astype(np.int64)),
                               "data_weights": _enc(np.asarray(dw, dtype=float)),
                               "pix_lengths": _enc(np.asarray(pl).astype(np.int64))}}
        m, subs, g = X["mask"], X["subs"], X["grid"]
        mask = aa.Mask2D(mask=m.copy(), pixel_scales=tuple(case["scales"]), origin=tuple(case["origin"]))
        uniform = len(set(subs.tolist())) == 1
        sub = int(subs[0]) if (uniform and case["seed"] % 2) else aa.Array2D(values=subs.copy(), mask=mask)
        if case.get("over") == "sampling":
            over = aa.OverSamplingUniform(sub_size=sub).over_sampler_from(mask=mask)
        else:
            over = aa.OverSamplerUniform(mask=mask, sub_size=sub)
        raw = g.copy()
        grid = raw if case.get("grid_container") == "ndarray" else aa.Grid2DIrregular(values=raw)
        direct = case.get("route") == "direct"
        if case["mesher"] == "rect":
            shp = tuple(case["mesh"])
            if direct:
                mesh_obj = aa.Mesh2DRectangular.overlay_grid(shape_native=shp, grid=grid)
                mg = aa.MapperGrids(mask=mask, source_plane_data_grid=grid, source_plane_mesh_grid=mesh_obj)
                mapper = aa.MapperRectangular(mapper_grids=mg, over_sampler=over, border_relocator=None,
                                              regularization=None)
            else:
                mg = aa.mesh.Rectangular(shape=shp).mapper_grids_from(
                    mask=mask, border_relocator=None, source_plane_data_grid=grid)
                mapper = aa.Mapper(mapper_grids=mg, over_sampler=over, regularization=None)
        else:
            pts_in = X["points"].copy()
            if direct:
                mg = aa.MapperGrids(mask=mask, source_plane_data_grid=grid,
                                    source_plane_mesh_grid=aa.Mesh2DDelaunay(values=pts_in))
                mapper = aa.MapperDelaunay(mapper_grids=mg, over_sampler=over, border_relocator=None,
                                           regularization=None)
            else:
                mg = aa.mesh.Delaunay().mapper_grids_from(
                    mask=mask, border_relocator=None, source_plane_data_grid=grid,
                    source_plane_mesh_grid=aa.Grid2DIrregular(values=pts_in))
                mapper = aa.Mapper(mapper_grids=mg, over_sampler=over, regularization=None)
        # the observables in an order that depends on the case (the dense and the sparse encoding first in turn)
        order = [["um", "mm", "psw"], ["mm", "psw", "um"], ["psw", "um", "mm"]][case["seed"] % 3]
        got = {}
        for what in order:
            got[what] = {"um": lambda: mapper.unique_mappings, "mm": lambda: mapper.mapping_matrix,
                         "psw": lambda: mapper.pix_sub_weights}[what]()
        psw, um, mm = got["psw"], got["um"], np.asarray(got["mm"])
        nb = mapper.neighbors
        mesh = mapper.source_plane_mesh_grid
        obs = {"large": True, "class": type(mapper).__name__, "pixels": int(mapper.pixels),
               "summary": {"frame": list(m.shape), "unmasked": int(len(subs)), "sub_pixels": int((subs ** 2).sum()),
                           "mapping_matrix_shape": list(mm.shape)},
               "slim_for_sub_slim": _enc(np.asarray(mapper.slim_index_for_sub_slim_index).astype(np.int64)),
               "sub_fraction": _enc(np.asarray(over.sub_fraction, dtype=float)),
               "mappings": _enc(np.asarray(psw.mappings).astype(np.int64)),
               "sizes": _enc(np.asarray(psw.sizes).astype(np.int64)),
               "weights": _enc(np.asarray(psw.weights, dtype=float)),
               "mapping_matrix": _enc(mm.astype(float)),
               "unique": {"data_to_pix_unique": _enc(np.asarray(um.data_to_pix_unique).astype(np.int64)),
                          "data_weights": _enc(np.asarray(um.data_weights, dtype=float)),
                          "pix_lengths": _enc(np.asarray(um.pix_lengths).astype(np.int64))},
               "neighbors": _enc(np.asarray(nb).astype(np.int64)),
               "neighbors_sizes": _enc(np.asarray(nb.sizes).astype(np.int64)),
               "mesh.neighbors_same": bool(np.array_equal(np.asarray(mesh.neighbors), np.asarray(nb))),
               "inputs_unchanged": bool(np.array_equal(raw, g) and np.array_equal(np.asarray(mask), m))}
        if case["mesher"] == "rect":
            obs["geom"] = [float(mesh.pixel_scales[0]), float(mesh.pixel_scales[1]), float(mesh.origin[0]),
                           float(mesh.origin[1])]
            obs["shape_native"] = [int(v) for v in mesh.shape_native]
        else:
            d = mapper.delaunay
            indptr, indices = d.vertex_neighbor_vertices
            obs["_qhull"] = {"simplices": _enc(np.asarray(d.simplices).astype(np.int64)),
                             "find_simplex": _enc(np.asarray(d.find_simplex(g)).astype(np.int64)),
                             "indptr": _enc(np.asarray(indptr).astype(np.int64)),
                             "indices": _enc(np.asarray(indices).astype(np.int64)),
                             "points_same": bool(np.array_equal(np.asarray(d.points), X["points"]))}
        return obs

    # ---- the property, vectorised (numpy on the implementation's output; exact re-check of float near-misses)
    def _oracle_large(self, case, obs):
        X = _expand_large(case)
        where = f"[{case['dim']}={case['t']} (constant {case['hint']}), {case['mesher']}] "
        ok, why = self._oracle_large_inner(case, obs, X)
        return ok, ("" if ok else where + why)

    def _oracle_large_inner(self, case, obs, X):
        subs = X["subs"]
        n = len(subs)
        rep = subs * subs
        nsub = int(rep.sum())
        slim = np.repeat(np.arange(n), rep)
        if case["mesher"] == "tables":
            return self._vec_matrix_unique(subs, slim, X["idx"], X["sizes"], X["wts"], X["pixels"],
                                           _dec(obs["mapping_matrix"]), obs["unique"], rows_sum=False)
        g = X["grid"]
        if obs.get("inputs_unchanged") is False:
            return False, "building / reading the mapper changed the caller's grid or mask"
        got_slim = _dec(obs["slim_for_sub_slim"])
        if got_slim.shape != slim.shape or not np.array_equal(got_slim, slim):
            return False, "slim_index_for_sub_slim_index is not pixel i repeated sub_size_i^2 times"
        fr_ = _dec(obs["sub_fraction"])
        if fr_.shape != (n,) or np.abs(fr_ - 1.0 / rep).max() > 1e-9:
            return False, "sub_fraction != 1/sub_size^2"
        maps, sizes, wts = _dec(obs["mappings"]), _dec(obs["sizes"]), _dec(obs["weights"])
        if not (len(maps) == len(sizes) == len(wts) == nsub == len(g)) or maps.ndim != 2 or maps.shape != wts.shape:
            return False, "pix_sub_weights tables do not have one row per sub-pixel"
        nb, nbs = _dec(obs["neighbors"]), _dec(obs["neighbors_sizes"])
        if case["mesher"] == "rect":
            want_cls = "MapperRectangular"
            h, w = X["shape"]
            P = h * w
            if obs["shape_native"] != [h, w]:
                return False, f"mesh shape {obs['shape_native']} != {[h, w]}"
            if maps.shape != (nsub, 1) or np.any(sizes != 1) or np.any(wts != 1):
                return False, "rectangular mapping must be one index with weight 1 per sub-pixel"
            y_hi, y_lo = g[:, 0].max() + 1e-8, g[:, 0].min() - 1e-8
            x_hi, x_lo = g[:, 1].max() + 1e-8, g[:, 1].min() - 1e-8
            sy, sx = (y_hi - y_lo) / h, (x_hi - x_lo) / w
            exp_geom = [sy, sx, (y_hi + y_lo) / 2, (x_hi + x_lo) / 2]
            for nm, a, b in zip(("pixel scale y", "pixel scale x", "origin y", "origin x"), obs["geom"], exp_geom):
                if abs(a - b) > 1e-9 * max(1.0, abs(b)):
                    return False, f"overlaid mesh {nm} = {a!r}, the grid's extent + 1e-8 buffer gives {b!r}"
            c = maps[:, 0]
            if c.min() < 0 or c.max() >= P:
                k = _first((c < 0) | (c >= P))
                return False, f"sub-pixel {k}: cell index {int(c[k])} outside 0..{P - 1}"
            cy, cx = np.divmod(c, w)
            fl = 8 * np.finfo(float).eps * (np.abs(g).max() + 1.0)
            ty, tx = 1e-9 * sy + fl, 1e-9 * sx + fl
            bad = ~((y_hi - (cy + 1) * sy - ty <= g[:, 0]) & (g[:, 0] <= y_hi - cy * sy + ty)
                    & (x_lo + cx * sx - tx <= g[:, 1]) & (g[:, 1] <= x_lo + (cx + 1) * sx + tx))
            if bad.any():
                k = _first(bad)
                return False, (f"sub-pixel {k} at ({float(g[k, 0])!r},{float(g[k, 1])!r}) is not inside cell {int(c[k])} = (row "
                               f"{int(cy[k])}, col {int(cx[k])}) of the {h}x{w} mesh overlaid on the grid "
                               f"({int(bad.sum())} such sub-pixels)")
            kk = np.arange(P)
            yy, xx = np.divmod(kk, w)
            exp_codes = np.sort(np.concatenate([kk[yy > 0] * P + kk[yy > 0] - w, kk[yy < h - 1] * P + kk[yy < h - 1] + w,
                                                kk[xx > 0] * P + kk[xx > 0] - 1, kk[xx < w - 1] * P + kk[xx < w - 1] + 1]))
            okn, why = self._vec_neighbors(nb, nbs, P, exp_codes, f"the 4-connectivity of a {h}x{w} mesh")
            if not okn:
                return False, why
        else:
            want_cls = "MapperDelaunay"
            pts = X["points"]
            P = len(pts)
            qh = obs["_qhull"]
            if not qh["points_same"]:
                return False, "the triangulation was not built on the vertex set that was passed in"
            simp = _dec(qh["simplices"])
            fs = _dec(qh["find_simplex"])
            span = float(np.ptp(pts, axis=0).max())
            a, b, c_ = pts[simp[:, 0]], pts[simp[:, 1]], pts[simp[:, 2]]
            o = _orient_np(a, b, c_)
            if np.any(np.abs(o) <= 1e-13 * span * span):
                return False, f"Qhull contract: degenerate simplex {simp[_first(np.abs(o) <= 1e-13 * span * span)].tolist()}"
            hull = _hull_np(pts)
            hp = pts[hull]
            hull_area2 = float(np.sum(_orient_np(hp[0][None, :], hp[1:-1], hp[2:])))
            if abs(float(np.abs(o).sum()) - hull_area2) > 1e-9 * hull_area2:
                return False, "Qhull contract: simplices do not tile the convex hull"
            # local Delaunay condition on every interior edge (+ every edge in at most two simplices)
            ccw = np.where((o > 0)[:, None], simp, simp[:, [0, 2, 1]])
            e_a = np.concatenate([ccw[:, 0], ccw[:, 1], ccw[:, 2]])
            e_b = np.concatenate([ccw[:, 1], ccw[:, 2], ccw[:, 0]])
            e_o = np.concatenate([ccw[:, 2], ccw[:, 0], ccw[:, 1]])
            e_t = np.tile(np.arange(len(simp)), 3)
            key = np.minimum(e_a, e_b) * P + np.maximum(e_a, e_b)
            srt = np.argsort(key, kind="stable")
            ks = key[srt]
            same = ks[1:] == ks[:-1]
            if np.any(same[1:] & same[:-1]):
                return False, "Qhull contract: an edge belongs to three simplices"
            i1, i2 = srt[:-1][same], srt[1:][same]
            A_, B_, C_ = pts[ccw[e_t[i1], 0]], pts[ccw[e_t[i1], 1]], pts[ccw[e_t[i1], 2]]
            D_ = pts[e_o[i2]]
            ax, ay = A_[:, 0] - D_[:, 0], A_[:, 1] - D_[:, 1]
            bx, by = B_[:, 0] - D_[:, 0], B_[:, 1] - D_[:, 1]
            cx_, cy_ = C_[:, 0] - D_[:, 0], C_[:, 1] - D_[:, 1]
            inc = (ax * (by * (cx_ ** 2 + cy_ ** 2) - (bx ** 2 + by ** 2) * cy_)
                   - ay * (bx * (cx_ ** 2 + cy_ ** 2) - (bx ** 2 + by ** 2) * cx_)
                   + (ax ** 2 + ay ** 2) * (bx * cy_ - by * cx_))
            if np.any(inc > 1e-9 * span ** 4):
                return False, "Qhull contract: a simplex is not Delaunay (opposite vertex inside the circumcircle)"
            adj_codes = np.unique(np.concatenate([e_a * P + e_b, e_b * P + e_a]))
            indptr, indices = _dec(qh["indptr"]), _dec(qh["indices"])
            csr_codes = np.sort(np.repeat(np.arange(P), np.diff(indptr)) * P + indices)
            if csr_codes.shape != adj_codes.shape or not np.array_equal(csr_codes, adj_codes):
                return False, "Qhull contract: vertex_neighbor_vertices != simplex edges"
            okn, why = self._vec_neighbors(nb, nbs, P, adj_codes, "the edges of the Delaunay triangulation")
            if not okn:
                return False, why
            # per sub-pixel interpolation
            if maps.shape != (nsub, 3):
                return False, "Delaunay rows must have 3 slots"
            if np.any((sizes != 1) & (sizes != 3)):
                return False, f"sub-pixel {_first((sizes != 1) & (sizes != 3))}: size not in (1, 3)"
            k3 = np.flatnonzero(sizes == 3)
            r3 = maps[k3]
            if r3.size and (r3.min() < 0 or r3.max() >= P):
                return False, "a located sub-pixel is mapped to a vertex index out of range"
            s3 = np.sort(r3, axis=1)
            simp_keys = np.sort(simp, axis=1)
            simp_keys = (simp_keys[:, 0] * P + simp_keys[:, 1]) * P + simp_keys[:, 2]
            bad = ~np.isin((s3[:, 0] * P + s3[:, 1]) * P + s3[:, 2], simp_keys)
            if bad.any():
                k = int(k3[_first(bad)])
                return False, f"sub-pixel {k}: vertices {maps[k].tolist()} are not a triangle of the triangulation"
            p3 = g[k3]
            v0, v1, v2 = pts[r3[:, 0]], pts[r3[:, 1]], pts[r3[:, 2]]
            dd = _orient_np(v0, v1, v2)
            lam = np.stack([_orient_np(p3, v1, v2) / dd, _orient_np(v0, p3, v2) / dd, _orient_np(v0, v1, p3) / dd], axis=1)
            sus = np.flatnonzero((lam.min(axis=1) < -1e-9) | (np.abs(wts[k3] - lam).max(axis=1) > 5e-10))
            for jj in sus[:200]:  # float near-misses / genuine failures: decide exactly
                k = int(k3[jj])
                ex = bary(*[(F(float(pts[v, 0])), F(float(pts[v, 1]))) for v in maps[k]],
                          (F(float(g[k, 0])), F(float(g[k, 1]))))
                if min(ex) < -SLACK:
                    return False, (f"sub-pixel {k} at ({float(g[k, 0])!r},{float(g[k, 1])!r}) is not in the triangle "
                                   f"{maps[k].tolist()} it is mapped to (barycentric {[float(v) for v in ex]})")
                if any(abs(F(float(a_)) - b_) > TOL for a_, b_ in zip(wts[k], ex)):
                    return False, (f"sub-pixel {k}: weights {wts[k].tolist()} are not the barycentric coordinates "
                                   f"{[float(v) for v in ex]} w.r.t. vertices {maps[k].tolist()} (in order); "
                                   f"{len(sus)} suspicious sub-pixels")
            if np.any(fs[k3] == -1):
                return False, f"sub-pixel {int(k3[_first(fs[k3] == -1)])}: find_simplex = -1 but three vertices mapped"
            k1 = np.flatnonzero(sizes == 1)
            if k1.size:
                r1, w1, p1 = maps[k1], wts[k1], g[k1]
                bad = (r1[:, 1] != -1) | (r1[:, 2] != -1) | (w1[:, 0] != 1) | (w1[:, 1] != 0) | (w1[:, 2] != 0) \
                    | (r1[:, 0] < 0) | (r1[:, 0] >= P)
                if bad.any():
                    k = int(k1[_first(bad)])
                    return False, f"sub-pixel {k}: single mapping must be [v,-1,-1] with weights [1,0,0]: {maps[k].tolist()} {wts[k].tolist()}"
                ea, eb = hp, np.roll(hp, -1, axis=0)
                e2 = ((eb - ea) ** 2).sum(axis=1)
                inside = np.ones(len(p1), dtype=bool)
                for j in range(len(hull)):
                    inside &= _orient_np(ea[j][None, :], eb[j][None, :], p1) > 1e-9 * e2[j]
                if inside.any():
                    k = int(k1[_first(inside)])
                    return False, f"sub-pixel {k} at ({float(g[k, 0])!r},{float(g[k, 1])!r}) is strictly inside the hull but mapped to one vertex"
                from scipy.spatial import cKDTree

                dmin, _ = cKDTree(pts).query(p1)
                dgot = np.sqrt(((pts[r1[:, 0]] - p1) ** 2).sum(axis=1))
                bad = dgot > dmin * (1 + 1e-12) + 1e-300
                if bad.any():
                    k = int(k1[_first(bad)])
                    return False, f"sub-pixel {k}: vertex {int(maps[k, 0])} is not the nearest vertex"
        if obs["class"] != want_cls:
            return False, f"factory built {obs['class']}"
        if obs["pixels"] != P:
            return False, f"mapper.pixels = {obs['pixels']} != {P}"
        if not obs["mesh.neighbors_same"]:
            return False, "mapper.neighbors differs from source_plane_mesh_grid.neighbors"
        return self._vec_matrix_unique(subs, slim, maps, sizes, wts, P, _dec(obs["mapping_matrix"]), obs["unique"],
                                       rows_sum=True)

    @staticmethod
    def _vec_neighbors(nb, nbs, P, exp_codes, what):
        if nb.ndim != 2 or nb.shape[0] != P or nbs.shape != (P,):
            return False, "neighbour table has wrong number of rows"
        valid = np.arange(nb.shape[1])[None, :] < nbs[:, None]
        if np.any(nb[~valid] != -1):
            return False, "neighbour table: entries beyond the size are not -1"
        used = nb[valid]
        if used.size and (used.min() < 0 or used.max() >= P):
            k = int(np.argwhere(valid & ((nb < 0) | (nb >= P)))[0][0])
            return False, f"neighbors[{k}] = {nb[k].tolist()} (size {int(nbs[k])}): index out of range 0..{P - 1}"
        rows = np.repeat(np.arange(P), nbs)
        codes = np.sort(rows * P + used)
        if codes.shape != exp_codes.shape or not np.array_equal(codes, exp_codes):
            bad_rows = np.setxor1d(codes, exp_codes) // P
            k = int(bad_rows[0]) if bad_rows.size else -1
            return False, (f"neighbors[{k}] = {nb[k].tolist() if k >= 0 else '?'} (size "
                           f"{int(nbs[k]) if k >= 0 else '?'}) is not {what} "
                           f"(expected {sorted((exp_codes[exp_codes // P == k] % P).tolist()) if k >= 0 else '?'})")
        return True, ""

    @staticmethod
    def _vec_matrix_unique(subs, slim, maps, sizes, wts, P, mm, uq, rows_sum):
        n = len(subs)
        if mm.shape != (n, P):
            return False, f"mapping matrix shape {mm.shape} != ({n},{P})"
        valid = np.arange(maps.shape[1])[None, :] < sizes[:, None]
        used = maps[valid]
        if used.size and (used.min() < 0 or used.max() >= P):
            return False, "a source pixel index is out of range"
        rows = np.broadcast_to(slim[:, None], maps.shape)[valid]
        frac = 1.0 / (subs * subs).astype(float)
        exp = np.zeros((n, P))
        np.add.at(exp, (rows, used), frac[rows] * wts[valid])
        mag = np.zeros((n, P))
        np.add.at(mag, (rows, used), np.abs(frac[rows] * wts[valid]))
        bad = np.abs(mm - exp) > 1e-12 * np.maximum(1.0, mag)
        if bad.any():
            i, p = np.argwhere(bad)[0]
            return False, (f"mapping_matrix[{i},{p}] = {float(mm[i, p])!r} != sum over the sub-pixels of data pixel {i} "
                           f"(sub_size {int(subs[i])}) of (1/sub_size^2) * weight = {float(exp[i, p])!r} "
                           f"({int(bad.any(axis=1).sum())} rows differ)")
        if rows_sum:
            if mm.min() < 0:
                i = int(np.argwhere(mm < 0)[0][0])
                return False, f"mapping_matrix row {i} has a negative entry {float(mm[i].min())!r}"
            rsum = mm.sum(axis=1)
            if np.abs(rsum - 1).max() > 1e-9:
                i = _first(np.abs(rsum - 1) > 1e-9)
                return False, f"mapping_matrix row {i} sums to {float(rsum[i])!r}, not 1"
        d2p, dw, pl = _dec(uq["data_to_pix_unique"]), _dec(uq["data_weights"]), _dec(uq["pix_lengths"])
        if d2p.shape[0] != n or dw.shape != d2p.shape or pl.shape != (n,):
            return False, "unique-mapping tables have wrong shapes"
        if pl.min() < 0 or pl.max() > d2p.shape[1]:
            return False, "pix_lengths out of range"
        uvalid = np.arange(d2p.shape[1])[None, :] < pl[:, None]
        ukeys = d2p[uvalid]
        if ukeys.size and (ukeys.min() < 0 or ukeys.max() >= P):
            return False, "unique mappings: source pixel index out of range"
        urows = np.repeat(np.arange(n), pl)
        ucodes = urows * P + ukeys
        su = np.sort(ucodes)
        if np.any(su[1:] == su[:-1]):
            i = int(su[1:][su[1:] == su[:-1]][0] // P)
            return False, f"unique row {i} repeats a source pixel: {d2p[i, :pl[i]].tolist()}"
        dcodes = np.unique(rows * P + used)
        if su.shape != dcodes.shape or not np.array_equal(su, dcodes):
            i = int(np.setxor1d(su, dcodes)[0] // P)
            return False, (f"unique row {i}: pixels {d2p[i, :pl[i]].tolist()} (length {int(pl[i])}) != distinct source "
                           f"pixels {sorted((dcodes[dcodes // P == i] % P).tolist())}")
        dense = np.zeros((n, P))
        np.add.at(dense, (urows, ukeys), dw[uvalid])
        bad = np.abs(dense - mm) > 1e-12 * np.maximum(1.0, mag)
        if bad.any():
            i, p = np.argwhere(bad)[0]
            return False, (f"unique mappings of data pixel {i} encode {float(dense[i, p])!r} for source pixel {p}, the "
                           f"mapping matrix has {float(mm[i, p])!r}")
        return True, ""

    # ============================================================== round 5/6 streams
    def _r56_cases(self, tier, rng):
        quick = tier == "quick"
        for fn in (self._decade_cases, self._layout_cases, self._option_cases, self._family_cases,
                   self._own_cases, self._config_cases):
            yield from fn(rng, quick)

    # ---------------------------------------------------------------- R5-A / R5-E: decades, far origins, near-ties
    @staticmethod
    def _exact_double(x):
        try:
            return F(float(x)) == x
        except OverflowError:
            return False

    def _xf(self, pairs, k, t=(0, 0)):
        """every coordinate v -> v * 2^k + t (exact); None when a result is not a double"""
        sc = F(2) ** k
        out = []
        for a, b in pairs:
            y, x = F(a) * sc + t[0], F(b) * sc + t[1]
            if not (self._exact_double(y) and self._exact_double(x)):
                return None
            out.append([q(y), q(x)])
        return out

    @staticmethod
    def _far_offset(rng, e):
        return tuple(rng.choice([-1, 1]) * rng.choice([1, 3, 5]) * F(2) ** e for _ in range(2))

    def _dec_delaunay(self, rng, flavour):
        import scipy.spatial  # (the generator's own triangulation, only used to PLACE points)

        for _ in range(60):
            style = rng.choice(["distort", "special", "special", "hullhug"]) if flavour != "far" else \
                rng.choice(["distort", "special"])
            base = self._delaunay_case(rng, 0, {"no_int": True, "style": style})
            base["dtype"] = "float"
            pts = [(F(a), F(b)) for a, b in base["points"]]
            k, t, extra = 0, (F(0), F(0)), {}
            if flavour == "world":
                k = rng.randint(-45, 45)
            elif flavour == "extreme":  # R5-E: squares / products of coordinates out to 1e+-300 (Qhull: 2^-520..2^250)
                k = rng.choice([-498, -400, -330, -166, -100, 100, 166, 200])
            elif flavour == "far":
                k = rng.randint(-12, 6)
                simp = scipy.spatial.Delaunay(np.array([[float(a), float(b)] for a, b in pts])).simplices
                amin = min(abs(orient(*(pts[i] for i in s_))) for s_ in simp)
                m = rng.randint(5, 12)
                while m > 2 and 64 * EPS * (5 * F(2) ** m + 16) ** 2 / amin > F(2, 10**8):
                    m -= 1  # keep the conditioned tolerance of the weights (eps M^2 / area) below 2e-8
                t = self._far_offset(rng, m + k)
                extra = {"ctol": True}
            elif flavour == "near":
                k = rng.choice([0, 0, rng.randint(-45, 45)])
                simp = scipy.spatial.Delaunay(np.array([[float(a), float(b)] for a, b in pts])).simplices.tolist()
                hull = convex_hull(pts)
                g = []
                for _p in base["grid"]:
                    r = rng.random()
                    eps = F(rng.choice([1, 2, 3]), 1 << rng.randint(21, 40))
                    a, b, c = (pts[i] for i in rng.sample(rng.choice(simp), 3))
                    if r < 0.4:  # just inside an edge of a triangle: one tiny barycentric weight
                        t_ = F(rng.randint(1, 15), 16)
                        lam = (eps, t_, 1 - t_ - eps)
                    elif r < 0.6:  # next to a vertex: two tiny weights
                        lam = (1 - 2 * eps, eps, eps)
                    elif r < 0.8:  # outside the hull, two hull vertices at nearly the same distance
                        i = rng.randrange(len(hull))
                        a, b = pts[hull[i]], pts[hull[(i + 1) % len(hull)]]
                        d = F(rng.randint(1, 8), 2)
                        py = (a[0] + b[0]) / 2 + (b[1] - a[1]) * d + (b[0] - a[0]) * eps * rng.choice([-1, 1])
                        px = (a[1] + b[1]) / 2 - (b[0] - a[0]) * d + (b[1] - a[1]) * eps * rng.choice([-1, 1])
                        g.append((rnd(py, 48), rnd(px, 48)))
                        continue
                    else:
                        g.append((F(_p[0]), F(_p[1])))
                        continue
                    g.append((rnd(sum(l * v[0] for l, v in zip(lam, (a, b, c))), 48),
                              rnd(sum(l * v[1] for l, v in zip(lam, (a, b, c))), 48)))
                base["grid"] = [qlist(p) for p in g]
            grid, points = self._xf(base["grid"], k, t), self._xf(base["points"], k, t)
            if grid is None or points is None:
                continue
            return {**base, **extra, "tag": f"dec_delaunay_{flavour}", "grid": grid, "points": points, "dec": [k, q(t[0]), q(t[1])]}
        raise _Retry()

    def _dec_rect(self, rng, flavour):
        for _ in range(60):
            k, t = 0, (F(0), F(0))
            if flavour in ("world", "extreme", "far"):
                force = {"no_int": True}
                if flavour == "extreme":
                    force["hw"] = (rng.choice([3, 5]), rng.choice([3, 5]))  # (tiny worlds sit at the centre of the mesh)
                    k = rng.choice([-498, -400, -330, -166, -100, -64])
                elif flavour == "world":
                    k = rng.randint(-45, 14)
                else:
                    k = rng.randint(-10, 3)
                    t = self._far_offset(rng, min(rng.randint(6, 13) + k, 15))
                    t = tuple(v if abs(v) <= 3 * F(2) ** 15 else v / abs(v) * 3 * F(2) ** 15 for v in t)
                base = self._rect_case(rng, 0, force)
                if flavour == "extreme" and (base["h"] % 2 == 0 or base["w"] % 2 == 0):
                    continue
            else:
                m, kind, subs = self._mask_subs(rng)
                n = sum(s_ * s_ for s_ in subs)
                if n < 4:
                    continue
                h, w = rng.randint(3, 6), rng.randint(3, 6)
                a = rng.choice([F(1), F(3, 2), F(2), F(3)])
                y0, x0 = gen.dyadic(rng, -4, 4, 2), gen.dyadic(rng, -4, 4, 2)
                if flavour == "nearsquare":
                    # cell sizes in y and x agree to 2^-16..2^-33 (inside isclose / allclose defaults); the interior
                    # points sit half that relative distance from the TRUE cell boundaries in x
                    dl = rng.choice([-1, 1]) * F(1, 1 << rng.randint(16, 33))
                    b = a * (1 + dl)
                    pts = [(y0, x0), (y0 + h * a, x0 + w * b)]
                    while len(pts) < n:
                        ky, kx = rng.randint(0, h - 1), rng.randint(1, w - 1)
                        e = abs(dl) * kx / 2 * a
                        x = x0 + kx * b - e if dl > 0 else x0 + kx * b + e
                        if rng.random() < 0.25:
                            x = x0 + w * b - abs(dl) * a * rng.choice([1, 2, 4])  # next to the far edge
                        pts.append((y0 + ky * a + F(rng.randint(1, 15), 16) * a, x))
                    if rng.random() < 0.5:
                        pts = [(x, y) for (y, x) in pts]
                        h, w = w, h
                    k = rng.randint(-12, 3)
                elif flavour == "nearline":
                    # the extent in one direction is 2^-20..2^-40 of the other (nearly degenerate, not degenerate)
                    tiny = F(1, 1 << rng.randint(20, 40))
                    pts = [(y0 + tiny * gen.dyadic(rng, 0, 8, 2), gen.dyadic(rng, -6, 6, 6)) for _ in range(n)]
                    pts[0] = (y0, pts[0][1])
                    pts[-1] = (y0 + tiny * 8, pts[-1][1])
                    if len({p[1] for p in pts}) < 2:
                        continue
                    if rng.random() < 0.5:
                        pts = [(x, y) for (y, x) in pts]
                    k = rng.randint(-10, 6)
                else:  # nearclump: every point within 2^-18..2^-40 of one place far from zero
                    tiny = F(1, 1 << rng.randint(18, 40))
                    c = (gen.dyadic(rng, -64, 64, 2), gen.dyadic(rng, -64, 64, 2))
                    pts = [(c[0] + tiny * gen.dyadic(rng, -4, 4, 3), c[1] + tiny * gen.dyadic(rng, -4, 4, 3)) for _ in range(n)]
                    pts[0] = (c[0] - 4 * tiny, c[1] - 4 * tiny)
                    pts[-1] = (c[0] + 4 * tiny, c[1] + 4 * tiny)
                    k = rng.randint(-6, 6)
                order = list(range(n))
                rng.shuffle(order)
                pts = [pts[i] for i in order]
                base = {"kind": "rect", "mask": mask_json(m), "mask_kind": kind, **self._plumbing(rng, False),
                        "sub_size": subs, "uniform_int_sub": len(set(subs)) == 1 and rng.random() < 0.5,
                        "scales": qlist(gen.scales_pair(rng)), "origin": qlist(gen.origin_pair(rng)),
                        "grid": [qlist(p) for p in pts], "h": h, "w": w, "degenerate_extent": False}
            grid = self._xf(base["grid"], k, t)
            if grid is None:
                continue
            return {**base, "tag": f"dec_rect_{flavour}", "grid": grid, "pb": True, "dec": [k, q(t[0]), q(t[1])]}
        raise _Retry()

    def _dec_util(self, rng):
        """the raw util kinds with every real input scaled by 2^k, out to 2^-498 / 2^480 (squares stay finite)"""
        k = rng.choice([rng.randint(-45, 45), rng.randint(-45, 45), -498, 480])
        sc = F(2) ** k
        r = rng.random()
        if r < 0.4:
            while True:
                c = self._table_case(rng)
                if c.get("dtype") != "int_array":
                    break
            return {**c, "tag": "dec_tables", "wscale": k, "wts": [[q(F(v) * sc) for v in row] for row in c["wts"]]}
        while True:
            a, b = list(self._bary_cases(rng))
            c = a if r < 0.7 else b
            if c.get("dtype", "float") == "float":
                break
        c = {**c, "tag": "dec_" + c["kind"], "grid": [[q(F(u) * sc), q(F(v) * sc)] for u, v in c["grid"]]}
        for key in ("mesh", "points"):
            if key in c:
                c[key] = [[q(F(u) * sc), q(F(v) * sc)] for u, v in c[key]]
        return c

    N_DEC = {"quick": {"delaunay": {"world": 40, "extreme": 12, "far": 24, "near": 40},
                       "rect": {"world": 40, "extreme": 8, "far": 24, "nearsquare": 28, "nearline": 16, "nearclump": 16},
                       "util": 50},
             "thorough": {"delaunay": {"world": 600, "extreme": 120, "far": 360, "near": 500},
                          "rect": {"world": 600, "extreme": 100, "far": 360, "nearsquare": 400, "nearline": 240,
                                   "nearclump": 240},
                          "util": 700}}

    def _decade_cases(self, rng, quick):
        nd = self.N_DEC["quick" if quick else "thorough"]
        for mesher, fn in (("delaunay", self._dec_delaunay), ("rect", self._dec_rect)):
            for flavour, cnt in nd[mesher].items():
                for _ in range(cnt):
                    try:
                        yield fn(rng, flavour)
                    except _Retry:
                        continue
        for _ in range(nd["util"]):
            yield self._dec_util(rng)

    # ---------------------------------------------------------------- R5-C: layouts / containers
    GRID_LAYS = ["F", "T", "strided", "revview", "readonly", "list", "tuple_rows"]
    MASK_LAYS = ["F", "T", "strided", "revview", "readonly", "list", "int", "from_mask", "invert"]
    SUB_LAYS = ["list", "i32", "strided", "revview", "readonly", "ndarray", "arr_of_arr"]

    def _f32_ok(self, pairs):
        return all(F(float(np.float32(float(F(v))))) == F(v) for p in pairs for v in p)

    def _layout_one(self, rng, mesher, picks):
        """an ordinary case (float or integer coordinates) with the ingredients named in `picks` in another layout"""
        force = None
        if any(w == "grid_container" and v.startswith("grid2d") for w, v in picks):
            m_, kind_, subs_ = self._mask_subs(rng)  # a Grid2D over the mask has one row per unmasked pixel
            force = {"ms": (m_, kind_, [1] * len(subs_)), "no_int": True}
        base = self._rect_case(rng, 0, force) if mesher == "rect" else self._delaunay_case(rng, 0, force)
        lay = {}
        for what, var in picks:
            if what == "grid":
                if base["dtype"] == "int_list":
                    base["dtype"] = "int_array"
                if var in ("list", "tuple_rows"):
                    base["grid_container"] = "irregular"
                lay["grid"] = var
            elif what == "grid_container":
                base["grid_container"] = var
                if var == "ndarray" and base["dtype"] == "int_list":
                    base["dtype"] = "int_array"
            elif what == "mask":
                lay["mask"] = var
            elif what == "sub":
                lay["sub"] = var
                base["uniform_int_sub"] = False
            elif what == "shape" and mesher == "rect":
                base["shape_container"] = var
                if var in ("floats", "array"):
                    base["route"] = "mesh"
            elif what == "pts" and mesher == "delaunay":
                if base["dtype"] == "int_list":
                    base["dtype"] = "int_array"
                lay["pts"] = var
            elif what == "pts_container" and mesher == "delaunay":
                lay["pts_container"] = var
                if var in ("nd", "grid2d_nomask") and base["dtype"] == "int_list":
                    base["dtype"] = "int_array"
            elif what == "f32" and mesher == "delaunay":
                if base["dtype"] != "float" or not self._f32_ok(base[{"grid": "grid", "pts": "points"}[var]]):
                    return None
                lay[var] = "f32"
        if lay.get("grid") in ("list", "tuple_rows") and base.get("grid_container") == "ndarray":
            base["grid_container"] = "irregular"
        if not lay:
            lay = {"grid": "C"}
        name = "+".join(f"{a}:{b}" for a, b in picks)
        return {**base, "tag": f"lay_{mesher}", "lay": lay, "lay_name": name}

    def _layout_cases(self, rng, quick):
        single = ([("grid", v) for v in self.GRID_LAYS]
                  + [("grid_container", v) for v in ("ndarray", "irr_of_irr", "grid2d_slim", "grid2d_native_in")]
                  + [("mask", v) for v in self.MASK_LAYS] + [("sub", v) for v in self.SUB_LAYS]
                  + [("shape", v) for v in ("list", "np_ints", "floats", "array")]
                  + [("pts", v) for v in self.GRID_LAYS]
                  + [("pts_container", v) for v in ("nd", "mesh", "grid2d_nomask")] + [("f32", "grid"), ("f32", "pts")])
        for rep in range(1 if quick else 6):
            for mesher in ("rect", "delaunay"):
                for pk in single:
                    if mesher == "rect" and pk[0] in ("pts", "pts_container", "f32"):
                        continue
                    if mesher == "delaunay" and pk[0] == "shape":
                        continue
                    for _ in range(8):
                        c = self._layout_one(rng, mesher, [pk])
                        if c is not None:
                            yield c
                            break
        for _ in range(44 if quick else 900):
            mesher = rng.choice(["rect", "delaunay"])
            pk = rng.sample([x for x in single if not (mesher == "rect" and x[0] in ("pts", "pts_container", "f32"))
                             and not (mesher == "delaunay" and x[0] == "shape")], 2)
            if pk[0][0] == pk[1][0] or {pk[0][0], pk[1][0]} == {"f32", "pts"} or {pk[0][0], pk[1][0]} == {"f32", "grid"}:
                continue
            c = self._layout_one(rng, mesher, pk)
            if c is not None:
                yield c
        # the raw util entry points
        for _ in range(30 if quick else 500):
            r = rng.random()
            if r < 0.45:
                c = self._table_case(rng)
                lay = {rng.choice(["idx", "sizes", "wts"]): None}
                for key in lay:
                    lay[key] = rng.choice(["F", "T", "strided", "revview", "readonly"] if key != "sizes"
                                          else ["strided", "revview", "readonly", "i32"])
                if rng.random() < 0.3:
                    lay["idx"] = "i32"
                yield {**c, "tag": "lay_tables", "lay": lay}
            elif r < 0.85:
                a, b = list(self._bary_cases(rng))
                c = a if rng.random() < 0.5 else b
                lay = {rng.choice(["grid", "pts"] + (["idx"] if c["kind"] == "bary" else [])):
                       rng.choice(["F", "T", "strided", "revview", "readonly"])}
                yield {**c, "tag": "lay_" + c["kind"], "lay": lay}
            else:
                yield {"tag": "lay_nbr", "kind": "nbr", "h": rng.randint(3, 9), "w": rng.randint(3, 9),
                       "shape_container": rng.choice(["list", "np_ints", "array"])}

    # ---------------------------------------------------------------- R5-F: option crossings
    def _option_space(self, mesher, route):
        """(slot, value) choices that differ from what the ordinary stream passes.  `explicit_defaults` names entry
        points whose signature is introspected at call time (`_call`): every optional parameter that the case leaves
        out -- also one this table has never heard of -- is passed with its declared default, which must be the
        same as leaving it out"""
        sp = {"image_plane_mesh_grid": ["none", "grid"], "adapt_data": ["none", "arr", "zeros"],
              "run_time_dict": ["omit", "empty", "filled"], "mapper.run_time_dict": ["omit", "none", "empty", "filled"],
              "regularization": ["constant", "adaptive"], "mask.origin": ["omit"], "mask.pixel_scales": ["scalar"],
              "over": ["sampling"], "lay.mask": ["invert", "from_mask"]}
        if route == "mesh":
            sp["preloads"] = ["default", "unrelated", "relocated_same", "relocated_decoy"]
            sp["border_relocator"] = ["omit"]
            sp["explicit_defaults"] = ["mapper_grids_from", "mapper", "mask", "over"]
            if mesher == "rect":
                sp["shape_container"] = ["list", "np_ints", "floats"]
        else:
            sp["preloads"] = ["default", "unrelated"]
            sp["mapper_cls"] = ["factory"]
            sp["explicit_defaults"] = ["mapper_grids", "mapper", "mask"] + (["overlay"] if mesher == "rect" else [])
            if mesher == "rect":
                sp["buffer"] = [q(BUFFER), q(F(1, 1024)), q(F(1, 2)), q(F(2))]
        return sp

    def _option_case(self, rng, mesher, route, choice):
        for _ in range(30):
            base = self._rect_case(rng, 0, {"no_int": True, "style": rng.choice(["distort", "hug", "lattice"])}) \
                if mesher == "rect" else self._delaunay_case(rng, 0, {"no_int": True})
            if not (mesher == "rect" and base["degenerate_extent"]):
                break
        base.update({"dtype": "float", "route": route, "grid_container": "irregular", "shape_container": "tuple",
                     "over": "sampler", "run_time_dict": "none"})
        opts, lay = {}, {}
        for slot, val in choice:
            if slot == "run_time_dict":
                base["run_time_dict"] = val
            elif slot == "over":
                base["over"] = val
            elif slot == "shape_container":
                base["shape_container"] = val
            elif slot == "lay.mask":
                lay["mask"] = val
            elif slot == "explicit_defaults":
                opts.setdefault("explicit_defaults", []).append(val)
            else:
                opts[slot] = val
            if slot == "mask.origin":
                base["origin"] = ["0", "0"]
            if slot == "mask.pixel_scales":
                base["scales"] = [base["scales"][0], base["scales"][0]]
        if not opts:
            opts = {"border_relocator": "none"}
        name = " x ".join(f"{a}={b}" for a, b in choice)
        return {**base, "tag": f"opt_{mesher}_{route}", "opts": opts, **({"lay": lay} if lay else {}), "opt_name": name}

    @staticmethod
    def _pairwise_cover(rng, params):
        """a pairwise covering array (greedy): a list of assignments param -> value-or-None (None = left at what the
        ordinary stream passes) such that every pair of non-default values of two different parameters occurs
        together in at least one assignment"""
        names = sorted(params)
        uncovered = {((a, va), (b, vb)) for i, a in enumerate(names) for b in names[i + 1:]
                     for va in params[a] for vb in params[b]}
        out = []
        while uncovered:
            order = names[:]
            rng.shuffle(order)
            # seed the row with one uncovered pair, then extend greedily
            (a, va), (b, vb) = rng.choice(sorted(uncovered))
            row = {a: va, b: vb}
            for nme in order:
                if nme in row:
                    continue
                best, best_gain = None, 0
                cands = params[nme][:]
                rng.shuffle(cands)
                for v in cands:
                    gain = sum(1 for o, ov in row.items() if ov is not None and
                               (((nme, v), (o, ov)) if nme < o else ((o, ov), (nme, v))) in uncovered)
                    if gain > best_gain:
                        best, best_gain = v, gain
                row[nme] = best
            got = [(k, v) for k, v in sorted(row.items()) if v is not None]
            for i, x in enumerate(got):
                for y in got[i + 1:]:
                    uncovered.discard((x, y))
            out.append(got)
        return out

    def _option_cases(self, rng, quick):
        for mesher in ("rect", "delaunay"):
            for route in ("mesh", "direct"):
                sp = self._option_space(mesher, route)
                # every entry point of `explicit_defaults` is a parameter of its own (on / off)
                params = {k: v for k, v in sp.items() if k != "explicit_defaults"}
                for ep in sp["explicit_defaults"]:
                    params[f"explicit_defaults:{ep}"] = [ep]
                singles = [(slot, v) for slot, vs in params.items() for v in vs]
                chosen = [[x] for x in (rng.sample(singles, min(len(singles), 8)) if quick else singles)]
                for _rep in range(1 if quick else 3):  # every pair of option values together, in every run
                    chosen += self._pairwise_cover(rng, params)
                if not quick:
                    chosen += [[a, b] for i, a in enumerate(singles) for b in singles[i + 1:] if a[0] != b[0]]
                for ch in chosen:
                    yield self._option_case(rng, mesher, route, [(k.split(":")[0], v) for k, v in ch])

    # ---------------------------------------------------------------- same-key families (order-of-evaluation stream)
    def _family_cases(self, rng, quick):
        """consecutive cases that share every key a careless memo could use -- mask pattern, sub-size map, mesh shape,
        number of points / vertices -- and differ in the coordinates (and, now and then, only in the mask's geometry)"""
        for mesher in ("rect", "delaunay"):
            for _fam in range(1 if quick else 4):
                ms = self._mask_subs(rng)
                hw = (rng.choice([3, 5]), rng.choice([3, 5]))
                pts = self._points(rng)
                prev = None
                for j in range(24 if quick else 36):
                    try:
                        if mesher == "rect":
                            c = self._rect_case(rng, 0, {"ms": ms, "hw": hw, "style": "distort", "no_int": True})
                        else:
                            while True:
                                p2 = self._points(rng)
                                if len(p2) == len(pts):
                                    break
                            c = self._delaunay_case(rng, 0, {"ms": ms, "pts": p2 if j % 3 else pts, "no_int": True})
                    except _Retry:
                        continue
                    if prev is not None and j % 4 == 3:  # the previous world with another mask geometry only
                        c = {**prev, "scales": qlist(gen.scales_pair(rng)), "origin": qlist(gen.origin_pair(rng))}
                    c["dtype"] = "float"
                    c["tag"] = f"fam_{mesher}"
                    prev = c
                    yield dict(c)

    # ---------------------------------------------------------------- R5-B: ownership histories
    def _own_cases(self, rng, quick):
        for _ in range(30 if quick else 400):
            mesher = rng.choice(["rect", "delaunay"])
            try:
                W0 = self._h_world(rng, mesher, force={"style": "distort"} if mesher == "rect" else None, inside=True)
                flavour = rng.choice(["same", "same", "other_between"])
                if flavour == "same":
                    worlds = [W0, dict(W0), dict(W0)]
                else:
                    f = {"ms": (mask_from_bits(W0["mask"]), W0["mask_kind"], W0["sub_size"])}
                    if mesher == "rect":
                        f.update(style="distort", hw=(W0["h"], W0["w"]))
                    W1 = self._h_world(rng, mesher, force=f, inside=True)
                    for key in ("uniform_int_sub", "over", "route", "shape_container", "run_time_dict", "reg"):
                        if key in W0:
                            W1[key] = W0[key]
                    worlds = [W0, W1, dict(W0)]
            except _Retry:
                continue
            how = rng.choice(["nan", "inc"])
            steps = []
            for j, name in enumerate("ABC"):
                steps += [{"op": "build", "m": name, "w": j}, {"op": "read", "m": name, "order": self._order(rng)}]
                if j < 2:
                    if rng.random() < 0.3:
                        steps.append({"op": "decoy", "m": name, "what": rng.choice(
                            ["mesh_neighbors", "over_sampled_grid", "sub_slim_for_pix_arr", "image_plane_data_grid"])})
                    steps.append({"op": "scribble", "m": name, "how": how})
            yield {"tag": f"own_{mesher}", "flavour": flavour, "kind": "hist", "worlds": worlds, "steps": steps}
        # the raw util entry points: call, overwrite inputs and outputs, call again with fresh equal inputs (3 rounds)
        for h in range(3, 6 if quick else 9):
            for w in range(3, 6 if quick else 9):
                yield {"tag": "own_nbr", "kind": "nbr", "h": h, "w": w, "rounds": 3, "scribble": rng.choice(["nan", "inc"])}
        for _ in range(20 if quick else 300):
            r = rng.random()
            if r < 0.5:
                c = self._table_case(rng)
            else:
                a, b = list(self._bary_cases(rng))
                c = a if r < 0.75 else b
            yield {**c, "tag": "own_" + c["kind"], "rounds": 3, "scribble": rng.choice(["nan", "inc"])}

    # ---------------------------------------------------------------- R5-D: configuration histories
    def _config_cases(self, rng, quick):
        """the C06 observables do not depend on any configuration value: whatever is flipped, and whenever, every
        read must still be the model's value for a fresh mapper of that world"""
        for _ in range(32 if quick else 440):
            mesher = rng.choice(["rect", "delaunay"])
            try:
                W0 = self._h_world(rng, mesher, force={"style": "distort"} if mesher == "rect" else None, inside=True)
            except _Retry:
                continue
            name = rng.choice(["repeats", "repeats", "repeats", "flip_ds9", "nn_max", "remove_centre"])
            val = rng.choice(CONFIG_FLIPS[name])
            if name == "repeats" and rng.random() < 0.7:
                W0["run_time_dict"] = "empty"  # the profiling decorator only reads `repeats` with a run-time dict
            flavour = rng.choice(["before", "between", "flicker", "reused"])
            bA, rA = {"op": "build", "m": "A", "w": 0}, {"op": "read", "m": "A", "order": self._order(rng)}
            bB, rB = {"op": "build", "m": "B", "w": 1}, {"op": "read", "m": "B", "order": self._order(rng)}
            cfg = {"op": "config", "set": {name: val}}
            back = {"op": "config", "set": {name: {"repeats": 1, "flip_ds9": False, "nn_max": 300, "remove_centre": False}[name]}}
            worlds = [W0, dict(W0)]
            if flavour == "before":
                steps = [cfg, bA, rA] + ([back, bB, rB] if rng.random() < 0.5 else [])
            elif flavour == "between":
                steps = [bA, {"op": "read", "m": "A", "order": self._order(rng)}, cfg, dict(rA), bB, rB]
            elif flavour == "flicker":
                steps = [{"op": "config", "set": {"native_only": True}}, {"op": "touch"},
                         {"op": "config", "set": {"native_only": False}}, cfg, bA, rA, back, bB, rB]
            else:
                carry = self._carry(W0, rng.choice([["grid"], []]))
                steps = [bA, cfg, {"op": "share", "src": 0, "dst": 1, "objs": carry}, bB, rB, rA, back, dict(rB)]
            yield {"tag": f"cfg_{mesher}", "flavour": f"{flavour}:{name}={val}", "kind": "hist", "worlds": worlds, "steps": steps}

    def theorems_for(self, case):
        common_t = ["C06.mappingMatrix_entry", "C06.mappingMatrix_rows_sum_one", "C06.slimForSubSlim_blocks",
                    "C06.unique_encodes_mapping_matrix", "C06.unique_rows_distinct"]
        if case["kind"] == "hist":
            return sorted({t_ for W in case["worlds"] for t_ in self.theorems_for(W)})
        if case["kind"] == "large":
            if case["mesher"] == "tables":
                return ["C06.mappingMatrix_shape", "C06.mappingMatrix_entry", "C06.unique_encodes_mapping_matrix",
                        "C06.unique_rows_distinct"]
            return self.theorems_for({"kind": case["mesher"]})
        return {
            "nbr": ["C06.rectNeighbors_eq_spec", "C06.rect_neighbors_four_connectivity",
                    "C06.rect_neighbors_symmetric"],
            "tables": ["C06.mappingMatrix_shape", "C06.mappingMatrix_entry", "C06.unique_encodes_mapping_matrix",
                       "C06.unique_rows_distinct"],
            "bary": ["C06.barycentric_weights", "C06.barycentric_coordinates_exist"],
            "nearest": ["C06.nearest_vertex_first_argmin", "C06.delaunay_row_outside"],
            "rect": ["C06.rect_cell_contains_point", "C06.overlay_grid_contains", "C06.trunc_contract_rat",
                     "C06.rect_mapper_rows_sum_one", "C06.rectNeighbors_eq_spec", *common_t],
            "delaunay": ["C06.barycentric_weights", "C06.delaunay_row_located", "C06.delaunay_row_outside",
                         "C06.delaunay_mapper_rows_sum_one", "C06.delaunay_neighbors_from_csr",
                         "C06.delaunay_neighbors_share_edge", "C06.delaunay_neighbors_symmetric",
                         "C06.delaunay_neighbors_adjacency", *common_t],
        }.get(case["kind"], ["C06.*"])


CHECK = C06()
