"""C06 — mapping matrices conserve flux and encode the claimed interpolation.

Case kinds
  rect        mask x per-pixel sub-size map x source-plane grid x rectangular mesh shape, through
              aa.mesh.Rectangular(...).mapper_grids_from + aa.Mapper
  delaunay    mask x sub-size map x source-plane grid x Delaunay vertex set, through aa.mesh.Delaunay
  tables      mapper_util.mapping_matrix_from / data_slim_to_pixelization_unique_from on raw tables
  nbr         mesh_util.rectangular_neighbors_from / Mesh2DRectangular.neighbors for a shape
  bary        mapper_util.pixel_weights_delaunay_from / pix_indexes_for_sub_slim_index_delaunay_from on
              hand-made simplex tables (all vertex orders, argmin ties)

Qhull (scipy.spatial.Delaunay) is not modelled: `simplices`, `find_simplex`, `vertex_neighbor_vertices`
are read from the implementation, handed to the model, and their contract is checked by the oracle with
exact rational orientation predicates on every case.
"""
from __future__ import annotations

import itertools
from fractions import Fraction as F

import numpy as np

import gen
from common import PropertyCheck, Skip, load_autoarray, mask_json, q, qlist, qmat

BUFFER = F(1e-8)  # the double the code uses as default `buffer`
SLACK = F(1, 10**9)  # containment slack (relative to the cell / triangle) for the oracle
TOL = F(1, 10**9)  # tolerance on real outputs
BAND = F(1, 10**11)  # |pixel coordinate - integer| below which a float cell decision is not compared


# ------------------------------------------------------------------------------------------------
# exact helpers
# ------------------------------------------------------------------------------------------------
def fr(x):
    return F(x)


def orient(a, b, c):
    return (b[0] - a[0]) * (c[1] - a[1]) - (b[1] - a[1]) * (c[0] - a[0])


def bary(v0, v1, v2, p):
    d = orient(v0, v1, v2)
    return [orient(p, v1, v2) / d, orient(v0, p, v2) / d, orient(v0, v1, p) / d]


def in_circle(a, b, c, d):
    """> 0 iff d strictly inside the circumcircle of the counter-clockwise triangle abc."""
    rows = []
    for p in (a, b, c):
        dx, dy = p[0] - d[0], p[1] - d[1]
        rows.append((dx, dy, dx * dx + dy * dy))
    (a1, a2, a3), (b1, b2, b3), (c1, c2, c3) = rows
    return a1 * (b2 * c3 - b3 * c2) - a2 * (b1 * c3 - b3 * c1) + a3 * (b1 * c2 - b2 * c1)


def convex_hull(pts):
    """indices of the hull vertices, counter-clockwise (Andrew monotone chain, exact)."""
    idx = sorted(range(len(pts)), key=lambda i: (pts[i][0], pts[i][1]))
    lower, upper = [], []
    for i in idx:
        while len(lower) >= 2 and orient(pts[lower[-2]], pts[lower[-1]], pts[i]) <= 0:
            lower.pop()
        lower.append(i)
    for i in reversed(idx):
        while len(upper) >= 2 and orient(pts[upper[-2]], pts[upper[-1]], pts[i]) <= 0:
            upper.pop()
        upper.append(i)
    return lower[:-1] + upper[:-1]


def general_position(pts):
    n = len(pts)
    if len(set(pts)) < n:
        return False
    for a, b, c in itertools.combinations(range(n), 3):
        if orient(pts[a], pts[b], pts[c]) == 0:
            return False
    for a, b, c, d in itertools.combinations(range(n), 4):
        pa, pb, pc = pts[a], pts[b], pts[c]
        if orient(pa, pb, pc) < 0:
            pb, pc = pc, pb
        if in_circle(pa, pb, pc, pts[d]) == 0:
            return False
    return True


def rnd(x, bits=16):
    """round a Fraction to a dyadic with `bits` fractional bits (an exact double)."""
    d = 1 << bits
    return F(round(x * d), d)


def blocks(subs):
    out, k = [], 0
    for s in subs:
        out.append((k, k + s * s))
        k += s * s
    return out


# ------------------------------------------------------------------------------------------------
class C06(PropertyCheck):
    pid = "C06"
    title = "mapping matrices"
    rtol = TOL
    atol = TOL
    nontrivial_rule = (
        "mapper cases: >= 2 unmasked pixels or a sub-size > 1, and at least two distinct source pixels hit; "
        "table cases: at least one repeated source pixel inside a data pixel; neighbour cases: every shape "
        "is non-trivial; distinct = distinct case dict"
    )
    exhaustive_note = {
        "quick": "rectangular_neighbors_from / Mesh2DRectangular.neighbors for every mesh shape 3..9 x 3..9 "
                 "(everything else is structured random generation)",
        "thorough": "rectangular_neighbors_from / Mesh2DRectangular.neighbors for every mesh shape 3..16 x 3..16 "
                    "(everything else is structured random generation)",
    }
    modelled_functions = [
        "autoarray/inversion/pixelization/mappers/mapper_util.py:mapping_matrix_from",
        "autoarray/inversion/pixelization/mappers/mapper_util.py:data_slim_to_pixelization_unique_from",
        "autoarray/inversion/pixelization/mappers/mapper_util.py:pix_indexes_for_sub_slim_index_delaunay_from",
        "autoarray/inversion/pixelization/mappers/mapper_util.py:pixel_weights_delaunay_from",
        "autoarray/inversion/pixelization/mappers/abstract.py:AbstractMapper.mapping_matrix",
        "autoarray/inversion/pixelization/mappers/abstract.py:AbstractMapper.unique_mappings",
        "autoarray/inversion/pixelization/mappers/abstract.py:AbstractMapper.neighbors",
        "autoarray/inversion/pixelization/mappers/abstract.py:AbstractMapper.pix_indexes_for_sub_slim_index",
        "autoarray/inversion/pixelization/mappers/abstract.py:AbstractMapper.pix_sizes_for_sub_slim_index",
        "autoarray/inversion/pixelization/mappers/abstract.py:AbstractMapper.pix_weights_for_sub_slim_index",
        "autoarray/inversion/pixelization/mappers/abstract.py:AbstractMapper.slim_index_for_sub_slim_index",
        "autoarray/inversion/pixelization/mappers/abstract.py:PixSubWeights.__init__",
        "autoarray/inversion/pixelization/mappers/rectangular.py:MapperRectangular.pix_sub_weights",
        "autoarray/inversion/pixelization/mappers/delaunay.py:MapperDelaunay.pix_sub_weights",
        "autoarray/inversion/pixelization/mappers/delaunay.py:MapperDelaunay.delaunay",
        "autoarray/inversion/pixelization/mappers/factory.py:mapper_from",
        "autoarray/inversion/pixelization/mappers/mapper_grids.py:MapperGrids.__init__",
        "autoarray/inversion/pixelization/mesh/mesh_util.py:rectangular_neighbors_from",
        "autoarray/inversion/pixelization/mesh/mesh_util.py:rectangular_corner_neighbors",
        "autoarray/inversion/pixelization/mesh/mesh_util.py:rectangular_top_edge_neighbors",
        "autoarray/inversion/pixelization/mesh/mesh_util.py:rectangular_left_edge_neighbors",
        "autoarray/inversion/pixelization/mesh/mesh_util.py:rectangular_right_edge_neighbors",
        "autoarray/inversion/pixelization/mesh/mesh_util.py:rectangular_bottom_edge_neighbors",
        "autoarray/inversion/pixelization/mesh/mesh_util.py:rectangular_central_neighbors",
        "autoarray/inversion/pixelization/mesh/mesh_util.py:delaunay_triangle_area_from",
        "autoarray/inversion/pixelization/mesh/rectangular.py:Rectangular.__init__",
        "autoarray/inversion/pixelization/mesh/rectangular.py:Rectangular.mapper_grids_from",
        "autoarray/inversion/pixelization/mesh/rectangular.py:Rectangular.mesh_grid_from",
        "autoarray/inversion/pixelization/mesh/triangulation.py:Triangulation.mapper_grids_from",
        "autoarray/inversion/pixelization/mesh/delaunay.py:Delaunay.mesh_grid_from",
        "autoarray/inversion/pixelization/mesh/abstract.py:AbstractMesh.relocated_grid_from",
        "autoarray/inversion/pixelization/mesh/abstract.py:AbstractMesh.relocated_mesh_grid_from",
        "autoarray/structures/mesh/rectangular_2d.py:Mesh2DRectangular.__init__",
        "autoarray/structures/mesh/rectangular_2d.py:Mesh2DRectangular.overlay_grid",
        "autoarray/structures/mesh/rectangular_2d.py:Mesh2DRectangular.neighbors",
        "autoarray/structures/mesh/rectangular_2d.py:Mesh2DRectangular.pixels",
        "autoarray/structures/mesh/delaunay_2d.py:Mesh2DDelaunay.neighbors",
        "autoarray/structures/mesh/triangulation_2d.py:Abstract2DMeshTriangulation.__init__",
        "autoarray/structures/mesh/triangulation_2d.py:Abstract2DMeshTriangulation.delaunay",
        "autoarray/structures/mesh/triangulation_2d.py:Abstract2DMeshTriangulation.pixels",
        "autoarray/inversion/linear_obj/unique_mappings.py:UniqueMappings.__init__",
        "autoarray/inversion/linear_obj/neighbors.py:Neighbors.__new__",
        "autoarray/geometry/geometry_util.py:central_pixel_coordinates_2d_from",
        "autoarray/geometry/geometry_util.py:central_scaled_coordinate_2d_from",
        "autoarray/geometry/geometry_util.py:grid_pixel_centres_2d_slim_from",
        "autoarray/geometry/geometry_util.py:grid_pixel_indexes_2d_slim_from",
        "autoarray/structures/grids/grid_2d_util.py:grid_2d_slim_via_shape_native_from",
        "autoarray/operators/over_sampling/over_sample_util.py:slim_index_for_sub_slim_index_via_mask_2d_from",
        "autoarray/operators/over_sampling/over_sample_util.py:total_sub_pixels_2d_from",
        "autoarray/operators/over_sampling/uniform.py:OverSamplerUniform.__init__",
        "autoarray/operators/over_sampling/uniform.py:OverSamplerUniform.sub_length",
        "autoarray/operators/over_sampling/uniform.py:OverSamplerUniform.sub_fraction",
        "autoarray/operators/over_sampling/uniform.py:OverSamplerUniform.slim_for_sub_slim",
    ]
    trusted_extra = [
        "Qhull via scipy.spatial.Delaunay (simplices, find_simplex, vertex_neighbor_vertices): modelled, not "
        "verified; contract (non-degenerate Delaunay simplices, located point in its simplex, unlocated point "
        "outside the hull, CSR neighbours = simplex edges) checked exactly on every Delaunay case",
        "IEEE rounding of the area ratios / cell coordinates: theorems are over exact ordered fields; real "
        "outputs compared at 1e-9, cell decisions within 1e-11 of a cell boundary are not compared",
    ]
    assumptions = [
        "Delaunay vertex sets in general position (no 3 collinear, no 4 cocircular)",
        "rectangular meshes produced by overlay_grid on the same grid, shape >= 3x3",
        "Voronoi natural-neighbour weights out of scope (C library absent)",
    ]

    # ============================================================== generation
    def generate(self, tier, rng):
        quick = tier == "quick"
        # 1. rectangular neighbour tables, exhaustive over shapes
        top = 9 if quick else 16
        for h in range(3, top + 1):
            for w in range(3, top + 1):
                yield {"tag": "nbr_exhaustive", "kind": "nbr", "h": h, "w": w}
        # 2. barycentric weights / nearest vertex on hand-made tables
        for _ in range(60 if quick else 600):
            yield from self._bary_cases(rng)
        # 3. raw tables through the util functions
        for _ in range(400 if quick else 4000):
            yield self._table_case(rng)
        # 4. mappers
        n = 700 if quick else 7000
        for i in range(n):
            yield self._rect_case(rng, i)
        for i in range(n):
            yield self._delaunay_case(rng, i)

    # ---- ingredients
    def _mask_subs(self, rng, max_sub_total=48):
        while True:
            h, w = rng.randint(1, 4), rng.randint(1, 4)
            m, kind = gen.random_mask(rng, h, w)
            n = sum(1 for r in m for b in r if not b)
            mode = rng.random()
            if mode < 0.2:
                s = rng.randint(1, 4)
                subs = [s] * n
            else:
                subs = [rng.randint(1, 4) for _ in range(n)]
            tot = sum(s * s for s in subs)
            if tot <= max_sub_total and (tot >= 3 or rng.random() < 0.1):
                return m, kind, subs

    def _image_grid(self, rng, m, subs):
        """my own over-sampled image-plane positions (only used as a smooth starting point)."""
        h, w = len(m), len(m[0])
        sy, sx = gen.scales_pair(rng)
        oy, ox = gen.origin_pair(rng)
        pts = []
        k = 0
        for y in range(h):
            for x in range(w):
                if m[y][x]:
                    continue
                s = subs[k]
                k += 1
                yc = oy + (F(h - 1, 2) - y) * sy
                xc = ox + (x - F(w - 1, 2)) * sx
                for y1 in range(s):
                    for x1 in range(s):
                        pts.append((yc + sy / 2 - (F(2 * y1 + 1, 2)) * sy / s,
                                    xc - sx / 2 + (F(2 * x1 + 1, 2)) * sx / s))
        return pts

    def _distort(self, rng, pts):
        """affine + quadratic distortion + jitter, rounded to dyadics (exact doubles)."""
        while True:
            a = [gen.dyadic(rng, -2, 2, 2) for _ in range(4)]
            if a[0] * a[3] - a[1] * a[2] != 0:
                break
        t = (gen.dyadic(rng, -3, 3, 2), gen.dyadic(rng, -3, 3, 2))
        c = [gen.dyadic(rng, -1, 1, 4) * F(1, 4) for _ in range(6)]
        jit = rng.choice([0, 0, 3, 5])
        out = []
        for (y, x) in pts:
            yy = a[0] * y + a[1] * x + t[0] + c[0] * y * y + c[1] * x * y + c[2] * x * x
            xx = a[2] * y + a[3] * x + t[1] + c[3] * y * y + c[4] * x * y + c[5] * x * x
            if jit:
                yy += gen.dyadic(rng, -1, 1, jit) * F(1, 4)
                xx += gen.dyadic(rng, -1, 1, jit) * F(1, 4)
            out.append((rnd(yy), rnd(xx)))
        return out

    def _plumbing(self, rng, int_ok):
        """round-3 hardening axes: dtype / container of every array argument, alternative constructors,
        set-but-falsy optionals.  The exact model ignores all of them: results must be the same reals."""
        dt = "float"
        if int_ok and rng.random() < 0.9:
            # (tuples of tuples are not an accepted coordinate container of Grid2DIrregular / Mesh2DDelaunay)
            dt = rng.choice(["int_array", "int_list"])
        return {"dtype": dt,
                "grid_container": rng.choice(["irregular", "irregular", "ndarray"]),
                "route": rng.choice(["mesh", "mesh", "direct"]),
                "shape_container": rng.choice(["tuple", "tuple", "list"]),
                "over": rng.choice(["sampler", "sampler", "sampling"]),
                "run_time_dict": rng.choice(["none", "none", "empty"])}

    def _rect_case(self, rng, i):
        m, kind, subs = self._mask_subs(rng)
        n = sum(s * s for s in subs)
        h, w = rng.randint(3, 6), rng.randint(3, 6)
        style = rng.choice(["distort", "distort", "distort", "hug", "hug", "lattice", "line", "clump"])
        want_int = rng.random() < 0.22 and style != "hug"
        if want_int:
            # integer points sit exactly on the middle boundary of an even mesh far too often: odd sides
            h, w = rng.choice([3, 5]), rng.choice([3, 5])
        if style == "distort" or n < 3:
            style = "distort"
            pts = self._distort(rng, self._image_grid(rng, m, subs))
        elif style == "hug":
            # pin the extent with two corners, put the rest next to cell boundaries at (1 +- 2^-20)
            a, b = gen.pos_dyadic(rng, 1, 3, 2), gen.pos_dyadic(rng, 1, 3, 2)
            y0, x0 = gen.dyadic(rng, -4, 4, 2), gen.dyadic(rng, -4, 4, 2)
            pts = [(y0, x0), (y0 + h * a, x0 + w * b)]
            eps = F(1, 1 << 20)
            while len(pts) < n:
                ky, kx = rng.randint(0, h), rng.randint(0, w)
                # offset 0 = exactly a lattice point, 1e-8/scale away from the boundary (the overlay buffer)
                # except on the middle boundary of an even mesh, where it is exactly on it: avoided
                dy = rng.choice([-1, 1, 0 if 2 * ky != h else 1]) * eps * a * rng.choice([1, 1, 2, 64])
                dx = rng.choice([-1, 1, 0 if 2 * kx != w else -1]) * eps * b * rng.choice([1, 1, 2, 64])
                if rng.random() < 0.3:
                    dy = gen.dyadic(rng, 0, 1, 4) * a
                if rng.random() < 0.3:
                    dx = gen.dyadic(rng, 0, 1, 4) * b
                y, x = y0 + ky * a + dy, x0 + kx * b + dx
                y = min(max(y, y0), y0 + h * a)
                x = min(max(x, x0), x0 + w * b)
                if h % 2 == 0 and y == y0 + (h // 2) * a:
                    y += eps * a
                if w % 2 == 0 and x == x0 + (w // 2) * b:
                    x -= eps * b
                pts.append((y, x))
            head, tail = pts[:2], pts[2:]
            rng.shuffle(tail)
            pos = sorted(rng.sample(range(n), 2))
            tail.insert(pos[0], head[0])
            tail.insert(pos[1], head[1])
            pts = tail
        elif style == "lattice":
            a, b = gen.pos_dyadic(rng, 1, 3, 2), gen.pos_dyadic(rng, 1, 3, 2)
            pts = [(a * rng.choice([v for v in range(2 * h + 1) if v != h or h % 2]),
                    b * rng.choice([v for v in range(2 * w + 1) if v != w or w % 2])) for _ in range(n)]
            pts[0] = (F(0), F(0))
            pts[-1] = (a * 2 * h, b * 2 * w)
        elif style == "line":
            y = gen.dyadic(rng, -4, 4, 3)
            pts = [(y, gen.dyadic(rng, -6, 6, 6)) for _ in range(n)]
            if rng.random() < 0.5:
                pts = [(x, y) for (y, x) in pts]
            if len(set(pts)) < 2:
                pts[0] = (pts[0][0] + 1, pts[0][1] + 1)
        else:  # clump: many coincident points + two far ones
            c = (gen.dyadic(rng, -2, 2, 3), gen.dyadic(rng, -2, 2, 3))
            pts = [c] * n
            pts[rng.randrange(n)] = (c[0] + gen.pos_dyadic(rng, 1, 9, 2), c[1] - gen.pos_dyadic(rng, 1, 9, 2))
            pts[rng.randrange(n)] = (c[0] - gen.pos_dyadic(rng, 1, 9, 2), c[1] + gen.pos_dyadic(rng, 1, 9, 2))
        if want_int:
            # integer-valued coordinates, fed through integer-dtype arrays / python int containers
            pts = [(F(round(4 * p[0])), F(round(4 * p[1]))) for p in pts]
        ys = {p[0] for p in pts}
        xs = {p[1] for p in pts}
        # a degenerate extent puts every point at pixel coordinate H/2 (W/2): exactly on a cell boundary
        # when that side is even, so use odd sides there
        if len(ys) < 2 and h % 2 == 0:
            h += 1
        if len(xs) < 2 and w % 2 == 0:
            w -= 1
        return {"tag": f"rect_{style}" + ("_int" if want_int else ""), "kind": "rect", "mask": mask_json(m),
                "mask_kind": kind, **self._plumbing(rng, want_int),
                "sub_size": subs, "uniform_int_sub": len(set(subs)) == 1 and rng.random() < 0.5,
                "scales": [q(F(1)), q(F(1))] if rng.random() < 0.5 else qlist(gen.scales_pair(rng)),
                "origin": qlist(gen.origin_pair(rng)),
                "grid": [qlist(p) for p in pts], "h": h, "w": w,
                "degenerate_extent": len(ys) < 2 or len(xs) < 2}

    def _points(self, rng, integer=False):
        while True:
            n = rng.choice([3, 4, 4, 5, 5, 6, 7, 8, 9, 10])
            bits = rng.choice([2, 3, 4])
            if integer:
                n = min(n, 8)
                pts = [(F(rng.randint(-9, 9)), F(rng.randint(-9, 9))) for _ in range(n)]
            else:
                pts = [(gen.dyadic(rng, -4, 4, bits), gen.dyadic(rng, -4, 4, bits)) for _ in range(n)]
            if general_position(pts):
                return pts

    def _delaunay_case(self, rng, i):
        m, kind, subs = self._mask_subs(rng)
        n = sum(s * s for s in subs)
        pts = self._points(rng)
        style = rng.choice(["distort", "special", "special", "hullhug"])
        want_int = rng.random() < 0.22
        if want_int:
            # integer vertices and integer grid points (vertices, lattice points inside and outside the hull)
            style = "intgrid"
            pts = self._points(rng, integer=True)
            g = []
            while len(g) < n:
                r = rng.random()
                if r < 0.2:
                    g.append(rng.choice(pts))
                elif r < 0.5:
                    a, b = rng.sample(range(len(pts)), 2)
                    g.append((F(int((pts[a][0] + pts[b][0]) // 2)), F(int((pts[a][1] + pts[b][1]) // 2))))
                else:
                    g.append((F(rng.randint(-12, 12)), F(rng.randint(-12, 12))))
        elif style == "distort":
            g = self._distort(rng, self._image_grid(rng, m, subs))
            # bring the cloud onto the mesh (half of the time) so both branches are hit
            if rng.random() < 0.6:
                cy = sum(p[0] for p in pts) / len(pts)
                cx = sum(p[1] for p in pts) / len(pts)
                gy = sum(p[0] for p in g) / len(g)
                gx = sum(p[1] for p in g) / len(g)
                sc = rng.choice([F(1, 4), F(1, 2), F(1)])
                g = [(rnd((p[0] - gy) * sc + cy), rnd((p[1] - gx) * sc + cx)) for p in g]
        elif style == "special":
            g = []
            while len(g) < n:
                r = rng.random()
                a, b, c = rng.sample(range(len(pts)), 3)
                if r < 0.15:
                    g.append(pts[a])  # exactly a vertex
                elif r < 0.3:
                    g.append(((pts[a][0] + pts[b][0]) / 2, (pts[a][1] + pts[b][1]) / 2))  # chord midpoint
                elif r < 0.7:
                    l0 = F(rng.randint(0, 8), 8)
                    l1 = F(rng.randint(0, 8 - int(l0 * 8)), 8)
                    l2 = 1 - l0 - l1
                    g.append((l0 * pts[a][0] + l1 * pts[b][0] + l2 * pts[c][0],
                              l0 * pts[a][1] + l1 * pts[b][1] + l2 * pts[c][1]))
                elif r < 0.85:
                    g.append((pts[a][0] + gen.dyadic(rng, -1, 1, 10) * F(1, 64),
                              pts[a][1] + gen.dyadic(rng, -1, 1, 10) * F(1, 64)))
                else:
                    g.append((gen.dyadic(rng, -9, 9, 3), gen.dyadic(rng, -9, 9, 3)))  # mostly outside
        else:  # hull-hugging: next to hull edges, just inside / just outside
            hull = convex_hull(pts)
            cy = sum(pts[i][0] for i in hull) / len(hull)
            cx = sum(pts[i][1] for i in hull) / len(hull)
            g = []
            eps = F(1, 1 << 20)
            while len(g) < n:
                k = rng.randrange(len(hull))
                a, b = pts[hull[k]], pts[hull[(k + 1) % len(hull)]]
                t = F(rng.randint(1, 15), 16)
                py, px = a[0] + t * (b[0] - a[0]), a[1] + t * (b[1] - a[1])
                s = rng.choice([-1, 1]) * eps * rng.choice([1, 4, 1024])
                g.append((rnd(py + s * (py - cy), 40), rnd(px + s * (px - cx), 40)))
        return {"tag": f"delaunay_{style}", "kind": "delaunay", "mask": mask_json(m), "mask_kind": kind,
                **self._plumbing(rng, want_int),
                "sub_size": subs, "uniform_int_sub": len(set(subs)) == 1 and rng.random() < 0.5,
                "scales": qlist(gen.scales_pair(rng)), "origin": qlist(gen.origin_pair(rng)),
                "grid": [qlist(p) for p in g], "points": [qlist(p) for p in pts]}

    def _table_case(self, rng):
        n = rng.randint(1, 5)
        subs = [rng.randint(1, 3) for _ in range(n)]
        if rng.random() < 0.2:
            subs = [rng.randint(1, 4) for _ in range(n)]
        nsub = sum(s * s for s in subs)
        pixels = rng.randint(1, 7)
        kmax = rng.randint(1, 4)
        allow_zero = rng.random() < 0.25
        signed = rng.random() < 0.5
        idx, sizes, wts = [], [], []
        for _ in range(nsub):
            sz = rng.randint(0 if allow_zero else 1, kmax)
            row = [rng.randrange(pixels) for _ in range(sz)] + [-1] * (kmax - sz)
            wrow = [gen.dyadic(rng, -4 if signed else 0, 4, 3) for _ in range(sz)] + [F(0)] * (kmax - sz)
            idx.append(row)
            sizes.append(sz)
            wts.append(wrow)
        if max(sizes) == 0:
            sizes[0] = 1
            idx[0][0] = 0
        int_w = rng.random() < 0.2
        if int_w:
            wts = [[F(round(v)) for v in r] for r in wts]
        return {"tag": ("tables_signed" if signed else "tables_nonneg") + ("_int" if int_w else ""),
                "kind": "tables", "sub_size": subs, "dtype": "int_array" if int_w else "float",
                "pixels": pixels, "idx": idx, "sizes": sizes, "wts": [qlist(r) for r in wts]}

    def _bary_cases(self, rng):
        # a non-degenerate triangle, a point inside (dyadic convex combination), all 6 vertex orders,
        # embedded in a mesh grid with decoy vertices
        int_in = rng.random() < 0.3
        while True:
            if int_in:
                # integer vertices = 16 * small integers, so the dyadic convex combination is an integer point
                tri = [(F(16 * rng.randint(-4, 4)), F(16 * rng.randint(-4, 4))) for _ in range(3)]
            else:
                tri = [(gen.dyadic(rng, -4, 4, 3), gen.dyadic(rng, -4, 4, 3)) for _ in range(3)]
            if orient(*tri) != 0:
                break
        l0 = F(rng.randint(0, 16), 16)
        l1 = F(rng.randint(0, 16 - int(l0 * 16)), 16)
        lam = [l0, l1, 1 - l0 - l1]
        p = (sum(l * v[0] for l, v in zip(lam, tri)), sum(l * v[1] for l, v in zip(lam, tri)))
        if int_in:
            decoys = [(F(rng.randint(-64, 64)), F(rng.randint(-64, 64))) for _ in range(rng.randint(0, 3))]
        else:
            decoys = [(gen.dyadic(rng, -4, 4, 3), gen.dyadic(rng, -4, 4, 3)) for _ in range(rng.randint(0, 3))]
        mesh = decoys + tri
        rng.shuffle(mesh)
        ids = [mesh.index(v) for v in tri]
        rows = [list(perm) for perm in itertools.permutations(ids)]
        yield {"tag": "bary_orders" + ("_int" if int_in else ""), "kind": "bary",
               "dtype": rng.choice(["int_array", "int_mesh_only"]) if int_in else "float",
               "mesh": [qlist(v) for v in mesh],
               "grid": [qlist(p)] * len(rows) + [qlist(p)], "idx": rows + [[ids[0], -1, -1]]}
        # nearest vertex with ties: points on a small integer lattice, query with equal distances
        pts = [(F(rng.randint(-2, 2)), F(rng.randint(-2, 2))) for _ in range(rng.randint(1, 7))]
        qs = [(F(rng.randint(-4, 4), 2), F(rng.randint(-4, 4), 2)) for _ in range(4)]
        int_near = rng.random() < 0.3
        if int_near:
            qs = [(F(rng.randint(-4, 4)), F(rng.randint(-4, 4))) for _ in range(4)]
        yield {"tag": "nearest_ties" + ("_int" if int_near else ""), "kind": "nearest",
               "dtype": "int_array" if int_near else "float", "points": [qlist(v) for v in pts],
               "grid": [qlist(v) for v in qs]}

    # ============================================================== implementation
    def _np(self, pairs, dtype="float"):
        """(N,2) coordinates as float64 ndarray / int64 ndarray / python int lists / tuples."""
        if dtype == "float" or dtype is None:
            return np.array([[float(F(a)), float(F(b))] for a, b in pairs], dtype=float).reshape(-1, 2)
        ints = []
        for a, b in pairs:
            fa, fb = F(a), F(b)
            assert fa.denominator == 1 and fb.denominator == 1, "integer-dtype case with non-integer coordinate"
            ints.append([int(fa), int(fb)])
        if dtype == "int_list":
            return ints
        if dtype == "int_tuple":
            return tuple(tuple(r) for r in ints)
        return np.array(ints, dtype=np.int64).reshape(-1, 2)

    def run_impl(self, case):
        aa = load_autoarray()
        kind = case["kind"]
        if kind == "nbr":
            from autoarray.inversion.pixelization.mesh import mesh_util

            nb, sz = mesh_util.rectangular_neighbors_from(shape_native=(case["h"], case["w"]))
            mesh = aa.Mesh2DRectangular.overlay_grid(
                shape_native=(case["h"], case["w"]), grid=np.array([[0.0, 0.0], [1.0, 1.0]]))
            nb2 = mesh.neighbors
            return {"neighbors": [[int(v) for v in r] for r in nb], "neighbors_sizes": [int(v) for v in sz],
                    "mesh.neighbors": [[int(v) for v in r] for r in np.asarray(nb2)],
                    "mesh.neighbors.sizes": [int(v) for v in nb2.sizes]}
        if kind == "tables":
            from autoarray.inversion.pixelization.mappers import mapper_util

            subs = np.array(case["sub_size"], dtype=int)
            idx = np.array(case["idx"], dtype=int)
            sizes = np.array(case["sizes"], dtype=int)
            wts = np.array([[float(F(v)) for v in r] for r in case["wts"]], dtype=float)
            if case.get("dtype") == "int_array":
                wts = wts.astype(np.int64)
            slim_for = np.array([i for i, s in enumerate(case["sub_size"]) for _ in range(s * s)], dtype=int)
            mm = mapper_util.mapping_matrix_from(
                pix_indexes_for_sub_slim_index=idx, pix_size_for_sub_slim_index=sizes,
                pix_weights_for_sub_slim_index=wts, pixels=case["pixels"], total_mask_pixels=len(subs),
                slim_index_for_sub_slim_index=slim_for, sub_fraction=1.0 / subs.astype(float) ** 2)
            d2p, dw, pl = mapper_util.data_slim_to_pixelization_unique_from(
                data_pixels=len(subs), pix_indexes_for_sub_slim_index=idx,
                pix_sizes_for_sub_slim_index=sizes, pix_weights_for_sub_slim_index=wts,
                pix_pixels=case["pixels"], sub_size=subs)
            return {"mapping_matrix": qmat(mm),
                    "unique": {"data_to_pix_unique": [[int(v) for v in r] for r in d2p],
                               "data_weights": qmat(dw), "pix_lengths": [int(v) for v in pl]}}
        if kind == "bary":
            from autoarray.inversion.pixelization.mappers import mapper_util

            dt = case.get("dtype", "float")
            grid = self._np(case["grid"], "int_array" if dt == "int_array" else "float")
            w = mapper_util.pixel_weights_delaunay_from(
                source_plane_data_grid=grid,
                source_plane_mesh_grid=self._np(case["mesh"], "float" if dt == "float" else "int_array"),
                slim_index_for_sub_slim_index=np.zeros(len(grid), dtype=int),
                pix_indexes_for_sub_slim_index=np.array(case["idx"], dtype=int))
            return {"weights": qmat(w)}
        if kind == "nearest":
            from autoarray.inversion.pixelization.mappers import mapper_util

            grid = self._np(case["grid"], case.get("dtype", "float"))
            mp, sz = mapper_util.pix_indexes_for_sub_slim_index_delaunay_from(
                source_plane_data_grid=grid,
                simplex_index_for_sub_slim_index=-1 * np.ones(len(grid), dtype=int),
                pix_indexes_for_simplex_index=np.zeros((0, 3), dtype=int),
                delaunay_points=self._np(case["points"], case.get("dtype", "float")))
            return {"mappings": [[int(v) for v in r] for r in mp], "sizes": [int(v) for v in sz]}
        # ---- mappers through the public API
        m = np.array([c == "1" for c in case["mask"]["bits"]], dtype=bool).reshape(
            case["mask"]["h"], case["mask"]["w"])
        mask = aa.Mask2D(mask=m, pixel_scales=tuple(float(F(v)) for v in case["scales"]),
                         origin=tuple(float(F(v)) for v in case["origin"]))
        subs = case["sub_size"]
        if case.get("uniform_int_sub"):
            sub = int(subs[0])
        else:
            sub = aa.Array2D(values=np.array(subs, dtype=int), mask=mask)
        if case.get("over") == "sampling":
            over = aa.OverSamplingUniform(sub_size=sub).over_sampler_from(mask=mask)
        else:
            over = aa.OverSamplerUniform(mask=mask, sub_size=sub)
        dt = case.get("dtype", "float")
        rtd = {} if case.get("run_time_dict") == "empty" else None
        raw = self._np(case["grid"], dt)
        if case.get("grid_container") == "ndarray":
            grid = np.asarray(raw)  # a bare ndarray where a grid structure is accepted
        else:
            grid = aa.Grid2DIrregular(values=raw)
        direct = case.get("route") == "direct"
        if kind == "rect":
            shp = (case["h"], case["w"]) if case.get("shape_container") != "list" else [case["h"], case["w"]]
            if direct:
                # alternative constructor: mesh object and mapper class built by hand
                mesh_obj = aa.Mesh2DRectangular.overlay_grid(shape_native=shp, grid=grid)
                mg = aa.MapperGrids(mask=mask, source_plane_data_grid=grid, source_plane_mesh_grid=mesh_obj,
                                    run_time_dict=rtd)
                mapper = aa.MapperRectangular(mapper_grids=mg, over_sampler=over, border_relocator=None,
                                              regularization=None, run_time_dict=rtd)
            else:
                mg = aa.mesh.Rectangular(shape=shp).mapper_grids_from(
                    mask=mask, border_relocator=None, source_plane_data_grid=grid, run_time_dict=rtd)
                mapper = aa.Mapper(mapper_grids=mg, over_sampler=over, regularization=None, run_time_dict=rtd)
        else:
            pts_in = self._np(case["points"], dt)
            if direct:
                mg = aa.MapperGrids(mask=mask, source_plane_data_grid=grid,
                                    source_plane_mesh_grid=aa.Mesh2DDelaunay(values=pts_in), run_time_dict=rtd)
                mapper = aa.MapperDelaunay(mapper_grids=mg, over_sampler=over, border_relocator=None,
                                           regularization=None, run_time_dict=rtd)
            else:
                mg = aa.mesh.Delaunay().mapper_grids_from(
                    mask=mask, border_relocator=None, source_plane_data_grid=grid,
                    source_plane_mesh_grid=aa.Grid2DIrregular(values=pts_in), run_time_dict=rtd)
                mapper = aa.Mapper(mapper_grids=mg, over_sampler=over, regularization=None, run_time_dict=rtd)
        psw = mapper.pix_sub_weights
        um = mapper.unique_mappings
        nb = mapper.neighbors
        mesh = mapper.source_plane_mesh_grid
        obs = {
            "class": type(mapper).__name__,
            "slim_for_sub_slim": [int(v) for v in mapper.slim_index_for_sub_slim_index],
            "sub_fraction": qlist(np.asarray(over.sub_fraction)),
            "mappings": [[int(v) for v in r] for r in np.asarray(psw.mappings)],
            "sizes": [int(v) for v in np.asarray(psw.sizes)],
            "weights": qmat(np.asarray(psw.weights)),
            "mapping_matrix": qmat(np.asarray(mapper.mapping_matrix)),
            "unique": {"data_to_pix_unique": [[int(v) for v in r] for r in um.data_to_pix_unique],
                       "data_weights": qmat(um.data_weights), "pix_lengths": [int(v) for v in um.pix_lengths]},
            "neighbors": [[int(v) for v in r] for r in np.asarray(nb)],
            "neighbors_sizes": [int(v) for v in nb.sizes],
            "mesh.neighbors_same": bool(np.array_equal(np.asarray(mesh.neighbors), np.asarray(nb))),
            "pixels": int(mapper.pixels),
        }
        if kind == "rect":
            obs["geom"] = {"sy": q(mesh.pixel_scales[0]), "sx": q(mesh.pixel_scales[1]),
                           "oy": q(mesh.origin[0]), "ox": q(mesh.origin[1])}
            obs["shape_native"] = [int(v) for v in mesh.shape_native]
        else:
            d = mapper.delaunay
            indptr, indices = d.vertex_neighbor_vertices
            obs["_qhull"] = {
                "simplices": [[int(v) for v in r] for r in d.simplices],
                "find_simplex": [int(v) for v in d.find_simplex(np.asarray(grid))],
                "indptr": [int(v) for v in indptr], "indices": [int(v) for v in indices],
                "points": qmat(d.points),
            }
        return obs

    # ============================================================== model
    def model_requests(self, case, obs):
        kind = case["kind"]
        if isinstance(obs, dict) and "err" in obs:
            # still ask the model, so an implementation exception on a legal input is a disagreement
            if kind in ("rect", "delaunay"):
                return []
        if kind == "nbr":
            return [{"op": "c06.rect_neighbors", "h": case["h"], "w": case["w"]}]
        if kind == "tables":
            subs = case["sub_size"]
            slim_for = [i for i, s in enumerate(subs) for _ in range(s * s)]
            return [
                {"op": "c06.mapping_matrix", "idx": case["idx"], "sizes": case["sizes"], "wts": case["wts"],
                 "pixels": case["pixels"], "total": len(subs), "slim_for": slim_for,
                 "frac": [q(F(1, s * s)) for s in subs]},
                {"op": "c06.unique_from", "idx": case["idx"], "sizes": case["sizes"], "wts": case["wts"],
                 "pix_pixels": case["pixels"], "data_pixels": len(subs), "sub_size": subs},
            ]
        if kind == "bary":
            reqs = []
            for row, p in zip(case["idx"], case["grid"]):
                if row[1] != -1:
                    reqs.append({"op": "c06.bary_weights", "v0": case["mesh"][row[0]], "v1": case["mesh"][row[1]],
                                 "v2": case["mesh"][row[2]], "p": p})
            return reqs
        if kind == "nearest":
            return [{"op": "c06.nearest_vertex", "points": case["points"], "p": p} for p in case["grid"]]
        if kind == "rect":
            return [{"op": "c06.mapper_rect", "mask": case["mask"], "sub_size": case["sub_size"],
                     "grid": case["grid"], "h": case["h"], "w": case["w"], "buffer": q(BUFFER),
                     "geom": obs["geom"]}]
        qh = obs["_qhull"]
        return [{"op": "c06.mapper_delaunay", "mask": case["mask"], "sub_size": case["sub_size"],
                 "grid": case["grid"], "points": case["points"], "simplices": qh["simplices"],
                 "find_simplex": qh["find_simplex"], "indptr": qh["indptr"], "indices": qh["indices"]}]

    def model_obs(self, case, responses):
        kind = case["kind"]
        for r in responses:
            if "err" in r:
                return {"err": r["err"]}
        if kind == "tables":
            return {"mapping_matrix": responses[0]["ok"], "unique": responses[1]["ok"]}
        if kind == "bary":
            return {"weights": [r["ok"] for r in responses] + [["1", "0", "0"]]}
        if kind == "nearest":
            return {"mappings": [[r["ok"], -1, -1] for r in responses], "sizes": [1] * len(responses)}
        return responses[0]["ok"]

    MAPPER_KEYS = ["slim_for_sub_slim", "sub_fraction", "mappings", "sizes", "weights", "mapping_matrix",
                   "unique", "neighbors", "neighbors_sizes"]

    def compare(self, case, impl, model, cmp):
        kind = case["kind"]
        if "err" in impl or "err" in model:
            return cmp.diff(impl, model)
        if kind == "nbr":
            if model.get("spec_equal") is not True:
                return "model: Impl.rectNeighbors != Spec.rectNeighbors for this shape"
            d = cmp.diff({"neighbors": impl["neighbors"], "neighbors_sizes": impl["neighbors_sizes"]},
                         {"neighbors": model["neighbors"], "neighbors_sizes": model["neighbors_sizes"]})
            if d:
                return d
            return cmp.diff({"neighbors": impl["mesh.neighbors"], "neighbors_sizes": impl["mesh.neighbors.sizes"]},
                            {"neighbors": model["neighbors"], "neighbors_sizes": model["neighbors_sizes"]},
                            "$mesh")
        if kind in ("tables", "bary", "nearest"):
            return cmp.diff(impl, model)
        if kind == "rect":
            # cell decisions taken by float arithmetic within BAND of a boundary are not compared
            for (fy, fx) in model["pixel_coord"]:
                for v in (F(fy), F(fx)):
                    if abs(v - round(v)) <= BAND * max(1, abs(v)):
                        raise Skip("sub-pixel within 1e-11 of a cell boundary")
            d = cmp.diff(impl["geom"], model["overlay"], "$geom")
            if d:
                return d
            if impl["shape_native"] != [case["h"], case["w"]]:
                return f"mesh shape {impl['shape_native']}"
        else:
            # Qhull's neighbour sets must equal the simplex edge relation (model-side check)
            got = [sorted(r[:s]) for r, s in zip(impl["neighbors"], impl["neighbors_sizes"])]
            if got != model["neighbors_from_simplices"]:
                return f"neighbours (as sets) != edge relation of the simplices: {got} vs {model['neighbors_from_simplices']}"
        if not impl["mesh.neighbors_same"]:
            return "mapper.neighbors differs from source_plane_mesh_grid.neighbors"
        return cmp.diff({k: impl[k] for k in self.MAPPER_KEYS}, {k: model[k] for k in self.MAPPER_KEYS})

    # ============================================================== oracle
    def oracle(self, case, obs):
        if isinstance(obs, dict) and "err" in obs:
            return False, f"implementation raised {obs}"
        kind = case["kind"]
        if kind == "nbr":
            for key_n, key_s in (("neighbors", "neighbors_sizes"), ("mesh.neighbors", "mesh.neighbors.sizes")):
                ok, why = self._check_rect_neighbors(case["h"], case["w"], obs[key_n], obs[key_s])
                if not ok:
                    return False, f"{key_n}: {why}"
            return True, ""
        if kind == "tables":
            subs = case["sub_size"]
            wts = [[F(v) for v in r] for r in case["wts"]]
            return self._check_matrix_and_unique(subs, case["idx"], case["sizes"], wts, case["pixels"],
                                                 obs["mapping_matrix"], obs["unique"], rows_sum=False)
        if kind == "bary":
            mesh = [(F(a), F(b)) for a, b in case["mesh"]]
            for row, p, w in zip(case["idx"], case["grid"], obs["weights"]):
                w = [F(v) for v in w]
                if row[1] == -1:
                    if w != [1, 0, 0]:
                        return False, f"single-vertex row has weights {w}"
                    continue
                lam = bary(mesh[row[0]], mesh[row[1]], mesh[row[2]], (F(p[0]), F(p[1])))
                if any(abs(a - b) > TOL for a, b in zip(w, lam)):
                    return False, (f"weights {[float(v) for v in w]} are not the barycentric coordinates "
                                   f"{[float(v) for v in lam]} in vertex order {row}")
            return True, ""
        if kind == "nearest":
            pts = [(F(a), F(b)) for a, b in case["points"]]
            for p, row, sz in zip(case["grid"], obs["mappings"], obs["sizes"]):
                p = (F(p[0]), F(p[1]))
                d = [(v[0] - p[0]) ** 2 + (v[1] - p[1]) ** 2 for v in pts]
                if row != [d.index(min(d)), -1, -1] or sz != 1:
                    return False, f"point {p}: row {row} is not [first nearest vertex {d.index(min(d))}, -1, -1]"
            return True, ""
        # ---------------- mappers
        subs = case["sub_size"]
        n = len(subs)
        nsub = sum(s * s for s in subs)
        grid = [(F(a), F(b)) for a, b in case["grid"]]
        exp_slim = [i for i, s in enumerate(subs) for _ in range(s * s)]
        if obs["slim_for_sub_slim"] != exp_slim:
            return False, "slim_index_for_sub_slim_index is not pixel i repeated sub_size_i^2 times"
        if any(abs(F(f) - F(1, s * s)) > TOL for f, s in zip(obs["sub_fraction"], subs)):
            return False, "sub_fraction != 1/sub_size^2"
        maps, sizes = obs["mappings"], obs["sizes"]
        wts = [[F(v) for v in r] for r in obs["weights"]]
        if not (len(maps) == len(sizes) == len(wts) == nsub == len(grid)):
            return False, "pix_sub_weights tables do not have one row per sub-pixel"
        if kind == "rect":
            want_cls = "MapperRectangular"
            h, w = case["h"], case["w"]
            pixels = h * w
            ys, xs = [p[0] for p in grid], [p[1] for p in grid]
            y_lo, y_hi = min(ys) - BUFFER, max(ys) + BUFFER
            x_lo, x_hi = min(xs) - BUFFER, max(xs) + BUFFER
            sy, sx = (y_hi - y_lo) / h, (x_hi - x_lo) / w
            for k, (p, row, sz, wr) in enumerate(zip(grid, maps, sizes, wts)):
                if sz != 1 or len(row) != 1 or wr != [1]:
                    return False, f"sub-pixel {k}: rectangular mapping must be one index with weight 1, got {row} {wr}"
                c = row[0]
                if not (0 <= c < pixels):
                    return False, f"sub-pixel {k}: cell index {c} outside 0..{pixels - 1}"
                cy, cx = divmod(c, w)
                top, bot = y_hi - cy * sy, y_hi - (cy + 1) * sy
                lft, rgt = x_lo + cx * sx, x_lo + (cx + 1) * sx
                if not (bot - SLACK * sy <= p[0] <= top + SLACK * sy and lft - SLACK * sx <= p[1] <= rgt + SLACK * sx):
                    return False, (f"sub-pixel {k} at ({float(p[0])},{float(p[1])}) is not inside cell {c} = "
                                   f"(row {cy}, col {cx}) of the {h}x{w} mesh overlaid on the grid")
            ok, why = self._check_rect_neighbors(h, w, obs["neighbors"], obs["neighbors_sizes"])
            if not ok:
                return False, why
        else:
            want_cls = "MapperDelaunay"
            pts = [(F(a), F(b)) for a, b in case["points"]]
            pixels = len(pts)
            qh = obs["_qhull"]
            simplices = qh["simplices"]
            # --- Qhull contract
            simp_sets = set()
            for s in simplices:
                a, b, c = (pts[i] for i in s)
                o = orient(a, b, c)
                if o == 0:
                    return False, f"Qhull contract: degenerate simplex {s}"
                if o < 0:
                    b, c = c, b
                for i, d in enumerate(pts):
                    if i not in s and in_circle(a, b, c, d) > 0:
                        return False, f"Qhull contract: simplex {s} is not Delaunay (vertex {i} inside circumcircle)"
                simp_sets.add(frozenset(s))
            hull = convex_hull(pts)
            hull_area2 = sum(orient(pts[hull[0]], pts[hull[i]], pts[hull[i + 1]]) for i in range(1, len(hull) - 1))
            if sum(abs(orient(*(pts[i] for i in s))) for s in simplices) != hull_area2:
                return False, "Qhull contract: simplices do not tile the convex hull"
            adj = [set() for _ in pts]
            for s in simplices:
                for i in s:
                    adj[i] |= set(s) - {i}
            indptr, indices = qh["indptr"], qh["indices"]
            for k in range(pixels):
                sl = indices[indptr[k]:indptr[k + 1]]
                if len(sl) != len(set(sl)) or set(sl) != adj[k]:
                    return False, f"Qhull contract: vertex_neighbor_vertices[{k}] = {sl} != simplex edges {sorted(adj[k])}"
            # --- neighbours = edges of the triangulation, symmetric
            nbs = []
            for k, (row, sz) in enumerate(zip(obs["neighbors"], obs["neighbors_sizes"])):
                used = row[:sz]
                if len(set(used)) != len(used) or set(used) != adj[k] or any(v != -1 for v in row[sz:]):
                    return False, f"neighbors[{k}] = {row} (size {sz}) is not the set of Delaunay edges {sorted(adj[k])}"
                nbs.append(set(used))
            if len(nbs) != pixels:
                return False, "neighbors table has wrong number of rows"
            for k in range(pixels):
                for j in nbs[k]:
                    if k not in nbs[j]:
                        return False, f"neighbour relation not symmetric: {j} in N({k}) but not conversely"
            # --- per sub-pixel interpolation
            def outside_hull(p):
                # not strictly inside: some hull edge has p on its right (or on it), with slack
                for i in range(len(hull)):
                    a, b = pts[hull[i]], pts[hull[(i + 1) % len(hull)]]
                    e2 = (b[0] - a[0]) ** 2 + (b[1] - a[1]) ** 2
                    if orient(a, b, p) <= SLACK * e2:
                        return True
                return False

            for k, (p, row, sz, wr, fs) in enumerate(zip(grid, maps, sizes, wts, qh["find_simplex"])):
                if len(row) != 3 or len(wr) != 3:
                    return False, f"sub-pixel {k}: Delaunay rows must have 3 slots"
                if sz == 3:
                    if frozenset(row) not in simp_sets or len(set(row)) != 3:
                        return False, f"sub-pixel {k}: vertices {row} are not a triangle of the triangulation"
                    lam = bary(pts[row[0]], pts[row[1]], pts[row[2]], p)
                    if min(lam) < -SLACK:
                        return False, (f"sub-pixel {k} at ({float(p[0])},{float(p[1])}) is not in the triangle "
                                       f"{row} it is mapped to (barycentric {[float(v) for v in lam]})")
                    if any(abs(a - b) > TOL for a, b in zip(wr, lam)):
                        return False, (f"sub-pixel {k}: weights {[float(v) for v in wr]} are not the barycentric "
                                       f"coordinates {[float(v) for v in lam]} w.r.t. vertices {row} (in order)")
                    if fs == -1:
                        return False, f"sub-pixel {k}: find_simplex = -1 but three vertices mapped"
                elif sz == 1:
                    if row[1:] != [-1, -1] or wr != [1, 0, 0]:
                        return False, f"sub-pixel {k}: single mapping must be [v,-1,-1] with weights [1,0,0]: {row} {wr}"
                    if not outside_hull(p):
                        return False, f"sub-pixel {k} at ({float(p[0])},{float(p[1])}) is strictly inside the hull but mapped to one vertex"
                    d = [(v[0] - p[0]) ** 2 + (v[1] - p[1]) ** 2 for v in pts]
                    if row[0] != d.index(min(d)):
                        return False, f"sub-pixel {k}: vertex {row[0]} is not the (first) nearest vertex {d.index(min(d))}"
                else:
                    return False, f"sub-pixel {k}: size {sz} not in (1, 3)"
        if obs["class"] != want_cls:
            return False, f"factory built {obs['class']}"
        if obs["pixels"] != pixels:
            return False, f"mapper.pixels = {obs['pixels']} != {pixels}"
        if not obs["mesh.neighbors_same"]:
            return False, "mapper.neighbors differs from source_plane_mesh_grid.neighbors"
        return self._check_matrix_and_unique(subs, maps, sizes, wts, pixels, obs["mapping_matrix"],
                                             obs["unique"], rows_sum=True)

    def _check_rect_neighbors(self, h, w, nb, sz):
        if len(nb) != h * w or len(sz) != h * w:
            return False, "neighbour table has wrong number of rows"
        sets = []
        for k in range(h * w):
            y, x = divmod(k, w)
            exp = set()
            if y > 0:
                exp.add(k - w)
            if y < h - 1:
                exp.add(k + w)
            if x > 0:
                exp.add(k - 1)
            if x < w - 1:
                exp.add(k + 1)
            used = nb[k][: sz[k]]
            if len(used) != len(set(used)) or set(used) != exp or any(v != -1 for v in nb[k][sz[k]:]):
                return False, f"neighbors[{k}] = {nb[k]} (size {sz[k]}) is not the 4-connectivity {sorted(exp)} of a {h}x{w} mesh"
            sets.append(set(used))
        for k in range(h * w):
            for j in sets[k]:
                if k not in sets[j]:
                    return False, f"neighbour relation not symmetric at ({k},{j})"
        return True, ""

    def _check_matrix_and_unique(self, subs, maps, sizes, wts, pixels, mm, uq, rows_sum):
        n = len(subs)
        if len(mm) != n or any(len(r) != pixels for r in mm):
            return False, f"mapping matrix shape != ({n},{pixels})"
        exp = [[F(0)] * pixels for _ in range(n)]
        for i, (a, b) in enumerate(blocks(subs)):
            fr_i = F(1, subs[i] * subs[i])
            for sub in range(a, b):
                for c in range(sizes[sub]):
                    p = maps[sub][c]
                    if not (0 <= p < pixels):
                        return False, f"sub-pixel {sub}: source pixel index {p} out of range"
                    exp[i][p] += fr_i * wts[sub][c]
        tol = F(1, 10**12)
        for i in range(n):
            row = [F(v) for v in mm[i]]
            for p in range(pixels):
                if abs(row[p] - exp[i][p]) > tol * max(1, abs(exp[i][p])):
                    return False, (f"mapping_matrix[{i},{p}] = {float(row[p])} != sum over sub-pixels of "
                                   f"(1/sub_size^2) * weight = {float(exp[i][p])}")
            if rows_sum:
                if min(row) < 0:
                    return False, f"mapping_matrix row {i} has a negative entry {float(min(row))}"
                if abs(sum(row) - 1) > TOL:
                    return False, f"mapping_matrix row {i} sums to {float(sum(row))}, not 1"
            # sparse encoding
            ln = uq["pix_lengths"][i]
            keys = uq["data_to_pix_unique"][i][:ln]
            vals = [F(v) for v in uq["data_weights"][i][:ln]]
            distinct = set()
            for sub in range(*blocks(subs)[i]):
                distinct |= set(maps[sub][: sizes[sub]])
            if len(keys) != len(set(keys)):
                return False, f"unique row {i} repeats a source pixel: {keys}"
            if set(keys) != distinct or ln != len(distinct):
                return False, f"unique row {i}: pixels {keys} (length {ln}) != distinct source pixels {sorted(distinct)}"
            dense = [F(0)] * pixels
            for kk, v in zip(keys, vals):
                dense[kk] += v
            for p in range(pixels):
                if abs(dense[p] - row[p]) > tol * max(1, abs(row[p])):
                    return False, (f"unique mappings of data pixel {i} encode {float(dense[p])} for source pixel {p}, "
                                   f"the mapping matrix has {float(row[p])}")
        return True, ""

    # ============================================================== bookkeeping
    def nontrivial(self, case, obs):
        kind = case["kind"]
        if kind in ("nbr", "bary", "nearest"):
            return True
        if kind == "tables":
            for (a, b) in blocks(case["sub_size"]):
                seen = [p for sub in range(a, b) for p in case["idx"][sub][: case["sizes"][sub]]]
                if len(seen) != len(set(seen)):
                    return True
            return False
        if "err" in obs:
            return False
        hit = {p for row, s in zip(obs["mappings"], obs["sizes"]) for p in row[:s]}
        return (len(case["sub_size"]) >= 2 or max(case["sub_size"]) > 1) and len(hit) >= 2

    def shrink(self, case):
        kind = case["kind"]
        if kind not in ("rect", "delaunay"):
            return
        subs = case["sub_size"]
        bl = blocks(subs)
        grid = case["grid"]
        # lower one sub-size to 1 (keep the first point of the block)
        for i, s in enumerate(subs):
            if s > 1:
                a, b = bl[i]
                yield {**case, "sub_size": subs[:i] + [1] + subs[i + 1:], "grid": grid[:a + 1] + grid[b:],
                       "uniform_int_sub": False}
        # mask one unmasked pixel
        if len(subs) > 1:
            bits = case["mask"]["bits"]
            un = [k for k, c in enumerate(bits) if c == "0"]
            for i, k in enumerate(un):
                a, b = bl[i]
                yield {**case, "mask": {**case["mask"], "bits": bits[:k] + "1" + bits[k + 1:]},
                       "sub_size": subs[:i] + subs[i + 1:], "grid": grid[:a] + grid[b:], "uniform_int_sub": False}
        if kind == "delaunay" and len(case["points"]) > 3:
            for i in range(len(case["points"])):
                yield {**case, "points": case["points"][:i] + case["points"][i + 1:]}

    def sample_view(self, case):
        return {k: v for k, v in case.items() if not k.startswith("_")}

    def theorems_for(self, case):
        common_t = ["C06.mappingMatrix_entry", "C06.mappingMatrix_rows_sum_one", "C06.slimForSubSlim_blocks",
                    "C06.unique_encodes_mapping_matrix", "C06.unique_rows_distinct"]
        return {
            "nbr": ["C06.rectNeighbors_eq_spec", "C06.rect_neighbors_four_connectivity",
                    "C06.rect_neighbors_symmetric"],
            "tables": ["C06.mappingMatrix_shape", "C06.mappingMatrix_entry", "C06.unique_encodes_mapping_matrix",
                       "C06.unique_rows_distinct"],
            "bary": ["C06.barycentric_weights", "C06.barycentric_coordinates_exist"],
            "nearest": ["C06.nearest_vertex_first_argmin", "C06.delaunay_row_outside"],
            "rect": ["C06.rect_cell_contains_point", "C06.overlay_grid_contains", "C06.trunc_contract_rat",
                     "C06.rect_mapper_rows_sum_one", "C06.rectNeighbors_eq_spec", *common_t],
            "delaunay": ["C06.barycentric_weights", "C06.delaunay_row_located", "C06.delaunay_row_outside",
                         "C06.delaunay_mapper_rows_sum_one", "C06.delaunay_neighbors_from_csr",
                         "C06.delaunay_neighbors_share_edge", "C06.delaunay_neighbors_symmetric",
                         "C06.delaunay_neighbors_adjacency", *common_t],
        }.get(case["kind"], ["C06.*"])


CHECK = C06()
