"""C07 — regularization matrices are symmetric PSD/PD with the stated quadratic form."""
from __future__ import annotations

import copy
import json
import math
import random
import os
from fractions import Fraction

# one BLAS thread: the mid-size cases (hundreds to ~2000 parameters) call LAPACK, and a multi-threaded OpenBLAS on a
# loaded machine is 100-1000x slower than a single thread at these sizes
for _v in ("OPENBLAS_NUM_THREADS", "OMP_NUM_THREADS", "MKL_NUM_THREADS"):
    os.environ.setdefault(_v, "1")

import numpy as np

try:
    import threadpoolctl as _tpc

    _BLAS_LIMIT = _tpc.threadpool_limits(limits=1)
except Exception:  # pragma: no cover
    _BLAS_LIMIT = None

import gen
from common import Cmp, PropertyCheck, Skip, load_autoarray, mask_json, mask_from_json, q, qlist, qmat

RIDGE = 1e-8  # the literal of the code; its exact double value is what the model is given
RIDGE2 = 2e-8

RATIONAL_SCHEMES = ["Constant", "ConstantZeroth", "Zeroth", "AdaptiveBrightness", "BrightnessZeroth"]
SPLIT_SCHEMES = ["ConstantSplit", "AdaptiveBrightnessSplit"]
KERNEL_SCHEMES = ["GaussianKernel", "ExponentialKernel"]
ALL_SCHEMES = RATIONAL_SCHEMES + SPLIT_SCHEMES + KERNEL_SCHEMES
PD_SCHEMES = {"Constant", "ConstantZeroth", "AdaptiveBrightness", "ConstantSplit",
              "AdaptiveBrightnessSplit", "GaussianKernel", "ExponentialKernel"}
SIGNAL_SCHEMES = {"AdaptiveBrightness", "BrightnessZeroth", "AdaptiveBrightnessSplit"}

READS_KINDS = ("reuse", "own")  # histories whose observation is a list of scheme reads
EXACT_LDL_MAX = 14  # exact rational LDL^T up to this size, float Cholesky + eigvalsh above
COND_COMPARE_MAX = 1e4  # kernel schemes: model-vs-implementation comparison of inv() only below this
COND_ORACLE_MAX = 1e6  # kernel schemes: the float inverse is meaningless above this


def F(x):
    return Fraction(x) if not isinstance(x, Fraction) else x


def fl(s):
    return float(Fraction(s))


# ------------------------------------------------------------------------------------------------
# harness-side stand-ins for linear objects (only containers; no logic of the code under test)
# ------------------------------------------------------------------------------------------------
class _MeshGrid:
    """a source-plane mesh grid reduced to what the regularization schemes read from it"""

    def __init__(self, aa, points, neighbors, sizes, lay=None):
        from autoarray.inversion.linear_obj.neighbors import Neighbors

        lay = lay or {}
        self._pts = (points if isinstance(points, np.ndarray) else np.array(points, dtype=float)).reshape(-1, 2)
        if lay.get("points"):
            self._pts = _lay(self._pts, lay["points"])
        arr = np.array(neighbors, dtype=int).reshape(len(sizes), -1)
        sz = np.array(sizes, dtype=int)
        if lay.get("neighbors"):
            arr = _lay(arr, lay["neighbors"])
        if lay.get("sizes"):
            sz = _lay(sz, lay["sizes"])
        self.neighbors = Neighbors(arr=arr, sizes=sz)
        self.shape = self._pts.shape

    @property
    def pixels(self):
        return len(self.neighbors.sizes)

    def __array__(self, dtype=None, copy=None):
        return self._pts

    def __len__(self):
        return len(self._pts)


def _lay(a, how):
    """the same values in another memory layout / container (R5-C); `how` None = as is"""
    if how in (None, "C"):
        return a
    if how == "list":
        return np.asarray(a).tolist()
    if how == "tuple":
        return tuple(tuple(r) if isinstance(r, list) else r for r in np.asarray(a).tolist())
    a = np.asarray(a)
    if how == "F":
        return np.asfortranarray(a)
    if how == "T":  # transposed view of a C-ordered array holding the transpose
        return np.ascontiguousarray(a.T).T
    if how == "strided":  # every second element of a larger buffer along every axis (non-contiguous)
        big = np.full(tuple(2 * n + 1 for n in a.shape), 7, dtype=a.dtype)
        big[tuple(slice(1, None, 2) for _ in a.shape)] = a
        return big[tuple(slice(1, None, 2) for _ in a.shape)]
    if how == "rev":  # negative strides
        return np.ascontiguousarray(a[tuple(slice(None, None, -1) for _ in a.shape)])[
            tuple(slice(None, None, -1) for _ in a.shape)]
    if how == "offset":  # contiguous window into a larger buffer (does not own its data)
        flat = np.full(a.size + 5, 7, dtype=a.dtype)
        flat[3:3 + a.size] = a.ravel()
        return flat[3:3 + a.size].reshape(a.shape)
    if how == "readonly":
        b = a.copy()
        b.flags.writeable = False
        return b
    if how in ("float32", "int32", "int64", "int16", "float64"):
        b = a.astype(how)
        if not np.array_equal(b.astype(float), np.asarray(a, dtype=float)):
            return a  # not representable: leave as is
        return b
    raise ValueError(how)


def _split_arrays(sp):
    return (np.array(sp["mappings"], dtype=int), np.array(sp["sizes"], dtype=int),
            np.array([[fl(v) for v in r] for r in sp["weights"]], dtype=float))


def _mock_mapper(aa, mock, regularization=None, lay=None, keep=None):
    """`lay`: {"points" | "neighbors" | "sizes" | "signals": layout} (R5-C); `keep`: a dict that receives the arrays
    handed to the mock (so that an ownership history can scribble over them afterwards)"""
    from autoarray.inversion.pixelization.mappers.abstract import PixSubWeights

    lay = lay or mock.get("lay") or {}
    n = mock["params"]
    pts = [[fl(a), fl(b)] for a, b in mock.get("points", [["0", "0"]] * n)]
    as_int = bool(mock.get("int_inputs"))
    if as_int and all(float(v).is_integer() for r in pts for v in r):
        pts = np.array([[int(a), int(b)] for a, b in pts], dtype=np.int64).reshape(-1, 2)
    width = max([len(r) for r in mock["neighbors"]] + [1])
    nbrs = [list(r) + [-1] * (width - len(r)) for r in mock["neighbors"]]
    mesh = _MeshGrid(aa, pts, nbrs if n else np.zeros((0, 1)), mock["sizes"], lay=lay)
    psw = None
    if mock.get("split"):
        m, s, w = _split_arrays(mock["split"])
        psw = PixSubWeights(mappings=m, sizes=s, weights=w)
    sig = np.array([fl(v) for v in mock["signals"]]) if mock.get("signals") is not None else None
    if sig is not None and as_int and all(float(v).is_integer() for v in sig):
        sig = sig.astype(np.int64)
    if sig is not None and lay.get("signals"):
        sig = _lay(sig, lay["signals"])
    if keep is not None:
        keep.update({"points": mesh._pts, "neighbors": np.asarray(mesh.neighbors), "sizes": mesh.neighbors.sizes,
                     "signals": sig})
    return aa.m.MockMapper(source_plane_mesh_grid=mesh, pixel_signals=sig,
                           pix_sub_weights_split_cross=psw, regularization=regularization)


def _typed(v, how):
    """the same real number handed over as a Python float / int / numpy scalar"""
    f = Fraction(v)
    if Fraction(float(f)) != f:
        # every generated number is an exact double, so that model and oracle see what the code sees; anything else
        # is a slip of a generator and must never turn into a report
        raise Skip("generated value is not an exact double")
    if how == "int" and f.denominator == 1:
        return int(f)
    if how == "np32" and Fraction(float(np.float32(float(f)))) == f \
            and Fraction(float(np.float32(float(f)) * np.float32(float(f)))) == f * f:
        # (the schemes square their coefficients / scales in the argument's own dtype: only values whose square is a
        #  float32 too, so that numpy's promotion rules cannot round)
        return np.float32(float(f))
    if how == "0d":
        return np.array(float(f))
    if how == "bool" and f in (0, 1):
        return bool(f)
    if how == "np64":
        return np.float64(float(f))
    return float(f)


DEFAULT_ARGS = {"Constant": ["1"], "ConstantZeroth": ["1", "1"], "Zeroth": ["1"], "AdaptiveBrightness": ["1", "1"],
                "BrightnessZeroth": ["1"], "ConstantSplit": ["1"], "AdaptiveBrightnessSplit": ["1", "1"]}


def _make_scheme(aa, name, args, signal_scale, how="float", defaults=False):
    if defaults and name in DEFAULT_ARGS:
        # constructor defaults (every coefficient and the signal scale default to 1.0)
        return getattr(aa.reg, name)()
    a = [_typed(v, how) for v in args]
    ss = _typed(signal_scale, how) if signal_scale is not None else 1.0
    if name == "Constant":
        return aa.reg.Constant(coefficient=a[0])
    if name == "ConstantZeroth":
        return aa.reg.ConstantZeroth(coefficient_neighbor=a[0], coefficient_zeroth=a[1])
    if name == "Zeroth":
        return aa.reg.Zeroth(coefficient=a[0])
    if name == "AdaptiveBrightness":
        return aa.reg.AdaptiveBrightness(inner_coefficient=a[0], outer_coefficient=a[1], signal_scale=ss)
    if name == "BrightnessZeroth":
        return aa.reg.BrightnessZeroth(coefficient=a[0], signal_scale=ss)
    if name == "ConstantSplit":
        return aa.reg.ConstantSplit(coefficient=a[0])
    if name == "AdaptiveBrightnessSplit":
        return aa.reg.AdaptiveBrightnessSplit(inner_coefficient=a[0], outer_coefficient=a[1], signal_scale=ss)
    if name == "GaussianKernel":
        return aa.reg.GaussianKernel(coefficient=a[0], scale=a[1])
    if name == "ExponentialKernel":
        return aa.reg.ExponentialKernel(coefficient=a[0], scale=a[1])
    raise ValueError(name)


def _real_mapper(aa, case, keep=None, mesh_obj=None):
    """a real MapperRectangular / MapperDelaunay built through the public classes.  `case["lay"]`: layout /
    container variants of the inputs (R5-C); `keep`: receives the arrays handed over; `mesh_obj`: an existing mesh
    object to build the mapper on (two mappers sharing one mesh)"""
    lay = case.get("lay") or {}
    m = mask_from_json(case["mask"])
    scales = (fl(case["scales"][0]), fl(case["scales"][1]))
    origin = (fl(case["origin"][0]), fl(case["origin"][1]))
    if lay.get("mask") in ("F", "strided", "readonly", "rev", "offset"):
        m = _lay(m, lay["mask"])
    elif lay.get("mask") == "list":
        m = m.tolist()
    mask = aa.Mask2D(mask=m, pixel_scales=scales, origin=origin)
    if lay.get("mask") == "from_mask":  # a mask built from a mask, geometry given again explicitly
        mask = aa.Mask2D(mask=mask, pixel_scales=scales, origin=origin)
    osamp = aa.OverSamplerUniform(mask=mask, sub_size=case["sub"])
    grid = osamp.over_sampled_grid
    ad = [Fraction(v) for v in case["adapt"]]
    if all(v.denominator == 1 for v in ad) and case.get("int_inputs"):
        adapt_vals = [int(v) for v in ad]  # plain Python ints
    else:
        adapt_vals = np.array([float(v) for v in ad])
    al = lay.get("adapt")
    if al == "native":  # natively stored (2D, zeros at masked pixels) instead of slim
        nat = np.zeros(np.asarray(mask).shape)
        nat[~np.asarray(mask, dtype=bool)] = [float(v) for v in ad]
        adapt_vals = nat
    elif al == "native_F":
        nat = np.zeros(np.asarray(mask).shape)
        nat[~np.asarray(mask, dtype=bool)] = [float(v) for v in ad]
        adapt_vals = np.asfortranarray(nat)
    elif al is not None and al != "array2d":
        adapt_vals = _lay(np.array([float(v) for v in ad]), al)
    adapt = aa.Array2D(values=adapt_vals, mask=mask)
    if al == "array2d":  # an Array2D built from an Array2D
        adapt = aa.Array2D(values=adapt, mask=mask)
    if keep is not None:
        keep["adapt"] = adapt_vals if isinstance(adapt_vals, np.ndarray) else None
        keep["adapt_obj"] = adapt
    route = case.get("route", "direct")
    if case["source"] == "rect":
        if route == "mesh":
            # the pixelization route: aa.mesh.Rectangular(...).mapper_grids_from + the aa.Mapper factory
            mg = aa.mesh.Rectangular(shape=tuple(case["mesh_shape"])).mapper_grids_from(
                mask=mask, source_plane_data_grid=grid, adapt_data=adapt)
            return aa.Mapper(mapper_grids=mg, regularization=None, over_sampler=osamp)
        mesh = mesh_obj if mesh_obj is not None else \
            aa.Mesh2DRectangular.overlay_grid(grid=grid, shape_native=tuple(case["mesh_shape"]))
        cls = aa.MapperRectangular
    else:
        P = [[Fraction(a), Fraction(b)] for a, b in case["points"]]
        integral = all(v.denominator == 1 for r in P for v in r)
        cont = case.get("container", "ndarray")
        if integral and case.get("int_inputs"):
            rows = [[int(a), int(b)] for a, b in P]
            pts = {"list": rows, "tuple": tuple(tuple(r) for r in rows),
                   "ndarray": np.array(rows, dtype=np.int64)}.get(cont, np.array(rows, dtype=np.int64))
        else:
            rows = [[float(a), float(b)] for a, b in P]
            pts = {"list": rows, "tuple": tuple(tuple(r) for r in rows), "ndarray": np.array(rows),
                   "irregular": aa.Grid2DIrregular(values=rows)}.get(cont, np.array(rows))
        if lay.get("points") and isinstance(pts, np.ndarray):
            pts = _lay(pts, lay["points"])
        if keep is not None:
            keep["points"] = pts if isinstance(pts, np.ndarray) else None
        if route == "mesh":
            mg = aa.mesh.Delaunay().mapper_grids_from(
                mask=mask, source_plane_data_grid=grid,
                source_plane_mesh_grid=aa.Grid2DIrregular(values=rows), adapt_data=adapt)
            return aa.Mapper(mapper_grids=mg, regularization=None, over_sampler=osamp)
        mesh = mesh_obj if mesh_obj is not None else aa.Mesh2DDelaunay(values=pts)
        cls = aa.MapperDelaunay
    mg = aa.MapperGrids(mask=mask, source_plane_data_grid=grid, source_plane_mesh_grid=mesh,
                        image_plane_mesh_grid=None, adapt_data=adapt)
    return cls(mapper_grids=mg, over_sampler=osamp, border_relocator=None, regularization=None)


def _tables_of(mapper, name, signal_scale, want_split):
    """the linear-object tables a scheme reads — inputs of the model (not constrained by C07)"""
    mesh = mapper.source_plane_mesh_grid
    nb = mesh.neighbors
    t = {
        "params": int(mapper.params),
        "neighbors": [[int(v) for v in r] for r in np.asarray(nb)],
        "sizes": [int(v) for v in nb.sizes],
        "points": [qlist(p) for p in np.array(mesh).reshape(-1, 2)],
    }
    if name in SIGNAL_SCHEMES:
        t["signals"] = qlist(mapper.pixel_signals_from(signal_scale=fl(signal_scale)))
    if want_split:
        sp = mapper.pix_sub_weights_split_cross
        t["split"] = {"mappings": [[int(v) for v in r] for r in sp.mappings],
                      "sizes": [int(v) for v in sp.sizes], "weights": qmat(sp.weights)}
    return t


def _mapper_signal_tables(mapper, signal_scale):
    """the arguments `AbstractMapper.pixel_signals_from` hands to `adaptive_pixel_signals_from`"""
    ad = mapper.adapt_data
    return {
        "pixels": int(mapper.pixels),
        "pixel_weights": qmat(np.asarray(mapper.pix_weights_for_sub_slim_index)),
        "pix_indexes": [[int(v) for v in r] for r in np.asarray(mapper.pix_indexes_for_sub_slim_index)],
        "pix_sizes": [int(v) for v in np.asarray(mapper.pix_sizes_for_sub_slim_index)],
        "slim_for_sub": [int(v) for v in np.asarray(mapper.over_sampler.slim_for_sub_slim)],
        "adapt_data": qlist(np.asarray(ad.array if hasattr(ad, "array") else ad)),
        "signal_scale": q(Fraction(signal_scale)),
    }


def _closed_obj(mapper, case, name, tables, signal_scale):
    """the linear object with every table the model can compute itself left out: a rectangular mesh is
    given by its shape only (the model runs its own `rectangular_neighbors_from`), a Delaunay mesh by scipy's
    CSR pair (the model runs its own `Mesh2DDelaunay.neighbors`), the pixel signals by the mapper tables +
    adapt image (the model runs its own `adaptive_pixel_signals_from`)"""
    rect = case["source"] == "rect"
    c = {"params": tables["params"], "points": tables["points"]}
    if rect:
        c["mesh_shape"] = [int(v) for v in case["mesh_shape"]]
    else:
        # Delaunay: scipy's CSR pair is the input (Qhull is not modelled), the table is the model's own
        indptr, indices = mapper.source_plane_mesh_grid.delaunay.vertex_neighbor_vertices
        c["csr"] = {"indptr": [int(v) for v in indptr], "indices": [int(v) for v in indices]}
    if name in SIGNAL_SCHEMES:
        c["mapper"] = _mapper_signal_tables(mapper, signal_scale)
    if "split" in tables:
        c["split"] = tables["split"]
    return c


# ------------------------------------------------------------------------------------------------
# exact linear algebra for the oracle
# ------------------------------------------------------------------------------------------------
def ldl_min_pivot(H):
    """smallest pivot of the exact LDL^T of a symmetric rational matrix without pivoting; a
    symmetric matrix is PD iff all pivots are > 0.  Returns None when a non-positive pivot appears."""
    n = len(H)
    A = [row[:] for row in H]
    mn = None
    for k in range(n):
        p = A[k][k]
        if p <= 0:
            return None
        mn = p if mn is None else min(mn, p)
        for i in range(k + 1, n):
            if A[i][k] != 0:
                f = A[i][k] / p
                for j in range(k + 1, n):
                    A[i][j] -= f * A[k][j]
    return mn if mn is not None else Fraction(1)


def quad(H, x):
    n = len(x)
    return sum(x[i] * H[i][j] * x[j] for i in range(n) for j in range(n))


def quad_abs(H, x):
    n = len(x)
    return sum(abs(x[i] * H[i][j] * x[j]) for i in range(n) for j in range(n))


class IntMat:
    """a rational matrix over its common denominator: exact quadratic forms in integer arithmetic (the same values
    as `quad` / `quad_abs`, several times faster than Fraction arithmetic)"""

    def __init__(self, H):
        den = 1
        for r in H:
            for v in r:
                d = v.denominator
                if den % d:
                    den = den * d // math.gcd(den, d)
        self.den = den
        self.rows = [[v.numerator * (den // v.denominator) for v in r] for r in H]

    def quad_both(self, x):
        """(x^T H x, sum |x_i H_ij x_j|) for a vector of integers (as Fractions or ints)"""
        xi = [int(v) for v in x]
        if any(Fraction(a) != b for a, b in zip(xi, x)):
            return quad(self._frac(), x), quad_abs(self._frac(), x)
        tot = tot_abs = 0
        for i, r in enumerate(self.rows):
            if xi[i] == 0:
                continue
            acc = acc_abs = 0
            for j, v in enumerate(r):
                if v and xi[j]:
                    t = v * xi[j]
                    acc += t
                    acc_abs += abs(t)
            tot += xi[i] * acc
            tot_abs += abs(xi[i]) * acc_abs
        return Fraction(tot, self.den), Fraction(tot_abs, self.den)

    def _frac(self):
        return [[Fraction(v, self.den) for v in r] for r in self.rows]


def case_scale(H):
    """largest absolute entry"""
    return max([abs(v) for r in H for v in r] + [Fraction(0)])


def test_vectors(rng_seed, n):
    import random

    r = random.Random(rng_seed)
    vs = [[Fraction(1)] * n]
    for i in range(min(n, 6)):
        e = [Fraction(0)] * n
        e[(i * 7) % n] = Fraction(1)
        vs.append(e)
    for _ in range(3):
        vs.append([Fraction(r.randint(-3, 3)) for _ in range(n)])
    vs.append([Fraction((-1) ** i * (i + 1)) for i in range(n)])
    return vs


class C07(PropertyCheck):
    pid = "C07"
    title = "regularization matrices"
    rtol = Fraction(1, 10 ** 9)
    nontrivial_rule = (
        "a scheme case is non-trivial when the linear object has >= 2 parameters and (for neighbour / split "
        "schemes) at least one neighbour pair or cross row touching another pixel; block cases when >= 2 "
        "objects; history cases when at least two different scheme settings occur; distinct = distinct "
        "(scheme, coefficients, tables, history)")
    exhaustive_note = {
        "quick": "every rectangular mesh shape 3..6 x 3..6 (real Mesh2DRectangular neighbour tables) under each of the 7 non-split schemes; rectangular_neighbors_from / Mesh2DRectangular.neighbors on every shape 2..10 x 2..10",
        "thorough": "every rectangular mesh shape 3..9 x 3..9 (real Mesh2DRectangular neighbour tables) under each of the 7 non-split schemes; rectangular_neighbors_from / Mesh2DRectangular.neighbors on every shape 2..18 x 2..18",
    }
    # loop ties (DESIGN §12): regenerated from the source on every run, tie theorems proved for all sizes
    loop_tie_modules = ["LoopsReg", "LoopsSignals", "LoopsReg2"]
    modelled_functions = [
        "autoarray/inversion/regularization/regularization_util.py:zeroth_regularization_matrix_from",
        "autoarray/inversion/regularization/regularization_util.py:constant_regularization_matrix_from",
        "autoarray/inversion/regularization/regularization_util.py:constant_zeroth_regularization_matrix_from",
        "autoarray/inversion/regularization/regularization_util.py:adaptive_regularization_weights_from",
        "autoarray/inversion/regularization/regularization_util.py:brightness_zeroth_regularization_weights_from",
        "autoarray/inversion/regularization/regularization_util.py:weighted_regularization_matrix_from",
        "autoarray/inversion/regularization/regularization_util.py:brightness_zeroth_regularization_matrix_from",
        "autoarray/inversion/regularization/regularization_util.py:reg_split_from",
        "autoarray/inversion/regularization/regularization_util.py:pixel_splitted_regularization_matrix_from",
        "autoarray/inversion/regularization/constant.py:Constant.__init__",
        "autoarray/inversion/regularization/constant.py:Constant.regularization_weights_from",
        "autoarray/inversion/regularization/constant.py:Constant.regularization_matrix_from",
        "autoarray/inversion/regularization/constant_zeroth.py:ConstantZeroth.__init__",
        "autoarray/inversion/regularization/constant_zeroth.py:ConstantZeroth.regularization_weights_from",
        "autoarray/inversion/regularization/constant_zeroth.py:ConstantZeroth.regularization_matrix_from",
        "autoarray/inversion/regularization/zeroth.py:Zeroth.__init__",
        "autoarray/inversion/regularization/zeroth.py:Zeroth.regularization_weights_from",
        "autoarray/inversion/regularization/zeroth.py:Zeroth.regularization_matrix_from",
        "autoarray/inversion/regularization/adaptive_brightness.py:AdaptiveBrightness.__init__",
        "autoarray/inversion/regularization/adaptive_brightness.py:AdaptiveBrightness.regularization_weights_from",
        "autoarray/inversion/regularization/adaptive_brightness.py:AdaptiveBrightness.regularization_matrix_from",
        "autoarray/inversion/regularization/brightness_zeroth.py:BrightnessZeroth.__init__",
        "autoarray/inversion/regularization/brightness_zeroth.py:BrightnessZeroth.regularization_weights_from",
        "autoarray/inversion/regularization/brightness_zeroth.py:BrightnessZeroth.regularization_matrix_from",
        "autoarray/inversion/regularization/constant_split.py:ConstantSplit.__init__",
        "autoarray/inversion/regularization/constant_split.py:ConstantSplit.regularization_matrix_from",
        "autoarray/inversion/regularization/adaptive_brightness_split.py:AdaptiveBrightnessSplit.__init__",
        "autoarray/inversion/regularization/adaptive_brightness_split.py:AdaptiveBrightnessSplit.regularization_matrix_from",
        "autoarray/inversion/regularization/gaussian_kernel.py:gauss_cov_matrix_from",
        "autoarray/inversion/regularization/gaussian_kernel.py:GaussianKernel.__init__",
        "autoarray/inversion/regularization/gaussian_kernel.py:GaussianKernel.regularization_weights_from",
        "autoarray/inversion/regularization/gaussian_kernel.py:GaussianKernel.regularization_matrix_from",
        "autoarray/inversion/regularization/exponential_kernel.py:exp_cov_matrix_from",
        "autoarray/inversion/regularization/exponential_kernel.py:ExponentialKernel.__init__",
        "autoarray/inversion/regularization/exponential_kernel.py:ExponentialKernel.regularization_weights_from",
        "autoarray/inversion/regularization/exponential_kernel.py:ExponentialKernel.regularization_matrix_from",
        "autoarray/inversion/regularization/abstract.py:AbstractRegularization.__init__",
        "autoarray/inversion/pixelization/mappers/mapper_util.py:adaptive_pixel_signals_from",
        "autoarray/inversion/pixelization/mappers/abstract.py:AbstractMapper.pixel_signals_from",
        "autoarray/inversion/pixelization/mappers/abstract.py:AbstractMapper.params",
        "autoarray/inversion/pixelization/mappers/abstract.py:AbstractMapper.neighbors",
        "autoarray/inversion/pixelization/mappers/abstract.py:AbstractMapper.pix_indexes_for_sub_slim_index",
        "autoarray/inversion/pixelization/mappers/abstract.py:AbstractMapper.pix_sizes_for_sub_slim_index",
        "autoarray/inversion/pixelization/mappers/abstract.py:AbstractMapper.pix_weights_for_sub_slim_index",
        "autoarray/inversion/pixelization/mappers/delaunay.py:MapperDelaunay.pix_sub_weights_split_cross",
        "autoarray/inversion/linear_obj/linear_obj.py:LinearObj.__init__",
        "autoarray/inversion/linear_obj/linear_obj.py:LinearObj.regularization_matrix",
        "autoarray/inversion/linear_obj/neighbors.py:Neighbors.__new__",
        "autoarray/inversion/inversion/abstract.py:AbstractInversion.regularization_matrix",
        "autoarray/inversion/inversion/abstract.py:AbstractInversion.regularization_matrix_reduced",
        "autoarray/inversion/inversion/abstract.py:AbstractInversion.no_regularization_index_list",
        "autoarray/inversion/inversion/abstract.py:AbstractInversion.all_linear_obj_have_regularization",
        "autoarray/inversion/inversion/abstract.py:AbstractInversion.regularization_list",
        "autoarray/inversion/inversion/abstract.py:AbstractInversion.param_range_list_from",
        "autoarray/inversion/inversion/abstract.py:AbstractInversion.total_params",
        "autoarray/structures/mesh/rectangular_2d.py:Mesh2DRectangular.neighbors",
        "autoarray/structures/mesh/delaunay_2d.py:Mesh2DDelaunay.neighbors",
        "autoarray/structures/mesh/triangulation_2d.py:Abstract2DMeshTriangulation.split_cross",
        "autoarray/inversion/pixelization/mesh/mesh_util.py:rectangular_neighbors_from",
        "autoarray/inversion/pixelization/mesh/mesh_util.py:rectangular_corner_neighbors",
        "autoarray/inversion/pixelization/mesh/mesh_util.py:rectangular_top_edge_neighbors",
        "autoarray/inversion/pixelization/mesh/mesh_util.py:rectangular_left_edge_neighbors",
        "autoarray/inversion/pixelization/mesh/mesh_util.py:rectangular_right_edge_neighbors",
        "autoarray/inversion/pixelization/mesh/mesh_util.py:rectangular_bottom_edge_neighbors",
        "autoarray/inversion/pixelization/mesh/mesh_util.py:rectangular_central_neighbors",
    ]
    trusted_extra = [
        "numpy.linalg.inv (contract C·inv(C) = I; checked per case against an exact rational inverse / residual)",
        "numpy/libm sqrt, exp of the kernel schemes (parameters of the model; driver uses Float.sqrt/exp, 1e-9)",
        "positive-definiteness of both kernel matrices is proved over the reals (exact arithmetic); additionally tested "
        "per case by exact rational LDL^T (n <= 14) or float Cholesky of the implementation's covariance matrix",
        "scipy.linalg.block_diag, numpy.delete (modelled by Spec.blockDiag / Spec.deleteIdx; compared per case)",
        "scipy.spatial.Delaunay.vertex_neighbor_vertices (Qhull) is an input of the model; its contract (CSR slices = "
        "edge relation of `simplices`, the hypothesis of C07.delaunay_neighbors_wellformed) is checked exactly per case; "
        "the Delaunay table built from it and the rectangular tables are the model's own "
        "(Impl.rectNeighbors, proved to be the 4-connectivity) and compared with the code on every shape",
        "`** signal_scale` in adaptive_pixel_signals_from: exact rational power for natural-number scales, numpy's "
        "double-precision power (Float.pow on the exactly computed normalised mean) otherwise; the theorems need "
        "only that it maps [0,1] into [0,1] and fixes 1 (discharged for Real.rpow with exponent >= 0)",
    ]
    assumptions = [
        "theorems are over an exact ordered field; IEEE rounding is outside them (tolerances 1e-12 rational schemes, 1e-9 float)",
        "PD theorems for Constant/ConstantZeroth need a symmetric in-range neighbour table: proved for every rectangular "
        "mesh (C07.rect_*), a checked hypothesis for Delaunay meshes (Qhull's contract)",
        "the content theorem of adaptive_pixel_signals_from needs well-formed mapper tables (valid indices, a triangle's "
        "vertices distinct, as many weights as vertices); its range theorem needs none",
        "split-cross theorems need well-formed cross-point tables (4 rows per pixel, rows non-empty and not full) with "
        "non-negative, in-range, pairwise distinct pixel indices per row (true of Delaunay simplices; checked per case)",
        "the model of LinearObj.regularization_matrix is a pure function of the object's current scheme; histories "
        "(copy + re-assignment) check that the implementation has no memory either",
    ]

    # ------------------------------------------------------------------ generation helpers
    def _coef(self, rng, lo_bits=3):
        return gen.pos_dyadic(rng, 1, 4, lo_bits)

    def _scheme_args(self, rng, name):
        if name in ("Constant", "Zeroth", "ConstantSplit"):
            return [q(self._coef(rng))], None
        if name == "ConstantZeroth":
            return [q(self._coef(rng)), q(self._coef(rng))], None
        if name in ("AdaptiveBrightness", "AdaptiveBrightnessSplit"):
            return [q(self._coef(rng)), q(self._coef(rng))], q(rng.choice([1, 1, 2, 3, Fraction(1, 2), Fraction(3, 2)]))
        if name == "BrightnessZeroth":
            return [q(self._coef(rng))], q(rng.choice([1, 2, Fraction(1, 2)]))
        # kernels: (coefficient, scale factor relative to the smallest point separation; resolved in run_impl)
        return [q(self._coef(rng)), q(rng.choice([Fraction(1, 2), Fraction(3, 4), 1, Fraction(5, 4)]))], None

    def _data_frame(self, rng, big=False):
        """mask + anisotropic scales + off-centre origin + positive adapt image + sub size"""
        h, w = rng.randint(3, 6 if big else 5), rng.randint(3, 6 if big else 5)
        m, kind = gen.random_mask(rng, h, w, kind=rng.choice(["all", "block", "annulus", "cross", "bernoulli", "blocks"]))
        if rng.random() < 0.06:  # exactly one unmasked pixel
            m = gen.full(h, w, True)
            m[rng.randrange(h)][rng.randrange(w)] = False
        n_un = sum(1 for r in m for b in r if not b)
        sy, sx = gen.scales_pair(rng)
        oy, ox = gen.origin_pair(rng)
        int_inputs = rng.random() < 0.2
        if int_inputs:  # integer-valued adapt image, handed over as plain Python ints
            adapt = [q(rng.randint(1, 9)) for _ in range(n_un)]
            frame_extra = {"int_inputs": True}
        else:
            adapt = [q(gen.pos_dyadic(rng, 1, 8, 2)) for _ in range(n_un)]
            frame_extra = {}
        if rng.random() < 0.2:  # zeros in the adapt image (still non-negative, max > 0)
            for i in range(0, n_un, 3):
                adapt[i] = "0"
            adapt[min(1, n_un - 1)] = "3"
        return {"mask": mask_json(m), "scales": [q(sy), q(sx)], "origin": [q(oy), q(ox)],
                "adapt": adapt, "sub": rng.choice([1, 1, 2]), **frame_extra}

    def _harden(self, rng, c, kernel=False):
        """round-3 axes: argument dtype / container, set-but-falsy values, constructor defaults,
        alternative construction routes (same real inputs, so model and oracle are untouched)"""
        r = rng.random()
        if r < 0.25 and c.get("scheme") is not None:
            # integer-valued coefficients, including 0 (not for kernels: the property wants them positive)
            lo = 1 if kernel else 0
            nargs = len(c["args"]) - (1 if kernel else 0)
            c["args"] = [q(rng.randint(lo, 3)) for _ in range(nargs)] + (c["args"][-1:] if kernel else [])
            c["arg_type"] = rng.choice(["int", "int", "np64", "float"])
            if c.get("signal_scale") is not None and rng.random() < 0.5:
                c["signal_scale"] = q(rng.choice([0, 1, 2]))
        elif r < 0.4:
            c["arg_type"] = rng.choice(["np32", "np64"])
        elif r < 0.48 and c.get("scheme") in DEFAULT_ARGS:
            c["defaults"] = True
            c["args"] = list(DEFAULT_ARGS[c["scheme"]])
            if c.get("signal_scale") is not None:
                c["signal_scale"] = "1"
        if c.get("source") in ("rect", "delaunay"):
            if rng.random() < 0.25:
                c["route"] = "mesh"
            # Mesh2DDelaunay documents `Union[np.ndarray, List]`; a tuple of tuples is rejected by the clean code
            c["container"] = rng.choice(["ndarray", "ndarray", "list", "list", "irregular"])
        return c

    def _delaunay_points(self, rng, n, integral=False):
        seen = set()
        pts = []
        while len(pts) < n:
            if integral:
                p = (Fraction(rng.randint(-6, 6)), Fraction(rng.randint(-6, 6)))
            else:
                p = (gen.dyadic(rng, -3, 3, 4), gen.dyadic(rng, -3, 3, 4))
            if p in seen:
                continue
            seen.add(p)
            pts.append(p)
        return [[q(a), q(b)] for a, b in pts]

    def _mock_graph(self, rng, n, symmetric=True, multi=False):
        adj = [[] for _ in range(n)]
        p = rng.choice([0.2, 0.4, 0.7])
        for i in range(n):
            for j in range(i + 1, n):
                if rng.random() < p:
                    k = 2 if (multi and rng.random() < 0.2) else 1
                    for _ in range(k):
                        adj[i].append(j)
                        adj[j].append(i)
        if not symmetric:
            for _ in range(rng.randint(1, max(1, n))):
                i = rng.randrange(n)
                if adj[i] and rng.random() < 0.6:
                    adj[i].pop(rng.randrange(len(adj[i])))
                else:
                    j = rng.randrange(n)
                    if j != i:
                        adj[i].append(j)
        for a in adj:
            rng.shuffle(a)
        sizes = [len(a) for a in adj]
        width = max(sizes + [1]) + rng.randint(0, 1)
        return [a + [-1] * (width - len(a)) for a in adj], sizes

    def _mock_split(self, rng, n, width=4, allow_exception=False, allow_empty=False):
        """cross-point tables with dyadic weights: 4 rows per pixel, distinct indices per row"""
        mappings, sizes, weights = [], [], []
        for k in range(4 * n):
            pix = k // 4
            sz = rng.randint(1, min(width - 1, n, 3))
            if allow_exception and rng.random() < 0.15:
                sz = min(width, n)
            if allow_empty and k > 0 and rng.random() < 0.15:
                sz = 0
            idx = rng.sample(range(n), sz)
            if rng.random() < 0.3 and sz and pix not in idx:
                idx[rng.randrange(sz)] = pix
            # weights: non-negative dyadics summing to 1 (as barycentric weights do), some zeros
            ws = [Fraction(rng.randint(0, 8), 8) for _ in range(sz)]
            if sz:
                tot = sum(ws[:-1])
                ws[-1] = 1 - tot if tot <= 1 else Fraction(rng.randint(0, 8), 8)
            mappings.append(idx + [-1] * (width - sz))
            sizes.append(sz)
            weights.append(qlist(ws + [Fraction(0)] * (width - sz)))
        return {"mappings": mappings, "sizes": sizes, "weights": weights}

    def _mock_obj(self, rng, n, symmetric=True, with_split=False, multi=False):
        nb, sizes = self._mock_graph(rng, n, symmetric, multi)
        sig = [Fraction(rng.randint(0, 16), 16) for _ in range(n)]
        sig[rng.randrange(n)] = Fraction(1)
        pts = self._delaunay_points(rng, n)
        o = {"params": n, "neighbors": nb, "sizes": sizes, "signals": qlist(sig), "points": pts}
        if rng.random() < 0.2:  # integer dtype: 0/1 signals and integer mesh points as int64 arrays
            sig = [Fraction(rng.randint(0, 1)) for _ in range(n)]
            sig[rng.randrange(n)] = Fraction(1)
            o.update({"signals": qlist(sig), "points": self._delaunay_points(rng, n, integral=True),
                      "int_inputs": True})
        if with_split:
            o["split"] = self._mock_split(rng, n)
        return o

    # ------------------------------------------------------------------ histories of scheme reads (kinds reuse / own)
    ARG_ATTRS = {"Constant": ["coefficient"], "ConstantZeroth": ["coefficient_neighbor", "coefficient_zeroth"],
                 "Zeroth": ["coefficient"], "AdaptiveBrightness": ["inner_coefficient", "outer_coefficient"],
                 "BrightnessZeroth": ["coefficient"], "ConstantSplit": ["coefficient"],
                 "AdaptiveBrightnessSplit": ["inner_coefficient", "outer_coefficient"],
                 "GaussianKernel": ["coefficient", "scale"], "ExponentialKernel": ["coefficient", "scale"]}

    def _fresh_inputs(self, aa, world, name, args, signal_scale):
        """the tables the model and the oracle judge a read by: those of a FRESH linear object built from the world's
        CURRENT specification (never those of the reused object)"""
        if world["source"] == "mock":
            tables = copy.deepcopy({k: v for k, v in world["mock"].items() if k != "lay"})
            inputs = {"tables": tables, "args": list(args)}
        else:
            spec = {k: v for k, v in world.items() if k not in ("lay", "share_mesh_with")}
            mapper = _real_mapper(aa, spec)
            tables = _tables_of(mapper, name, signal_scale or "1", name in SPLIT_SCHEMES)
            inputs = {"tables": tables, "args": list(args)}
            if name not in KERNEL_SCHEMES:
                inputs["closed"] = _closed_obj(mapper, spec, name, tables, signal_scale or "1")
                if "csr" in inputs["closed"]:
                    inputs["simplices"] = [[int(v) for v in sx] for sx in mapper.source_plane_mesh_grid.delaunay.simplices]
        cov = None
        if name in KERNEL_SCHEMES:
            from autoarray.inversion.regularization import gaussian_kernel, exponential_kernel

            P = np.array([[fl(a), fl(b)] for a, b in tables["points"]])
            sc = fl(args[1])
            C = (gaussian_kernel.gauss_cov_matrix_from(scale=sc, pixel_points=P) if name == "GaussianKernel"
                 else exponential_kernel.exp_cov_matrix_from(scale=sc, pixel_points=P))
            cov = qmat(C)
            inputs["cond"] = float(np.linalg.cond(C))
        return inputs, cov

    def _impl_reads(self, aa, case):
        from autoconf import conf

        worlds = [copy.deepcopy(w) for w in case["worlds"]]
        pool = [copy.deepcopy(p) for p in case["pool"]]
        objs, keeps = [None] * len(worlds), [None] * len(worlds)
        insts = {}
        reads, held = [], []
        last = []  # the arrays the most recent reads returned
        settings = aa.SettingsInversion(use_w_tilde=False)
        preloads = aa.Preloads()
        conf_saved = []

        def build(k):
            keep = {}
            w = worlds[k]
            if w["source"] == "mock":
                objs[k] = _mock_mapper(aa, w["mock"], lay=w.get("lay"), keep=keep)
            else:
                mesh_obj = None
                j = w.get("share_mesh_with")
                if j is not None and objs[j] is not None and w.get("route", "direct") == "direct":
                    mesh_obj = objs[j].source_plane_mesh_grid
                objs[k] = _real_mapper(aa, w, keep=keep, mesh_obj=mesh_obj)
            keeps[k] = keep

        def set_attrs(r, sp):
            how = sp.get("arg_type", "float")
            for a, v in zip(self.ARG_ATTRS[sp["scheme"]], sp["args"]):
                setattr(r, a, _typed(v, how))
            if sp.get("signal_scale") is not None and hasattr(r, "signal_scale"):
                r.signal_scale = _typed(sp["signal_scale"], how)

        def inst(i, fresh=False):
            sp = pool[i]
            if fresh:
                return _make_scheme(aa, sp["scheme"], sp["args"], sp.get("signal_scale"), sp.get("arg_type", "float"))
            if i not in insts:
                if sp.get("copy_of") is not None:
                    # a copy of another pool instance with some attribute changed: both answer for their own values
                    r = (copy.deepcopy if sp.get("deep") else copy.copy)(inst(sp["copy_of"]))
                    set_attrs(r, sp)
                    insts[i] = r
                else:
                    insts[i] = _make_scheme(aa, sp["scheme"], sp["args"], sp.get("signal_scale"),
                                            sp.get("arg_type", "float"))
            return insts[i]

        def scribble(arrs):
            for a in arrs:
                if isinstance(a, np.ndarray) and a.size:
                    try:
                        base = a.view(np.ndarray)
                        if base.dtype.kind == "f":
                            base[...] = np.nan
                        elif base.dtype.kind in "iu":
                            base[...] = base + 1 if base.dtype.kind == "u" else -7
                        elif base.dtype.kind == "b":
                            base[...] = ~base
                    except (ValueError, TypeError):
                        pass  # a read-only array cannot be scribbled over

        def read_obs(name, sp, k, H, w, where, extra=None):
            inputs, cov = self._fresh_inputs(aa, worlds[k], name, sp["args"], sp.get("signal_scale"))
            H = np.asarray(H)
            rd = {"scheme": name, "source": worlds[k]["source"], "symmetric": True, "where": where,
                  "decade": case.get("decade"), "shape": list(H.shape), "weights": qlist(np.asarray(w)),
                  "matrix": qmat(H), "inputs": inputs}
            if cov is not None:
                rd["cov"] = cov
            if extra:
                rd.update(extra)
            return rd

        try:
            for k in range(len(worlds)):
                build(k)
            for si, st in enumerate(case["steps"]):
                op = st["op"]
                if op == "eval":
                    k = st["world"]
                    sp = pool[st["spec"]]
                    name = sp["scheme"]
                    reg = inst(st["spec"], fresh=st.get("inst") == "fresh")
                    o = objs[k]
                    via = st.get("via", "from")
                    extra = None
                    w = None
                    if st.get("weights_first"):
                        w = reg.regularization_weights_from(linear_obj=o)
                        w_keep = w
                        w = np.array(w, dtype=float)
                    got = []
                    if via == "from":
                        H = reg.regularization_matrix_from(linear_obj=o)
                        got = [H]
                    elif via == "obj":
                        o.regularization = reg
                        H = o.regularization_matrix
                        got = [H]
                    elif via == "mock_inv":
                        o.regularization = reg
                        e = int(st.get("extra", 1))
                        ex = aa.m.MockLinearObj(parameters=e, regularization=None)
                        lo = [ex, o] if st.get("extra_first") else [o, ex]
                        inv = aa.m.MockInversion(linear_obj_list=lo, settings=settings, preloads=preloads)
                        if st.get("reduced_first"):
                            R = inv.regularization_matrix_reduced
                            full = inv.regularization_matrix
                        else:
                            full = inv.regularization_matrix
                            R = inv.regularization_matrix_reduced
                        n = int(o.params)
                        off = e if st.get("extra_first") else 0
                        full_a = np.asarray(full)
                        H = full_a[off:off + n, off:off + n]
                        rest = full_a.copy()
                        rest[off:off + n, off:off + n] = 0
                        extra = {"placement": {"size": list(full_a.shape), "expected_size": n + e,
                                               "outside_nonzero": int(np.count_nonzero(rest)),
                                               "reduced_is_block": bool(np.asarray(R).shape == H.shape and
                                                                        np.array_equal(np.asarray(R), H))}}
                        got = [full, R]
                    elif via == "real_inv":
                        o.regularization = reg
                        mask = o.mapper_grids.mask
                        npx = len(worlds[k]["adapt"])
                        ds = aa.DatasetInterface(data=aa.Array2D(values=np.arange(1.0, npx + 1.0), mask=mask),
                                                 noise_map=aa.Array2D(values=np.ones(npx), mask=mask), convolver=None)
                        rinv = aa.Inversion(dataset=ds, linear_obj_list=[o], settings=settings, preloads=preloads)
                        H = rinv.regularization_matrix
                        got = [H]
                    else:
                        raise ValueError(via)
                    Hc = np.array(H, dtype=float)  # the observation is taken now
                    if w is None:
                        w_keep = reg.regularization_weights_from(linear_obj=o)
                        w = np.array(w_keep, dtype=float)
                    where = (f"step {si}: {name}{[str(a) for a in sp['args']]} on world {k} via {via}"
                             f"{' (pool instance)' if st.get('inst') != 'fresh' else ''}")
                    rd = read_obs(name, sp, k, Hc, w, where, extra)
                    reads.append(rd)
                    last = got + [w_keep]
                    if st.get("hold"):
                        held.append((got[0] if via in ("from", "obj", "real_inv") else None, H, w_keep, rd))
                elif op == "recheck":
                    # arrays handed out earlier must still hold what they held then
                    for g, H, w_keep, rd in held:
                        rd2 = dict(rd)
                        rd2["where"] = rd["where"] + f" — array re-read at step {si}"
                        rd2["matrix"] = qmat(np.asarray(H))
                        rd2["weights"] = qlist(np.asarray(w_keep))
                        reads.append(rd2)
                    held = []
                elif op == "scribble":
                    scribble(last)
                    last = []
                    held = []
                elif op == "scribble_all":
                    # everything the API returned or accepted for every world, then every world is rebuilt from
                    # fresh, equal inputs
                    scribble(last)
                    last, held = [], []
                    for k, o in enumerate(objs):
                        arrs = list((keeps[k] or {}).values())
                        try:
                            arrs.append(o.pixel_signals_from(signal_scale=1.0))
                        except Exception:
                            pass
                        try:
                            nb = o.source_plane_mesh_grid.neighbors
                            arrs += [nb, nb.sizes]
                        except Exception:
                            pass
                        try:
                            arrs.append(np.asarray(o.source_plane_mesh_grid))
                        except Exception:
                            pass
                        scribble([a for a in arrs if isinstance(a, np.ndarray)])
                    if st.get("new_instances", True):
                        insts.clear()
                    for k in range(len(worlds)):
                        build(k)
                elif op == "rebuild":
                    build(st["world"])
                elif op == "edit_adapt":
                    k = st["world"]
                    wd = worlds[k]
                    if wd["source"] == "mock":
                        sig = keeps[k]["signals"]
                        sig[st["index"]] = fl(st["value"])
                        wd["mock"]["signals"][st["index"]] = st["value"]
                    else:
                        v = Fraction(st["value"])
                        objs[k].adapt_data[st["index"]] = int(v) if wd.get("int_inputs") and v.denominator == 1 else float(v)
                        wd["adapt"][st["index"]] = st["value"]
                elif op == "edit_attr":
                    sp = pool[st["spec"]]
                    if st["attr"] == "signal_scale":
                        sp["signal_scale"] = st["value"]
                    else:
                        sp["args"][st["attr"]] = st["value"]
                    if st["spec"] in insts:
                        set_attrs(insts[st["spec"]], sp)
                elif op == "copy_obj":
                    objs[st["world"]] = copy.copy(objs[st["world"]])
                elif op == "decoy":
                    o = objs[st["world"]]
                    for f in (lambda: o.mapping_matrix, lambda: o.pix_indexes_for_sub_slim_index,
                              lambda: o.pix_weights_for_sub_slim_index, lambda: o.source_plane_mesh_grid.neighbors,
                              lambda: o.pixel_signals_from(signal_scale=2.0), lambda: o.params,
                              lambda: o.pix_sub_weights_split_cross, lambda: o.source_plane_mesh_grid.split_cross,
                              lambda: o.unique_mappings, lambda: o.edge_pixel_list):
                        try:
                            f()
                        except Exception:
                            pass
                elif op == "fault":
                    self._faults(aa, objs, insts, pool, inst)
                elif op == "config":
                    sec = conf.instance["general"][st["section"]]
                    conf_saved.append((sec, st["key"], st["key"] in sec, sec[st["key"]] if st["key"] in sec else None))
                    sec[st["key"]] = fl(st["value"]) if st.get("float") else st["value"]
                else:
                    raise ValueError(op)
        finally:
            for sec, key, had, old in reversed(conf_saved):
                if had:
                    sec[key] = old
                else:
                    try:
                        del sec[key]
                    except Exception:
                        pass
        return {"reads": reads, "inputs": {}}

    def _faults(self, aa, objs, insts, pool, inst):
        """every scheme instance is evaluated on broken linear objects, a raising user scheme is read through every
        object and an inversion — all exceptions are expected and swallowed; nothing may be left behind"""
        broken = [aa.m.MockMapper(source_plane_mesh_grid=None, pixel_signals=None, parameters=3)]
        base = {"params": 3, "neighbors": [[1, -1], [0, 2], [1, -1]], "sizes": [1, 2, 1],
                "points": [["0", "0"], ["1", "0"], ["0", "1"]]}
        broken.append(_mock_mapper(aa, {**base, "signals": ["1"]}))
        broken.append(_mock_mapper(aa, {**base, "neighbors": [[1, -1], [0, 9], [1, -1]], "signals": ["1", "1/2", "0"]}))
        for i in range(len(pool)):
            try:
                r = inst(i)
            except Exception:
                continue
            for b in broken:
                for f in (r.regularization_weights_from, r.regularization_matrix_from):
                    try:
                        f(linear_obj=b)
                    except Exception:
                        pass

        class _Boom:
            def regularization_matrix_from(self, linear_obj):
                raise RuntimeError("user scheme fails")

            def regularization_weights_from(self, linear_obj):
                raise RuntimeError("user scheme fails")

        for o in objs:
            old = o.regularization
            o.regularization = _Boom()
            for f in (lambda: o.regularization_matrix,
                      lambda: aa.m.MockInversion(linear_obj_list=[o]).regularization_matrix,
                      lambda: aa.m.MockInversion(linear_obj_list=[o]).regularization_matrix_reduced):
                try:
                    f()
                except Exception:
                    pass
            o.regularization = old

    def _oracle_reads(self, case, obs):
        for k, rd in enumerate(obs["reads"]):
            pc = {"kind": "scheme", "source": rd["source"], "scheme": rd["scheme"], "symmetric": True,
                  "decade": rd.get("decade"), "light": True}
            try:
                ok, d = self._oracle_scheme(pc, rd)
            except Skip:
                continue
            if not ok:
                return False, f"read {k} ({rd['where']}), judged as a fresh object in that state: {d}"
            pl = rd.get("placement")
            if pl:
                if pl["size"] != [pl["expected_size"]] * 2:
                    return False, f"read {k} ({rd['where']}): assembled matrix has shape {pl['size']}"
                if pl["outside_nonzero"]:
                    return False, f"read {k} ({rd['where']}): non-zero entries outside the object's block"
                if not pl["reduced_is_block"]:
                    return False, f"read {k} ({rd['where']}): regularization_matrix_reduced is not the object's block"
        return True, ""

    # ------------------------------------------------------------------ mid / large sizes (kind "large")
    # Cases are recipes (sizes + a seed): replays and evidence samples stay small.  The observation carries numpy
    # arrays; the model is not asked (model_requests -> []), the vectorised oracle alone judges them.
    LARGE_DENSE_MAX = 4100   # parameters of a dense matrix
    LARGE_KERNEL_MAX = 450   # the kernel covariance loop is quadratic pure Python

    @staticmethod
    def _large_points(case):
        t, seed = case["t"], case["seed"]
        r = np.random.default_rng(seed)
        L = int(math.ceil(math.sqrt(t * 1.3))) + 1
        cells = r.choice(L * L, size=t, replace=False)
        y, x = np.divmod(cells, L)
        jy, jx = r.integers(-5, 6, t), r.integers(-5, 6, t)
        ay, ax = [(1, 1), (1, 2), (2, 1), (3, 2)][seed % 4]
        oy, ox = (seed // 4) % 81 - 40, (seed // 324) % 81 - 40
        return np.stack([(16 * y + jy) * ay / 64.0 + oy / 8.0, (16 * x + jx) * ax / 64.0 + ox / 8.0], 1)

    def _large_mock(self, case):
        """ring + random chords (or a star) with dyadic signals, lattice points and split-cross tables"""
        import random as _random

        t, seed = case["t"], case["seed"]
        r = np.random.default_rng(seed + 1)
        if case.get("graph") == "star":
            a = np.zeros(t - 1, dtype=int)
            b = np.arange(1, t)
        else:
            a = np.arange(t)
            b = (a + 1) % t
            if t == 2:
                a, b = a[:1], b[:1]
            m = t // 3
            ca, cb = r.integers(0, t, m), r.integers(0, t, m)
            ok = (ca != cb) & ((ca - cb) % t != 1) & ((cb - ca) % t != 1)
            ca, cb = ca[ok], cb[ok]
            lo, hi = np.minimum(ca, cb), np.maximum(ca, cb)
            ch = np.unique(np.stack([lo, hi], 1), axis=0) if len(lo) else np.zeros((0, 2), dtype=int)
            a, b = np.concatenate([a, ch[:, 0]]), np.concatenate([b, ch[:, 1]])
        pa, pb = np.minimum(a, b), np.maximum(a, b)
        pairs = np.unique(np.stack([pa, pb], 1), axis=0)
        deg = np.bincount(np.concatenate([pairs[:, 0], pairs[:, 1]]), minlength=t)
        width = int(deg.max()) if t else 1
        nb = -np.ones((t, max(width, 1)), dtype=int)
        fill = np.zeros(t, dtype=int)
        for x, y in pairs:  # ascending neighbour order per row
            nb[x, fill[x]] = y
            fill[x] += 1
            nb[y, fill[y]] = x
            fill[y] += 1
        sig = r.integers(0, 17, t) / 16.0
        sig[int(r.integers(0, t))] = 1.0
        if case.get("lattice"):
            lh, lw, sp_, asp = case["lattice"]
            yy, xx = np.meshgrid(np.arange(lh) * fl(sp_) * fl(asp), np.arange(lw) * fl(sp_), indexing="ij")
            pts = np.stack([yy.ravel(), xx.ravel()], 1) + np.array([fl(case["offset"][0]), fl(case["offset"][1])])
        else:
            pts = self._large_points(case)
        out = {"pairs": pairs, "neighbors": nb, "sizes": deg.astype(int), "signals": sig, "points": pts}
        if case["scheme"] in SPLIT_SCHEMES:
            sp = self._mock_split(_random.Random(seed + 2), t, width=4)
            out["split"] = {"mappings": np.array(sp["mappings"], dtype=int), "sizes": np.array(sp["sizes"], dtype=int),
                            "weights": np.array([[fl(v) for v in r_] for r_ in sp["weights"]])}
        return out

    def _impl_large(self, aa, case):
        from autoarray.inversion.pixelization.mappers.abstract import PixSubWeights

        rec = case["recipe"]
        if rec == "neighbors":
            from autoarray.inversion.pixelization.mesh import mesh_util

            h, w = case["shape"]
            nb, sz = mesh_util.rectangular_neighbors_from(shape_native=(h, w))
            obs = {"nb": np.array(nb), "sizes": np.array(sz), "inputs": {}}
            if case.get("through_mesh"):
                grid = aa.Grid2D.uniform(shape_native=(3, 3), pixel_scales=1.0)
                mesh = aa.Mesh2DRectangular.overlay_grid(grid=grid, shape_native=(h, w))
                obs["mesh_nb"] = np.array(mesh.neighbors)
                obs["mesh_sizes"] = np.array(mesh.neighbors.sizes)
                obs["mesh_pixels"] = int(mesh.pixels)
            return obs
        if rec == "signals":
            world = self._large_signal_world(case)
            mapper = _real_mapper(aa, world)
            sc = fl(case["signal_scale"])
            sig = mapper.pixel_signals_from(signal_scale=sc)
            ad = mapper.adapt_data
            return {"signals": np.array(sig, dtype=float), "pixels": int(mapper.pixels),
                    "pw": np.array(mapper.pix_weights_for_sub_slim_index, dtype=float),
                    "pi": np.array(mapper.pix_indexes_for_sub_slim_index, dtype=int),
                    "ps": np.array(mapper.pix_sizes_for_sub_slim_index, dtype=int),
                    "sfs": np.array(mapper.over_sampler.slim_for_sub_slim, dtype=int),
                    "adapt": np.array(ad.array if hasattr(ad, "array") else ad, dtype=float), "inputs": {}}
        if rec == "inversion":
            objs, spec = [], self._large_inversion_spec(case)
            for o in spec:
                if o["scheme"] is None:
                    objs.append(aa.m.MockLinearObj(parameters=o["params"], regularization=None))
                else:
                    mesh = _MeshGrid(aa, np.zeros((o["params"], 2)), o["neighbors"], o["sizes"])
                    reg = _make_scheme(aa, o["scheme"], o["args"], None, "float")
                    objs.append(aa.m.MockMapper(source_plane_mesh_grid=mesh, regularization=reg,
                                                pixel_signals=np.ones(o["params"])))
            inv = aa.m.MockInversion(linear_obj_list=objs)
            if case.get("reduced_first"):
                R = inv.regularization_matrix_reduced
                nr = inv.no_regularization_index_list
                H = inv.regularization_matrix
            else:
                nr = inv.no_regularization_index_list
                H = inv.regularization_matrix
                R = inv.regularization_matrix_reduced
            return {"H": np.array(H, dtype=float), "R": np.array(R, dtype=float), "no_reg": np.array(nr, dtype=int),
                    "total": int(inv.total_params), "inputs": {}}
        # ---- one scheme on one big linear object
        name = case["scheme"]
        args = list(case["args"])
        obs = {"inputs": {}}
        if case["source"] == "mock":
            mk = self._large_mock(case)
            mesh = _MeshGrid(aa, mk["points"], mk["neighbors"], mk["sizes"])
            psw = None
            if "split" in mk:
                psw = PixSubWeights(mappings=mk["split"]["mappings"].copy(), sizes=mk["split"]["sizes"].copy(),
                                    weights=mk["split"]["weights"].copy())
            mapper = aa.m.MockMapper(source_plane_mesh_grid=mesh, pixel_signals=mk["signals"].copy(),
                                     pix_sub_weights_split_cross=psw)
        else:
            world = dict(case)
            if case["source"] == "delaunay":
                P = self._large_points(case)
                world["points"] = [[q(a), q(b)] for a, b in P.tolist()]
            try:
                mapper = _real_mapper(aa, world)
            except Exception as e:
                if "qhull" in str(e).lower() or "Qhull" in type(e).__name__:
                    raise Skip("qhull")
                raise
            if name in SIGNAL_SCHEMES:
                obs["mapper"] = _mapper_signal_tables(mapper, case.get("signal_scale") or "1")
                obs["signals"] = np.array(mapper.pixel_signals_from(signal_scale=fl(case.get("signal_scale") or "1")),
                                          dtype=float)
            if case["source"] == "delaunay":
                obs["simplices"] = np.array(mapper.source_plane_mesh_grid.delaunay.simplices, dtype=int)
            if name in SPLIT_SCHEMES:
                sp = mapper.pix_sub_weights_split_cross
                obs["split"] = {"mappings": np.array(sp.mappings, dtype=int), "sizes": np.array(sp.sizes, dtype=int),
                                "weights": np.array(sp.weights, dtype=float)}
        P = np.array(mapper.source_plane_mesh_grid, dtype=float).reshape(-1, 2)
        if name in KERNEL_SCHEMES:
            # scale = ratio x the smallest separation of the mesh points (10 significant bits)
            d2 = ((P[:, None, :] - P[None, :, :]) ** 2).sum(-1)
            dmin = math.sqrt(d2[d2 > 0].min())
            m_, e_ = math.frexp(fl(args[1]) * dmin)
            args[1] = q(math.ldexp(round(m_ * 1024), e_ - 10))
        reg = _make_scheme(aa, name, args, case.get("signal_scale"), case.get("arg_type", "float"))
        if case.get("weights_first"):
            w = reg.regularization_weights_from(linear_obj=mapper)
            H = reg.regularization_matrix_from(linear_obj=mapper)
        else:
            H = reg.regularization_matrix_from(linear_obj=mapper)
            w = reg.regularization_weights_from(linear_obj=mapper)
        nbr = mapper.source_plane_mesh_grid.neighbors
        obs.update({"n": int(mapper.params), "H": np.array(H, dtype=float), "w": np.array(w, dtype=float),
                    "nb": np.array(nbr, dtype=int), "sizes": np.array(nbr.sizes, dtype=int), "points": P,
                    "args": args})
        return obs

    def _large_signal_world(self, case):
        h, w = case["frame"]
        r = np.random.default_rng(case["seed"])
        m = np.zeros((h, w), dtype=bool)
        nmask = h * w - case["t"]
        if nmask > 0:
            m.ravel()[r.choice(h * w, size=nmask, replace=False)] = True
        adapt = r.integers(1, 33, case["t"]) / 4.0
        world = {"source": case["source"], "mask": mask_json(m), "scales": case["scales"], "origin": case["origin"],
                 "sub": case["sub"], "adapt": [q(v) for v in adapt.tolist()], "route": case.get("route", "direct")}
        if case["source"] == "rect":
            world["mesh_shape"] = case["mesh_shape"]
        else:
            r2 = __import__("random").Random(case["seed"])
            world["points"] = self._delaunay_points(r2, case["vertices"])
        return world

    def _large_inversion_spec(self, case):
        r = __import__("random").Random(case["seed"])
        out = []
        for p in case["sizes"]:
            name = r.choice(["Constant", "Zeroth", "ConstantZeroth", None, None])
            o = {"params": p, "scheme": name}
            if name is not None:
                if p == 1:
                    nb, sz = [[-1]], [0]
                else:  # a path
                    nb = [[j for j in (i - 1, i + 1) if 0 <= j < p] for i in range(p)]
                    sz = [len(x) for x in nb]
                    nb = [x + [-1] * (2 - len(x)) for x in nb]
                o.update({"neighbors": nb, "sizes": sz,
                          "args": [q(Fraction(r.randint(1, 16), 4)) for _ in range(2 if name == "ConstantZeroth" else 1)]})
            out.append(o)
        return out

    # ---- the vectorised oracle
    @staticmethod
    def _rect_table(h, w):
        k = np.arange(h * w)
        y, x = np.divmod(k, w)
        cols = [np.where(y > 0, k - w, -1), np.where(x > 0, k - 1, -1), np.where(x + 1 < w, k + 1, -1),
                np.where(y + 1 < h, k + w, -1)]
        T = np.stack(cols, 1)
        sizes = (T >= 0).sum(1)
        # valid entries first, in ascending order, padded with -1
        key = np.where(T >= 0, T, np.iinfo(np.int64).max)
        order = np.argsort(key, axis=1, kind="stable")
        T = np.take_along_axis(T, order, 1)
        return T, sizes

    @staticmethod
    def _pairs_of_table(nb, sizes):
        """(directed pairs (i, j) of the table, problem) — vectorised"""
        n, wdt = nb.shape
        valid = np.arange(wdt)[None, :] < sizes[:, None]
        i = np.repeat(np.arange(n), wdt).reshape(n, wdt)[valid]
        j = nb[valid]
        return i, j

    def _oracle_large(self, case, obs):
        if "err" in obs and "H" not in obs and "nb" not in obs and "signals" not in obs:
            return False, f"implementation raised {obs.get('err')}: {obs.get('msg', '')}"
        rec = case["recipe"]
        if rec == "neighbors":
            h, w = case["shape"]
            T, S = self._rect_table(h, w)
            for what, a, b in [("rectangular_neighbors_from", obs["nb"], obs["sizes"])] + (
                    [("Mesh2DRectangular.neighbors", obs["mesh_nb"], obs["mesh_sizes"])] if "mesh_nb" in obs else []):
                if a.shape != T.shape or b.shape != S.shape:
                    return False, f"{what}: table shape {a.shape} / sizes {b.shape} for a {h} x {w} mesh"
                bad = np.nonzero((a != T).any(1) | (b != S))[0]
                if len(bad):
                    k = int(bad[0])
                    return False, (f"{what}: pixel {k} = ({k // w},{k % w}) of a {h} x {w} mesh has row {a[k].tolist()} size "
                                   f"{int(b[k])}, expected {T[k].tolist()} (its 4-neighbours)")
            if "mesh_pixels" in obs and obs["mesh_pixels"] != h * w:
                return False, f"mesh.pixels = {obs['mesh_pixels']} for shape {h} x {w}"
            return True, ""
        if rec == "signals":
            return self._oracle_large_signals(case, obs)
        if rec == "inversion":
            return self._oracle_large_inversion(case, obs)
        return self._oracle_large_scheme(case, obs)

    def _oracle_large_signals(self, case, obs, signals=None):
        n = obs["pixels"]
        pw, pi, ps, sfs, ad = obs["pw"], obs["pi"], obs["ps"], obs["sfs"], obs["adapt"]
        wdt = pi.shape[1]
        valid = np.arange(wdt)[None, :] < ps[:, None]
        wgt = np.where((ps > 1)[:, None], pw, 1.0)
        contrib = (ad[sfs][:, None] * wgt)[valid]
        idx = pi[valid]
        sig = np.zeros(n)
        cnt = np.zeros(n)
        np.add.at(sig, idx, contrib)
        np.add.at(cnt, idx, 1.0)
        mean = sig / np.where(cnt > 0, cnt, 1.0)
        if not mean.max() > 0:
            raise Skip("no signal")
        e = (mean / mean.max()) ** fl(case["signal_scale"])
        got = obs["signals"] if signals is None else signals
        if got.shape != (n,):
            return False, f"{got.shape} pixel signals for {n} pixels"
        bad = np.nonzero(~(np.abs(got - e) <= 1e-10))[0]
        if len(bad):
            k = int(bad[0])
            return False, f"pixel signal {k}: {got[k]!r}, expected {e[k]!r} ({n} pixels, {len(sfs)} sub-pixels)"
        if got.min() < 0 or got.max() > 1 or got.max() != 1.0:
            return False, f"pixel signals range [{got.min()!r}, {got.max()!r}]: not in [0, 1] with the brightest exactly 1"
        return True, ""

    def _oracle_large_inversion(self, case, obs):
        spec = self._large_inversion_spec(case)
        tot = sum(o["params"] for o in spec)
        H = obs["H"]
        if obs["total"] != tot or H.shape != (tot, tot):
            return False, f"block matrix is {H.shape}, expected {tot} x {tot}"
        E = np.zeros((tot, tot))
        off = 0
        noreg = []
        for o in spec:
            p = o["params"]
            if o["scheme"] is None:
                noreg += list(range(off, off + p))
            else:
                a = [fl(v) for v in o["args"]]
                B = np.zeros((p, p))
                if o["scheme"] in ("Constant", "ConstantZeroth"):
                    i = np.arange(p - 1)
                    B[i, i] += a[0] ** 2
                    B[i + 1, i + 1] += a[0] ** 2
                    B[i, i + 1] -= a[0] ** 2
                    B[i + 1, i] -= a[0] ** 2
                    B[np.arange(p), np.arange(p)] += RIDGE + (a[1] ** 2 if o["scheme"] == "ConstantZeroth" else 0.0)
                else:
                    B[np.arange(p), np.arange(p)] = a[0] ** 2
                E[off:off + p, off:off + p] = B
            off += p
        tol = 1e-12 * max(1.0, np.abs(E).max())
        bad = np.argwhere(~(np.abs(H - E) <= tol))
        if len(bad):
            i, j = (int(v) for v in bad[0])
            return False, (f"assembled matrix entry ({i},{j}) = {H[i, j]!r}, expected {E[i, j]!r} "
                           f"({len(spec)} objects, {tot} parameters)")
        if obs["no_reg"].tolist() != noreg:
            k = next((k for k, (a, b) in enumerate(zip(obs["no_reg"].tolist(), noreg)) if a != b),
                     min(len(noreg), len(obs["no_reg"])))
            return False, f"no_regularization_index_list differs from the unregularized parameter ranges at position {k}"
        keep = np.setdiff1d(np.arange(tot), np.array(noreg, dtype=int))
        R = H[np.ix_(keep, keep)]
        if obs["R"].shape != R.shape or not np.array_equal(obs["R"], R):
            return False, (f"regularization_matrix_reduced ({obs['R'].shape}) is not the matrix with the {len(noreg)} "
                           f"unregularized rows/columns removed ({R.shape})")
        return True, ""

    def _oracle_large_scheme(self, case, obs):
        name = case["scheme"]
        src = case["source"]
        n = obs["n"]
        H, w, nb, sizes = obs["H"], obs["w"], obs["nb"], obs["sizes"]
        args = [fl(a) for a in obs["args"]]
        mk = self._large_mock(case) if src == "mock" else None
        # ---- size = parameter count
        want = case["t"] if src != "rect" else case["mesh_shape"][0] * case["mesh_shape"][1]
        if n != want or H.shape != (n, n) or w.shape != (n,):
            return False, f"{name}: {n} parameters, matrix {H.shape}, {w.shape} weights for {want} mesh pixels"
        # ---- the mesh's neighbour table (independent statement)
        if src == "rect":
            T, S = self._rect_table(*case["mesh_shape"])
            if nb.shape != T.shape or not np.array_equal(nb, T) or not np.array_equal(sizes, S):
                return False, f"the neighbour table of the {case['mesh_shape']} mesh is not its 4-connectivity"
            m0 = nb >= 0
            i = np.repeat(np.arange(n), nb.shape[1]).reshape(nb.shape)[m0]
            j = nb[m0]
        else:
            if nb.shape[0] != n or sizes.shape != (n,) or sizes.max(initial=0) > nb.shape[1]:
                return False, "malformed neighbour table"
            i, j = self._pairs_of_table(nb, sizes)
            if len(j) and (j.min() < 0 or j.max() >= n):
                return False, "neighbour table has an out-of-range index"
            if src == "delaunay":
                sx = obs["simplices"]
                e = np.concatenate([sx[:, [0, 1]], sx[:, [1, 2]], sx[:, [0, 2]]])
                e = np.unique(np.concatenate([e, e[:, ::-1]]), axis=0)
            else:
                e = np.concatenate([mk["pairs"], mk["pairs"][:, ::-1]])
                e = e[np.lexsort((e[:, 1], e[:, 0]))]
            got = np.stack([i, j], 1)
            got = got[np.lexsort((got[:, 1], got[:, 0]))]
            if got.shape != e.shape or not np.array_equal(got, e):
                return False, ("the mesh's neighbour table is not the edge relation of the triangulation"
                               if src == "delaunay" else "the neighbour table read back differs from the one given")
        lo = i < j
        pa, pb = i[lo], j[lo]
        # ---- reported weights
        sig = None
        if name in SIGNAL_SCHEMES:
            if src == "mock":
                sig = mk["signals"]
            else:
                mp = obs["mapper"]
                so = {"pixels": mp["pixels"], "pw": np.array([[fl(v) for v in r] for r in mp["pixel_weights"]]),
                      "pi": np.array(mp["pix_indexes"], dtype=int), "ps": np.array(mp["pix_sizes"], dtype=int),
                      "sfs": np.array(mp["slim_for_sub"], dtype=int), "adapt": np.array([fl(v) for v in mp["adapt_data"]])}
                if so["pi"].ndim != 2:
                    return False, "malformed mapper tables"
                ok, d = self._oracle_large_signals({"signal_scale": case["signal_scale"]}, so, signals=obs["signals"])
                if not ok:
                    return False, d
                sig = obs["signals"]
        if name in ("AdaptiveBrightness", "AdaptiveBrightnessSplit"):
            ew = (args[0] * sig + args[1] * (1 - sig)) ** 2
        elif name == "BrightnessZeroth":
            ew = args[0] * (1 - sig)
        else:
            ew = np.full(n, args[0])
        if not (np.abs(w - ew) <= 1e-12 * np.maximum(1.0, np.abs(ew))).all():
            k = int(np.nonzero(~(np.abs(w - ew) <= 1e-12 * np.maximum(1.0, np.abs(ew))))[0][0])
            return False, f"{name}: reported weight {k} = {w[k]!r}, expected {ew[k]!r}"
        if name in KERNEL_SCHEMES:
            return self._oracle_large_kernel(case, obs, args)
        # ---- the stated matrix, entry by entry
        E = np.zeros((n, n))
        dg = np.arange(n)
        if name in ("Constant", "ConstantZeroth", "AdaptiveBrightness"):
            g = np.full(len(pa), args[0] ** 2) if name != "AdaptiveBrightness" else w[pa] ** 2 + w[pb] ** 2
            np.add.at(E, (pa, pa), g)
            np.add.at(E, (pb, pb), g)
            np.add.at(E, (pa, pb), -g)
            np.add.at(E, (pb, pa), -g)
            E[dg, dg] += RIDGE + (args[1] ** 2 if name == "ConstantZeroth" else 0.0)
        elif name == "Zeroth":
            E[dg, dg] = args[0] ** 2
        elif name == "BrightnessZeroth":
            E[dg, dg] = w ** 2
        else:  # split-cross: rho I + sum_k omega^2 v_k v_k^T, v_k = e_{k//4} - sum_l w_kl e_{m_kl}
            import scipy.sparse as sps

            sp = obs["split"] if src != "mock" else mk["split"]
            mp_, sz_, wt_ = sp["mappings"], sp["sizes"], sp["weights"]
            if mp_.shape[0] != 4 * n:
                return False, "split-cross tables do not have 4 rows per pixel"
            valid = np.arange(mp_.shape[1])[None, :] < sz_[:, None]
            rows = np.repeat(np.arange(4 * n), mp_.shape[1]).reshape(mp_.shape)[valid]
            cols = mp_[valid]
            if len(cols) and (cols.min() < 0 or cols.max() >= n):
                return False, "a cross-point row is out of range"
            V = sps.coo_matrix((-wt_[valid], (rows, cols)), shape=(4 * n, n)).tocsr() \
                + sps.coo_matrix((np.ones(4 * n), (np.arange(4 * n), np.arange(4 * n) // 4)), shape=(4 * n, n)).tocsr()
            om = (w if name == "AdaptiveBrightnessSplit" else np.full(n, args[0])) ** 2
            E = np.asarray((V.T @ sps.diags(np.repeat(om, 4)) @ V).todense()) + RIDGE * np.eye(n)
        tol = (1e-9 if name in SPLIT_SCHEMES else 1e-12) * max(np.abs(E).max(), 1e-300)
        D = np.abs(H - E)
        if not (D <= tol).all():
            a, b = (int(v) for v in np.argwhere(~(D <= tol))[0])
            x = np.ones(n)
            return False, (f"{name} on {n} parameters: entry ({a},{b}) = {H[a, b]!r} but the stated quadratic form has "
                           f"{E[a, b]!r} there; on the all-ones vector x^T H x = {float(x @ H @ x)!r}, stated "
                           f"{float(x @ E @ x)!r}")
        if not np.array_equal(H, H.T):
            return False, f"{name} on {n} parameters: not symmetric"
        if name in PD_SCHEMES and np.abs(H).max() <= RIDGE * 2 ** 40:
            try:
                np.linalg.cholesky(H)
            except np.linalg.LinAlgError:
                return False, f"{name} on {n} parameters: not positive definite (Cholesky fails)"
        elif name not in PD_SCHEMES and (np.diag(H) < 0).any():
            return False, f"{name} on {n} parameters: negative diagonal entry"
        return True, ""

    def _oracle_large_kernel(self, case, obs, args):
        name = case["scheme"]
        H, P = obs["H"], obs["points"]
        n = len(P)
        c, sc = args
        d2 = ((P[:, None, :] - P[None, :, :]) ** 2).sum(-1)
        C = (np.exp(-d2 / (2 * sc * sc)) if name == "GaussianKernel" else np.exp(-np.sqrt(d2) / sc)) + RIDGE * np.eye(n)
        lam = np.linalg.eigvalsh(C)
        cond = lam[-1] / lam[0] if lam[0] > 0 else float("inf")
        if not (lam[0] > 0):
            return False, f"{name}: the oracle's own covariance matrix is not positive definite (cond {cond:.2e})"
        mx = np.abs(H).max()
        asym = np.abs(H - H.T).max()
        if not (asym <= 1e-4 * mx):
            return False, f"{name} on {n} mesh pixels: not symmetric (max |H - H^T| = {asym:.3e}, max |H| = {mx:.3e})"
        ev = np.linalg.eigvalsh(0.5 * (H + H.T))
        e_min = c / lam[-1]
        # H = c inv(C): its smallest eigenvalue is c / lambda_max(C), a well-conditioned quantity even when C is not
        # (np.linalg.inv solves (C + E) X = I with |E| ~ n eps |C|, far below the 1e-8 ridge)
        if not (0.9 * e_min <= ev[0] <= 1.1 * e_min):
            return False, (f"{name} on {n} mesh pixels (scale {sc!r}, cond {cond:.2e}): smallest eigenvalue of the "
                           f"regularization matrix is {ev[0]:.6e}, expected coefficient / lambda_max(covariance) = "
                           f"{e_min:.6e}" + (" — not positive definite" if ev[0] <= 0 else ""))
        if cond <= COND_ORACLE_MAX:
            res = np.abs(H @ C / c - np.eye(n)).max()
            if res > 1e-6:
                return False, f"{name}: H·C/coefficient differs from the identity by {res:.3e} (cond {cond:.2e})"
        return True, ""

    # ------------------------------------------------------------------ round 5/6 streams: generation
    DEC_K = [-45, -40, -33, -27, -20, -14, -8, 8, 14, 20, 27, 33, 40, 45]

    @staticmethod
    def _scaled(vals, k):
        f = Fraction(2) ** k
        return [q(Fraction(v) * f) for v in vals]

    def _gen_decades(self, rng, quick):
        """R5-A / R5-E: ordinary cases with one ingredient, or the whole world, scaled by 2^k (exact in doubles)"""
        nonkernel = RATIONAL_SCHEMES + SPLIT_SCHEMES
        # (a) coefficients of a scheme on a mock object: all of them, or one only
        for _ in range(70 if quick else 500):
            name = rng.choice(nonkernel)
            n = rng.randint(2, 7)
            mock = self._mock_obj(rng, n, symmetric=True, with_split=name in SPLIT_SCHEMES, multi=rng.random() < 0.2)
            args, ss = self._scheme_args(rng, name)
            r = rng.random()
            if r < 0.25:  # extreme magnitudes: the squares (fourth powers for the adaptive schemes) stay representable
                lim = 110 if name in SIGNAL_SCHEMES else 400
                k = rng.choice([-1, 1]) * rng.randint(lim // 2, lim)
                what = "xcoef"
            else:
                k = rng.choice(self.DEC_K)
                what = "coef"
            if len(args) == 2 and rng.random() < 0.4:
                i = rng.randrange(2)
                args[i] = self._scaled([args[i]], k)[0]
                what += "1"
            else:
                args = self._scaled(args, k)
            yield {"tag": f"decade_{what}_{name}", "kind": "scheme", "source": "mock", "scheme": name, "args": args,
                   "signal_scale": ss, "mock": mock, "symmetric": True, "decade": k}
        # (b) arbitrary (non-dyadic) doubles as coefficients, at a decade
        for _ in range(20 if quick else 150):
            name = rng.choice(nonkernel)
            n = rng.randint(2, 6)
            mock = self._mock_obj(rng, n, symmetric=True, with_split=name in SPLIT_SCHEMES)
            args, ss = self._scheme_args(rng, name)
            k = rng.choice([0, 0, 0] + self.DEC_K)
            args = [q(Fraction(rng.uniform(0.05, 9.0)) * Fraction(2) ** k) for _ in args]
            yield {"tag": f"decade_general_{name}", "kind": "scheme", "source": "mock", "scheme": name, "args": args,
                   "signal_scale": ss, "mock": mock, "symmetric": True, "decade": k}
        # (c) kernel schemes: mesh points AND kernel scale at a decade / far from the origin (the matrix is invariant)
        for _ in range(24 if quick else 160):
            name = rng.choice(KERNEL_SCHEMES)
            n = rng.randint(2, 8)
            mock = self._mock_obj(rng, n, symmetric=True)
            mock.pop("int_inputs", None)
            args, ss = self._scheme_args(rng, name)
            r = rng.random()
            if r < 0.6:
                k = rng.choice(self.DEC_K) if rng.random() < 0.7 else rng.choice([-1, 1]) * rng.randint(100, 400)
                mock["points"] = [self._scaled(pt, k) for pt in mock["points"]]
                what = "pts"
            else:
                k = 0
                off = [Fraction(rng.choice([-1, 1]) * 2 ** rng.randint(12, 24)) * rng.randint(1, 7) for _ in range(2)]
                mock["points"] = [[q(Fraction(a) + off[0]), q(Fraction(b) + off[1])] for a, b in mock["points"]]
                what = "far"
            kc = rng.choice([0] + self.DEC_K)
            args[0] = self._scaled([args[0]], kc)[0]
            yield {"tag": f"decade_{what}_{name}", "kind": "scheme", "source": "mock", "scheme": name, "args": args,
                   "signal_scale": ss, "mock": mock, "symmetric": True, "decade": kc or k or 1}
        # (d) real mappers: the whole geometry (pixel scales, origin, vertices) at a decade, origins far from zero,
        #     the adapt image at a decade.  Geometry stays within 2^-20 .. 2^16: `Mesh2DRectangular.overlay_grid`
        #     pads the mesh by an absolute 1e-8 (documented), which is the resolution limit of a rectangular mapper
        for _ in range(20 if quick else 140):
            frame = self._data_frame(rng, big=True)
            frame.pop("int_inputs", None)
            what = rng.choice(["geom", "geom", "far", "adapt", "adapt"])
            rect = rng.random() < 0.5
            pts = None if rect else self._delaunay_points(rng, rng.randint(4, 9))
            if what == "geom":
                k = rng.choice([-20, -16, -12, -7, 7, 12, 16])
                frame["scales"] = self._scaled(frame["scales"], k)
                frame["origin"] = self._scaled(frame["origin"], k)
                if pts:
                    pts = [self._scaled(pt, k) for pt in pts]
            elif what == "far":
                k = 0
                off = [Fraction(rng.choice([-1, 1]) * 2 ** rng.randint(10, 18)) * rng.randint(1, 5) for _ in range(2)]
                frame["origin"] = [q(Fraction(frame["origin"][0]) + off[0]), q(Fraction(frame["origin"][1]) + off[1])]
                if pts:
                    pts = [[q(Fraction(a) + off[0]), q(Fraction(b) + off[1])] for a, b in pts]
            else:
                k = rng.choice(self.DEC_K) if rng.random() < 0.6 else rng.choice([-1, 1]) * rng.randint(100, 480)
                frame["adapt"] = self._scaled(frame["adapt"], k)
            names = (RATIONAL_SCHEMES if rect else RATIONAL_SCHEMES + SPLIT_SCHEMES) + KERNEL_SCHEMES
            if what == "adapt":
                names = [x for x in names if x in SIGNAL_SCHEMES]
            for name in rng.sample(names, 2):
                args, ss = self._scheme_args(rng, name)
                c = {"tag": f"decade_{what}_{'rect' if rect else 'delaunay'}_{name}", "kind": "scheme",
                     "source": "rect" if rect else "delaunay", "scheme": name, "args": args, "signal_scale": ss,
                     **frame}  # (coefficients of order one: the ordinary comparison; the relative one would ask
                     #            more of 1 - signal, a cancellation, than doubles give)
                if rect:
                    c["mesh_shape"] = [rng.randint(3, 5), rng.randint(3, 5)]
                else:
                    c["points"] = pts
                yield c
        # (e) block assembly with the objects' coefficients at different decades
        for _ in range(16 if quick else 120):
            objs = []
            for _ in range(rng.randint(2, 4)):
                if rng.random() < 0.3:
                    objs.append({"type": "linear_obj", "params": rng.randint(1, 3)})
                    continue
                n = rng.randint(1, 4)
                name = rng.choice(RATIONAL_SCHEMES + SPLIT_SCHEMES)
                args, ss = self._scheme_args(rng, name)
                args = self._scaled(args, rng.choice(self.DEC_K + [0]))
                objs.append({"type": "mapper", "params": n, "scheme": name, "args": args, "signal_scale": ss,
                             "mock": self._mock_obj(rng, n, True, name in SPLIT_SCHEMES)})
            yield {"tag": "decade_blocks", "kind": "inversion", "objs": objs, "decade": 1,
                   "preload": rng.choice(["absent", "correct"])}

    def _gen_near(self, rng, quick):
        """R5-A: nearly-uniform / nearly-equal / nearly-zero ingredients: relative differences 2^-20 .. 2^-40, far
        outside the 1e-12 / 1e-10 comparison and inside numpy's isclose / allclose defaults"""
        for _ in range(40 if quick else 300):
            name = rng.choice(["AdaptiveBrightness", "AdaptiveBrightness", "BrightnessZeroth", "AdaptiveBrightnessSplit",
                               "ConstantZeroth", "Constant", "Zeroth"])
            n = rng.randint(2, 7)
            mock = self._mock_obj(rng, n, symmetric=True, with_split=name in SPLIT_SCHEMES)
            mock.pop("int_inputs", None)
            args, ss = self._scheme_args(rng, name)
            m = rng.choice([20, 24, 28, 33, 40])
            eps = Fraction(1, 2 ** m)
            what = rng.choice(["signals", "coefs", "small"]) if name in SIGNAL_SCHEMES else rng.choice(["coefs", "small"])
            k = 0
            if what == "signals":
                # nearly uniform signals (brightest exactly 1), optionally around a small common level
                base = rng.choice([Fraction(1), Fraction(1), Fraction(1, 2), Fraction(1, 2 ** 30)])
                sig = [base * (1 - eps * rng.randint(0, 9)) for _ in range(n)]
                sig[rng.randrange(n)] = Fraction(1)
                mock["signals"] = qlist(sig)
            elif what == "coefs":
                if len(args) == 2:  # nearly equal coefficients (adaptive weights nearly uniform)
                    args[1] = q(Fraction(args[0]) * (1 + eps * rng.choice([-3, -1, 1, 5])))
                else:
                    args[0] = q(Fraction(args[0]) * (1 + eps))
            else:
                # everything small: all weights / entries far below 1e-8, distinct relative to each other
                k = -rng.randint(14, 44)
                args = self._scaled(args, k)
            yield {"tag": f"near_{what}_{name}", "kind": "scheme", "source": "mock", "scheme": name, "args": args,
                   "signal_scale": ss, "mock": mock, "symmetric": True, "decade": k or 1}
        # nearly uniform adapt images on real mappers (signals nearly equal), at several decades
        for _ in range(12 if quick else 90):
            frame = self._data_frame(rng, big=True)
            frame.pop("int_inputs", None)
            m = rng.choice([16, 20, 24])
            lvl = Fraction(2) ** rng.choice([-40, -20, 0, 0, 20, 40]) * rng.randint(1, 7)
            frame["adapt"] = [q(lvl * (1 + Fraction(rng.randint(0, 15), 2 ** m))) for _ in frame["adapt"]]
            rect = rng.random() < 0.5
            name = rng.choice(["AdaptiveBrightness", "BrightnessZeroth"] + ([] if rect else ["AdaptiveBrightnessSplit"]))
            args, ss = self._scheme_args(rng, name)
            c = {"tag": f"near_adapt_{'rect' if rect else 'delaunay'}_{name}", "kind": "scheme",
                 "source": "rect" if rect else "delaunay", "scheme": name, "args": args, "signal_scale": ss,
                 **frame}
            if rect:
                c["mesh_shape"] = [rng.randint(3, 5), rng.randint(3, 5)]
            else:
                c["points"] = self._delaunay_points(rng, rng.randint(4, 9))
            yield c
            yield {"tag": "near_adapt_signals", "kind": "signals", "source": c["source"],
                   "signal_scale": q(rng.choice([1, 2, Fraction(1, 2)])),
                   **{k: v for k, v in c.items() if k not in ("tag", "kind", "scheme", "args", "signal_scale")}}

    LAYOUTS = ["F", "T", "strided", "rev", "offset", "readonly"]

    def _gen_layout(self, rng, quick):
        """R5-C: equal-valued inputs in other memory layouts / containers / dtypes"""
        for _ in range(60 if quick else 400):
            name = rng.choice(ALL_SCHEMES)
            n = rng.randint(2, 7)
            mock = self._mock_obj(rng, n, symmetric=True, with_split=name in SPLIT_SCHEMES, multi=rng.random() < 0.2)
            args, ss = self._scheme_args(rng, name)
            lay = {}
            for key in rng.sample(["points", "neighbors", "sizes", "signals"], rng.randint(1, 3)):
                # (float32 mesh points are not offered to the kernel schemes: numpy then evaluates the kernel in
                #  single precision, a matter of its promotion rules and not of the property)
                lay[key] = rng.choice(self.LAYOUTS + (["int32", "int16"] if key in ("neighbors", "sizes") else [])
                                      + (["float32"] if key == "signals" or
                                         (key == "points" and name not in KERNEL_SCHEMES) else []))
            c = {"tag": f"layout_mock_{name}", "kind": "scheme", "source": "mock", "scheme": name, "args": args,
                 "signal_scale": ss, "mock": mock, "symmetric": True, "lay": lay}
            if lay.get("signals") == "float32" and name in SIGNAL_SCHEMES:
                mock.pop("int_inputs", None)
                c["f32"] = True
            if rng.random() < 0.15 and name not in KERNEL_SCHEMES:
                c["arg_type"] = "0d"
            yield c
        for _ in range(40 if quick else 300):
            frame = self._data_frame(rng, big=True)
            rect = rng.random() < 0.45
            lay = {}
            if rng.random() < 0.6:
                lay["adapt"] = rng.choice(["native", "native_F", "list", "readonly", "strided", "float32", "array2d"])
                if lay["adapt"] != "list":
                    frame.pop("int_inputs", None)
            if rng.random() < 0.5:
                lay["mask"] = rng.choice(["from_mask", "from_mask", "F", "strided", "readonly", "list"])
            if rng.random() < 0.3:
                frame["origin"] = ["0", "0"]  # an explicit origin of exactly (0.0, 0.0)
            names = (RATIONAL_SCHEMES if rect else RATIONAL_SCHEMES + SPLIT_SCHEMES) + KERNEL_SCHEMES
            name = rng.choice(names)
            args, ss = self._scheme_args(rng, name)
            c = {"tag": f"layout_{'rect' if rect else 'delaunay'}_{name}", "kind": "scheme",
                 "source": "rect" if rect else "delaunay", "scheme": name, "args": args, "signal_scale": ss, **frame}
            if rect:
                c["mesh_shape"] = [rng.randint(3, 5), rng.randint(3, 5)]
            else:
                c["points"] = self._delaunay_points(rng, rng.randint(4, 9))
                c["container"] = "ndarray"
                if rng.random() < 0.7:
                    lay["points"] = rng.choice(self.LAYOUTS + ([] if name in KERNEL_SCHEMES else ["float32"]))
            c["lay"] = lay
            yield c
            if rng.random() < 0.4:
                yield {"tag": "layout_signals", "kind": "signals", "signal_scale": q(rng.choice([1, 2, Fraction(1, 2)])),
                       **{k: v for k, v in c.items() if k not in ("tag", "kind", "scheme", "args", "signal_scale")}}
        # the util functions on arrays in other layouts / dtypes
        for _ in range(40 if quick else 300):
            n = rng.randint(2, 6)
            fn = rng.choice(["constant", "weighted", "constant_zeroth", "brightness_zeroth", "pixel_splitted",
                             "reg_split_from"])
            c = {"tag": f"layout_util_{fn}", "kind": "util", "fn": fn, "n": n}
            if fn in ("reg_split_from", "pixel_splitted"):
                c["split"] = self._mock_split(rng, n, width=rng.choice([3, 4, 5]))
                c["weights"] = qlist([self._coef(rng) for _ in range(n)])
                # reg_split_from edits its arguments in place: writable layouts only
                c["lay"] = {key: rng.choice(["F", "T", "strided", "rev", "offset"])
                            for key in rng.sample(["mappings", "sizes", "weights", "reg_weights"], 2)}
            else:
                nb, sizes = self._mock_graph(rng, n, symmetric=rng.random() < 0.5, multi=True)
                c.update({"neighbors": nb, "sizes": sizes, "coefficient": q(self._coef(rng)),
                          "coefficient_zeroth": q(self._coef(rng)),
                          "weights": qlist([gen.dyadic(rng, -3, 3, 3) for _ in range(n)])})
                c["lay"] = {key: rng.choice(self.LAYOUTS + (["int32", "int16"] if key != "weights" else []))
                            for key in rng.sample(["neighbors", "sizes", "weights"], 2)}
            yield c

    def _gen_opts(self, rng, quick):
        """R5-F: constructor / settings options (introspected) crossed pairwise, set-but-falsy values included"""
        import inspect

        aa = load_autoarray()
        # (a) the schemes' own constructor arguments, pairwise, each over a value set with falsy members
        vals = ["0", "0", "1/1048576", "3", "1048576"]
        for name in RATIONAL_SCHEMES + SPLIT_SCHEMES:
            params = [p for p in inspect.signature(getattr(aa.reg, name).__init__).parameters if p != "self"]
            order = {"Constant": ["coefficient"], "Zeroth": ["coefficient"], "ConstantSplit": ["coefficient"],
                     "ConstantZeroth": ["coefficient_neighbor", "coefficient_zeroth"],
                     "BrightnessZeroth": ["coefficient", "signal_scale"],
                     "AdaptiveBrightness": ["inner_coefficient", "outer_coefficient", "signal_scale"],
                     "AdaptiveBrightnessSplit": ["inner_coefficient", "outer_coefficient", "signal_scale"]}[name]
            if sorted(params) != sorted(order):
                # the constructor gained / lost an argument: every argument the harness does not know keeps its
                # default (reported through the ordinary cases); the known ones are still crossed
                order = [p for p in order if p in params]
            combos = []
            for i in range(len(order)):
                for j in range(i + 1, len(order)):
                    for a in vals:
                        for b in vals:
                            combos.append({order[i]: a, order[j]: b})
            if len(order) == 1:
                combos = [{order[0]: a} for a in vals]
            rng.shuffle(combos)
            for kw in combos[:(6 if quick else 40)]:
                full = {p: kw.get(p, "1") for p in order}
                ss = full.pop("signal_scale", None)
                if ss is not None and Fraction(ss) > 4:
                    ss = "2"
                if ss is not None and 0 < Fraction(ss) < 1:
                    ss = "1/2"
                n = rng.randint(2, 6)
                yield {"tag": f"opts_{name}", "kind": "scheme", "source": "mock", "scheme": name,
                       "args": [full[p] for p in order if p != "signal_scale"], "signal_scale": ss,
                       "arg_type": rng.choice(["float", "float", "int", "bool", "np64"]),
                       "mock": self._mock_obj(rng, n, True, name in SPLIT_SCHEMES), "symmetric": True, "decade": 1}
        # (b) SettingsInversion x SettingsInversion, SettingsInversion x Preloads slots: none may change the matrices
        sig = inspect.signature(aa.SettingsInversion.__init__).parameters
        sopts = []
        for pname, prm in sig.items():
            if pname == "self":
                continue
            d = prm.default
            if isinstance(d, bool):
                alts = [not d]
            elif d is None:
                alts = [True, False, 0, 0.0] if "use_" in pname or "positive" in pname else [0, 0.0, 1, 0.5]
            elif isinstance(d, (int, float)):
                alts = [0, type(d)(d * 2 + 1)]
            else:
                continue
            sopts.append((pname, alts))
        psig = [p for p in inspect.signature(aa.Preloads.__init__).parameters if p != "self"]
        pairs = []
        for i in range(len(sopts)):
            for j in range(i + 1, len(sopts)):
                pairs.append(("ss", sopts[i], sopts[j]))
            for slot in psig:
                pairs.append(("sp", sopts[i], slot))
        for i in range(len(psig)):
            for j in range(i + 1, len(psig)):
                pairs.append(("pp", psig[i], psig[j]))
        rng.shuffle(pairs)
        for kind, a, b in pairs[:(90 if quick else 600)]:
            settings, slots = {}, []
            if kind == "ss":
                settings = {a[0]: rng.choice(a[1]), b[0]: rng.choice(b[1])}
            elif kind == "sp":
                settings = {a[0]: rng.choice(a[1])}
                slots = [b]
            else:
                slots = [a, b]
            objs = []
            for _ in range(rng.randint(1, 3)):
                if rng.random() < 0.3:
                    objs.append({"type": "linear_obj", "params": rng.randint(1, 3)})
                else:
                    n = rng.randint(1, 4)
                    name = rng.choice(RATIONAL_SCHEMES + SPLIT_SCHEMES)
                    args, ss = self._scheme_args(rng, name)
                    objs.append({"type": "mapper", "params": n, "scheme": name, "args": args, "signal_scale": ss,
                                 "mock": self._mock_obj(rng, n, True, name in SPLIT_SCHEMES)})
            yield {"tag": f"opts_inversion_{kind}", "kind": "inversion", "objs": objs,
                   "preload": "correct" if "regularization_matrix" in slots else "absent",
                   "settings": {k: (v if not isinstance(v, float) else q(v)) for k, v in settings.items()},
                   "settings_float": [k for k, v in settings.items() if isinstance(v, float)],
                   "slots": slots, "reassign": rng.random() < 0.3}

    def _small_world(self, rng, kinds=("mock", "rect", "delaunay")):
        src = rng.choice(kinds)
        if src == "mock":
            n = rng.randint(2, 6)
            mock = self._mock_obj(rng, n, symmetric=True)
            mock.pop("int_inputs", None)
            return {"source": "mock", "mock": mock}
        frame = self._data_frame(rng)
        if sum(1 for b in frame["mask"]["bits"] if b == "0") < 3:
            frame = self._data_frame(rng)
        frame["adapt"] = [a if Fraction(a) > 0 else "1" for a in frame["adapt"]]
        w = {"source": src, "route": rng.choice(["direct", "direct", "mesh"]), **frame}
        if src == "rect":
            w["mesh_shape"] = [rng.randint(3, 4), rng.randint(3, 4)]
        else:
            w["points"] = self._delaunay_points(rng, rng.randint(4, 7))
            w["container"] = rng.choice(["ndarray", "list", "irregular"])
        return w

    @staticmethod
    def _world_points(w):
        if w["source"] == "mock":
            return [[fl(a), fl(b)] for a, b in w["mock"]["points"]]
        if w["source"] == "delaunay":
            return [[fl(a), fl(b)] for a, b in w["points"]]
        return None

    @staticmethod
    def _compatible(w, name):
        if name in SPLIT_SCHEMES:
            return w["source"] == "delaunay"
        if name in KERNEL_SCHEMES:
            return w["source"] in ("mock", "delaunay")
        return True

    def _pool(self, rng, worlds, size):
        """scheme specifications whose coefficients are drawn from two values, so that sibling schemes share them"""
        c, z = q(self._coef(rng)), q(self._coef(rng))
        ss = q(rng.choice([1, 2, 3, Fraction(1, 2)]))
        cands = [("ConstantZeroth", [c, z], None), ("Constant", [c], None), ("AdaptiveBrightness", [c, z], ss),
                 ("Zeroth", [c], None), ("BrightnessZeroth", [c], ss), ("Constant", [z], None),
                 ("ConstantZeroth", [z, c], None)]
        if any(w["source"] == "delaunay" for w in worlds):
            cands += [("ConstantSplit", [c], None), ("AdaptiveBrightnessSplit", [c, z], ss)]
        pts = next((self._world_points(w) for w in worlds if self._world_points(w)), None)
        if pts and len(pts) > 1:
            P = np.array(pts)
            d = np.sqrt(((P[:, None, :] - P[None, :, :]) ** 2).sum(-1))
            dmin = d[d > 0].min() if (d > 0).any() else 1.0
            m, e = math.frexp(float(rng.choice([0.5, 0.75, 1.0])) * dmin)
            sc = q(math.ldexp(round(m * 1024), e - 10))
            cands += [("GaussianKernel", [c, sc], None), ("ExponentialKernel", [z, sc], None)]
        pool = [{"scheme": n_, "args": list(a), "signal_scale": s_, "arg_type": "float"}
                for n_, a, s_ in rng.sample(cands, min(size, len(cands)))]
        for sp in pool:
            if sp["scheme"] in KERNEL_SCHEMES:
                sp["scale_abs"] = True
        return pool

    def _twin(self, rng, sp, k):
        """a near-duplicate of a pool entry: one coefficient (or the signal scale) differs by 2e-7 .. 8e-6 relative"""
        t = copy.deepcopy(sp)
        d = Fraction(rng.randint(2, 80), 10 ** 7)
        if t.get("signal_scale") is not None and rng.random() < 0.3:
            t["signal_scale"] = q(float(Fraction(t["signal_scale"]) * (1 + d)))
        else:
            i = rng.randrange(len(t["args"]))
            t["args"][i] = q(float(Fraction(t["args"][i]) * (1 + rng.choice([-1, 1]) * d)))
        t["twin_of"] = k
        return t

    def _ev(self, rng, worlds, pool, k=None, i=None, **kw):
        """one eval step of a compatible (world, pool entry) pair"""
        for _ in range(50):
            kk = rng.randrange(len(worlds)) if k is None else k
            ii = rng.randrange(len(pool)) if i is None else i
            if self._compatible(worlds[kk], pool[ii]["scheme"]):
                break
        else:
            return None
        vias = ["from", "from", "obj", "mock_inv"] + (["real_inv"] if worlds[kk]["source"] != "mock" else [])
        st = {"op": "eval", "world": kk, "spec": ii, "via": rng.choice(vias), "inst": rng.choice(["pool", "pool", "fresh"]),
              "weights_first": rng.random() < 0.4, "reduced_first": rng.random() < 0.5,
              "extra_first": rng.random() < 0.5, "extra": rng.randint(1, 2)}
        st.update(kw)
        return st

    def _gen_reuse(self, rng, quick):
        """reuse histories (round 4, re-implemented; R5-D configuration flips as one more kind of step: nothing the
        anchored code of C07 reads comes from the configuration, so no value may change a matrix.
        `structures.native_binned_only` is not flipped: it switches the data structures to another storage mode
        (autocti) in which an over-sampled grid cannot be built at all)"""
        conf_flips = [("inversion", "use_positive_only_solver", False), ("inversion", "check_reconstruction", False),
                      ("inversion", "positive_only_uses_p_initial", False),
                      ("inversion", "no_regularization_add_to_curvature_diag_value", "1/2"),
                      ("numba", "use_numba", False),
                      ("fits", "flip_for_ds9", True)]
        for _ in range(26 if quick else 220):
            worlds = [self._small_world(rng)]
            r = rng.random()
            if r < 0.3:
                worlds.append(self._small_world(rng))
            elif r < 0.55 and worlds[0]["source"] != "mock":
                # a second mapper on the same mesh object (same geometry), with another adapt image
                w2 = copy.deepcopy(worlds[0])
                w2["adapt"] = [q(gen.pos_dyadic(rng, 1, 8, 2)) for _ in w2["adapt"]]
                w2.pop("int_inputs", None)
                w2["share_mesh_with"] = 0
                worlds.append(w2)
            pool = self._pool(rng, worlds, rng.randint(2, 4))
            if rng.random() < 0.5:
                pool.append(self._twin(rng, pool[0], 0))
            if rng.random() < 0.3:
                k0 = rng.randrange(len(pool))
                cp = copy.deepcopy(pool[k0])
                cp.pop("twin_of", None)
                i = rng.randrange(len(cp["args"]) - (1 if cp["scheme"] in KERNEL_SCHEMES else 0))
                cp["args"][i] = q(float(Fraction(cp["args"][i]) + Fraction(1, 2)))  # (an exact double)
                cp.update({"copy_of": k0, "deep": rng.random() < 0.5})
                pool.append(cp)
            steps = []
            for _ in range(rng.randint(3, 4)):
                steps.append(self._ev(rng, worlds, pool))
            for _ in range(rng.randint(1, 2)):
                kind = rng.choice(["edit_adapt", "edit_adapt", "edit_attr", "edit_attr", "fault", "decoy", "copy_obj",
                                   "scribble", "config", "config", "config"])
                k = rng.randrange(len(worlds))
                if kind == "edit_adapt":
                    w = worlds[k]
                    nn = w["mock"]["params"] if w["source"] == "mock" else len(w["adapt"])
                    val = q(Fraction(rng.randint(1, 15), 16)) if w["source"] == "mock" else q(rng.randint(1, 9))
                    steps.append({"op": "edit_adapt", "world": k, "index": rng.randrange(nn), "value": val})
                elif kind == "edit_attr":
                    i = rng.randrange(len(pool))
                    sp = pool[i]
                    if sp.get("signal_scale") is not None and rng.random() < 0.4:
                        steps.append({"op": "edit_attr", "spec": i, "attr": "signal_scale",
                                      "value": q(rng.choice([1, 2, 3, Fraction(3, 2)]))})
                    else:
                        j = rng.randrange(len(sp["args"]) - (1 if sp["scheme"] in KERNEL_SCHEMES else 0))
                        steps.append({"op": "edit_attr", "spec": i, "attr": j, "value": q(self._coef(rng))})
                elif kind == "config":
                    sec, key, val = rng.choice(conf_flips)
                    steps.append({"op": "config", "section": sec, "key": key, "value": val, "float": isinstance(val, str)})
                elif kind in ("decoy", "copy_obj"):
                    steps.append({"op": kind, "world": k})
                else:
                    steps.append({"op": kind})
                if kind == "fault":
                    # afterwards every instance and every world changes state, and all are read again
                    for i, sp in enumerate(pool):
                        if sp.get("copy_of") is None and sp["scheme"] not in KERNEL_SCHEMES:
                            steps.append({"op": "edit_attr", "spec": i, "attr": 0, "value": q(self._coef(rng))})
                if kind == "config":
                    # the value in force changed between calls: every scheme is read again, through the inversion too
                    for i in range(len(pool)):
                        steps.append(self._ev(rng, worlds, pool, i=i, **({"via": "mock_inv"} if i % 2 == 0 else {})))
                else:
                    for _ in range(rng.randint(2, 3)):
                        steps.append(self._ev(rng, worlds, pool))
            steps = [st for st in steps if st]
            # the specification the reads are judged by follows the edits: apply them to the pool copies here? no —
            # run_impl replays the steps on its own copies; the case stores the INITIAL specification
            yield {"tag": f"reuse_{'_'.join(w['source'] for w in worlds)}", "kind": "reuse", "worlds": worlds,
                   "pool": pool, "steps": steps}

    def _gen_own(self, rng, quick):
        """R5-B ownership histories: observe -> (sibling call) -> re-read the arrays handed out -> scribble over
        everything returned or accepted -> rebuild the same worlds from fresh equal inputs -> observe; three rounds"""
        for _ in range(16 if quick else 130):
            w0 = self._small_world(rng)
            worlds = [w0]
            if rng.random() < 0.6:
                # a same-key neighbour: same shapes / sizes, other values (a memo keyed on shape alone confuses them)
                w1 = copy.deepcopy(w0)
                if w1["source"] == "mock":
                    n = w1["mock"]["params"]
                    sig = [Fraction(rng.randint(0, 16), 16) for _ in range(n)]
                    sig[rng.randrange(n)] = Fraction(1)
                    w1["mock"]["signals"] = qlist(sig)
                    nb, sizes = self._mock_graph(rng, n, True, False)
                    w1["mock"]["neighbors"], w1["mock"]["sizes"] = nb, sizes
                else:
                    w1["adapt"] = [q(gen.pos_dyadic(rng, 1, 8, 2)) for _ in w1["adapt"]]
                    w1.pop("int_inputs", None)
                    sy, sx = gen.scales_pair(rng)
                    w1["scales"] = [q(sy), q(sx)]
                worlds.append(w1)
            pool = self._pool(rng, worlds, rng.randint(2, 3))
            steps = []
            for rnd in range(3):
                evs = []
                for k in range(len(worlds)):
                    for i in rng.sample(range(len(pool)), min(2, len(pool))):
                        st = self._ev(rng, worlds, pool, k=k, i=i, hold=True, inst="fresh" if rng.random() < 0.7 else "pool")
                        if st:
                            evs.append(st)
                rng.shuffle(evs)
                steps += evs[:3]
                steps.append({"op": "recheck"})
                steps.append({"op": "scribble_all"})
            st = self._ev(rng, worlds, pool)
            if st:
                steps.append(st)
            yield {"tag": f"own_{'_'.join(w['source'] for w in worlds)}", "kind": "own", "worlds": worlds,
                   "pool": pool, "steps": steps}

    @staticmethod
    def _factor_near(t, side, thin):
        """(h, w), h != w, both >= 3, with h*w the factorable number nearest to t on the given side"""
        for d in range(0, 400):
            tt = t + side * d
            if tt < 12:
                continue
            fs = [(h, tt // h) for h in range(3, math.isqrt(tt) + 1) if tt % h == 0 and tt // h != h]
            if fs:
                return fs[0] if thin else fs[-1]
        return (3, max(4, t // 3))

    def _large_scheme_case(self, rng, t, recipe, name, hint=None, side=1):
        args, ss = self._scheme_args(rng, name)
        frame = self._data_frame(rng)
        frame.pop("int_inputs", None)
        if name in SIGNAL_SCHEMES:
            frame["adapt"] = [a if Fraction(a) > 0 else "2" for a in frame["adapt"]]
        c = {"kind": "large", "recipe": recipe, "source": recipe, "hint": hint, "scheme": name, "args": args,
             "signal_scale": ss, "seed": rng.randrange(10 ** 6), "dir": side,
             "arg_type": rng.choice(["float", "float", "int", "np64"]), "t": t, "weights_first": rng.random() < 0.5}
        if name in KERNEL_SCHEMES:
            c["arg_type"] = "float"
            c["args"] = [args[0], q(rng.choice([Fraction(1, 2), 1, Fraction(3, 2), 2, 3]))]
        if recipe == "rect":
            h, w = self._factor_near(t, side, rng.random() < 0.5)
            if rng.random() < 0.5:
                h, w = w, h
            c.update({"mesh_shape": [h, w], "t": h * w, "route": rng.choice(["direct", "mesh"]), **frame})
        elif recipe == "delaunay":
            c.update({"route": rng.choice(["direct", "mesh"]), "container": rng.choice(["ndarray", "list", "irregular"]),
                      **frame})
        else:
            c["graph"] = "star" if rng.random() < 0.12 and name not in SPLIT_SCHEMES else "ring"
        c["tag"] = f"large_{recipe}_{name}"
        return c

    def _large_kernel_lattice(self, rng, n_lo, n_hi):
        name = rng.choice(["GaussianKernel", "GaussianKernel", "ExponentialKernel"])
        lh = rng.randint(6, 20)
        lw = max(6, min(24, rng.randint(n_lo, n_hi) // lh))
        ratio = rng.choice([1, Fraction(3, 2), 2, 2, 3] if name == "GaussianKernel" else [1, 2, 3, 5])
        return {"kind": "large", "recipe": "mock", "source": "mock", "hint": None, "scheme": name,
                "args": [q(self._coef(rng)), q(ratio)], "signal_scale": None, "seed": rng.randrange(10 ** 6),
                "arg_type": "float", "t": lh * lw, "graph": "ring",
                "lattice": [lh, lw, q(Fraction(2) ** rng.randint(-3, 2)), q(rng.choice([1, 1, Fraction(3, 4), Fraction(3, 2)]))],
                "offset": [q(gen.dyadic(rng, -9, 9, 3)), q(gen.dyadic(rng, -9, 9, 3))],
                "tag": f"large_lattice_{name}"}

    def _large_neighbors_case(self, rng, h, w, hint=None):
        return {"kind": "large", "recipe": "neighbors", "shape": [h, w], "hint": hint, "through_mesh": h >= 3 and w >= 3,
                "tag": "large_neighbors"}

    def _large_signals_case(self, rng, t, hint=None, sub=1):
        fw = rng.randint(max(3, math.isqrt(t) - 20), math.isqrt(t) + 20)
        fh = -(-t // fw) + rng.randint(0, 2)
        rect = rng.random() < 0.6
        sy, sx = gen.scales_pair(rng)
        oy, ox = gen.origin_pair(rng)
        c = {"kind": "large", "recipe": "signals", "source": "rect" if rect else "delaunay", "frame": [fh, fw], "t": t,
             "hint": hint, "sub": sub, "seed": rng.randrange(10 ** 6), "scales": [q(sy), q(sx)], "origin": [q(oy), q(ox)],
             "signal_scale": q(rng.choice([1, 2, Fraction(1, 2)])), "tag": "large_signals"}
        if rect:
            c["mesh_shape"] = [rng.randint(3, 6), rng.randint(3, 6)]
        else:
            c["vertices"] = rng.randint(5, 12)
        return c

    def _large_inversion_case(self, rng, sizes, hint=None):
        return {"kind": "large", "recipe": "inversion", "sizes": sizes, "seed": rng.randrange(10 ** 6), "hint": hint,
                "reduced_first": rng.random() < 0.5, "tag": "large_inversion"}

    def _gen_large_always(self, rng, quick):
        """R5-E: mid / large sizes in every run (no size hint needed)"""
        nonkernel = RATIONAL_SCHEMES + SPLIT_SCHEMES
        for _ in range(2 if quick else 10):
            recipe = rng.choice(["rect", "delaunay", "mock"])
            names = [x for x in nonkernel if not (x in SPLIT_SCHEMES and recipe == "rect")]
            t = rng.randint(260, 900) if quick else rng.choice([rng.randint(260, 900), rng.randint(900, 2100)])
            yield self._large_scheme_case(rng, t, recipe, rng.choice(names))
        # kernel schemes on dense meshes many kernel lengths across (scale 1 .. 5 mesh spacings)
        for _ in range(2 if quick else 8):
            yield self._large_kernel_lattice(rng, 100, 330 if quick else 440)
        c = self._large_scheme_case(rng, rng.randint(100, 300), "rect", "GaussianKernel")
        yield c
        # index tables beyond 2^15 (quick) and 2^16 (thorough) pixels / sub-pixels
        h = rng.randint(150, 200)
        yield self._large_neighbors_case(rng, h, (2 ** 15) // h + rng.randint(1, 9))
        yield self._large_signals_case(rng, 2 ** 15 + rng.randint(1, 300))
        if not quick:
            h = rng.randint(200, 300)
            yield self._large_neighbors_case(rng, h, (2 ** 16) // h + rng.randint(1, 9))
            yield self._large_neighbors_case(rng, 3, 2 ** 15 + rng.randint(1, 99))
            yield self._large_signals_case(rng, 2 ** 16 + rng.randint(1, 300))
            yield self._large_signals_case(rng, 2 ** 14 + rng.randint(1, 300), sub=2)
        for _ in range(1 if quick else 4):
            k = rng.randint(150, 400)
            yield self._large_inversion_case(rng, [rng.randint(1, 3) for _ in range(k)])

    def generate_large(self, hints, rng):
        """constant-directed cases (DESIGN §13): sizes on both sides of every new integer constant, in every size
        dimension of the property"""
        nonkernel = RATIONAL_SCHEMES + SPLIT_SCHEMES
        for c in hints:
            if c < 8:
                continue
            for rank, (t, side) in enumerate([(c + c // 3 + 1, 1), (c, -1), (c + 1, 1), (c - 1, -1), (2 * c + 1, 1)]):
                if t < 4:
                    continue
                full = rank < 3
                if t <= self.LARGE_DENSE_MAX:
                    for recipe in ("rect", "delaunay", "mock"):
                        names = [x for x in nonkernel if not (x in SPLIT_SCHEMES and recipe == "rect")]
                        if not full:
                            names = rng.sample(names, 2)
                        for name in names:
                            yield self._large_scheme_case(rng, t, recipe, name, hint=c, side=side)
                    # neighbours of ONE pixel: a star whose hub has t - 1 neighbours
                    if t <= 2500:
                        s_ = self._large_scheme_case(rng, t, "mock", rng.choice(RATIONAL_SCHEMES), hint=c, side=side)
                        s_["graph"] = "star"
                        yield s_
                    # total parameters / number of objects / unregularized indexes of an inversion
                    yield self._large_inversion_case(rng, [1] * t, hint=c)
                    sizes = []
                    while sum(sizes) < t:
                        sizes.append(rng.randint(1, 3))
                    yield self._large_inversion_case(rng, sizes, hint=c)
                    big = [t - 3, 1, 2] if t > 6 else [t]
                    rng.shuffle(big)
                    yield self._large_inversion_case(rng, big, hint=c)
                    nobj = [1] * max(1, t // 2 - 1)
                    yield self._large_inversion_case(rng, [rng.randint(1, 3) for _ in nobj] if t <= 2000 else nobj, hint=c)
                if t <= self.LARGE_KERNEL_MAX:
                    for name in KERNEL_SCHEMES:
                        for recipe in ("rect", "mock"):
                            yield self._large_scheme_case(rng, t, recipe, name, hint=c, side=side)
                if 3 * t <= 400000:
                    for h, w in [(3, t), (t, 4), (t, 3), self._factor_near(t, side, False), self._factor_near(t, side, True)]:
                        if h * w <= 400000:
                            yield self._large_neighbors_case(rng, h, w, hint=c)
                if t <= 70000:
                    yield self._large_signals_case(rng, t, hint=c)
                    if full:
                        yield self._large_signals_case(rng, max(4, t // 4), hint=c, sub=2)
                    # t mesh pixels / vertices under a small frame, a signal scheme reading them
                    if t <= self.LARGE_DENSE_MAX:
                        yield self._large_scheme_case(rng, t, "rect", "AdaptiveBrightness", hint=c, side=side)
                        yield self._large_scheme_case(rng, t, "delaunay", "BrightnessZeroth", hint=c, side=side)

    # ------------------------------------------------------------------ generation
    def generate(self, tier, rng):
        quick = tier == "quick"
        # 0. rectangular_neighbors_from / Mesh2DRectangular.neighbors on every shape (exhaustive, seed-independent);
        #    shapes with a side of 2 go through the util function only (aa.mesh.Rectangular wants >= 3)
        top = 10 if quick else 18
        for mh in range(2, top + 1):
            for mw in range(2, top + 1):
                yield {"tag": "rect_neighbors", "kind": "rect_neighbors", "shape": [mh, mw]}
        # 1. every rectangular mesh shape x the 7 schemes a rectangular mapper supports (exhaustive in shape)
        hi = 6 if quick else 9
        for mh in range(3, hi + 1):
            for mw in range(3, hi + 1):
                frame = self._data_frame(rng)
                for name in RATIONAL_SCHEMES + KERNEL_SCHEMES:
                    if name in KERNEL_SCHEMES and mh * mw > (25 if quick else 49):
                        continue
                    args, ss = self._scheme_args(rng, name)
                    yield self._harden(rng, {"tag": f"rect_{name}", "kind": "scheme", "source": "rect", "scheme": name,
                                             "args": args, "signal_scale": ss, "mesh_shape": [mh, mw], **frame},
                                       kernel=name in KERNEL_SCHEMES)
        # 2. Delaunay vertex sets x all nine schemes
        for _ in range(30 if quick else 200):
            n = rng.randint(4, 9 if quick else 16)
            integral = rng.random() < 0.25
            pts = self._delaunay_points(rng, n, integral=integral)
            frame = self._data_frame(rng, big=True)
            if integral:
                frame["int_inputs"] = True
            for name in ALL_SCHEMES:
                args, ss = self._scheme_args(rng, name)
                yield self._harden(rng, {"tag": f"delaunay{'_int' if integral else ''}_{name}", "kind": "scheme",
                                         "source": "delaunay", "scheme": name, "args": args, "signal_scale": ss,
                                         "points": pts, **frame}, kernel=name in KERNEL_SCHEMES)
        # 3. mock linear objects: dyadic tables (exact comparison), odd graphs, split tables
        for _ in range(160 if quick else 1200):
            n = rng.randint(1, 8)
            r = rng.random()
            sym = r < 0.7
            name = rng.choice(RATIONAL_SCHEMES + SPLIT_SCHEMES + (["ExponentialKernel"] if n > 1 else []))
            mock = self._mock_obj(rng, n, symmetric=sym, with_split=name in SPLIT_SCHEMES, multi=rng.random() < 0.3)
            args, ss = self._scheme_args(rng, name)
            yield self._harden(rng, {"tag": f"mock_{'sym' if sym else 'asym'}_{name}", "kind": "scheme",
                                     "source": "mock", "scheme": name, "args": args, "signal_scale": ss,
                                     "mock": mock, "symmetric": sym}, kernel=name in KERNEL_SCHEMES)
        # 4. the util functions called directly (incl. reg_split_from exception / stale-j paths, signals)
        for _ in range(100 if quick else 800):
            n = rng.randint(1, 6)
            fn = rng.choice(["reg_split_from", "reg_split_from", "pixel_splitted", "constant", "weighted",
                             "constant_zeroth", "zeroth", "brightness_zeroth"])
            c = {"tag": f"util_{fn}", "kind": "util", "fn": fn, "n": n}
            if fn in ("reg_split_from", "pixel_splitted"):
                width = rng.choice([2, 3, 4, 4, 5])
                c["split"] = self._mock_split(rng, n, width=width, allow_exception=fn == "reg_split_from",
                                              allow_empty=fn == "reg_split_from" and rng.random() < 0.4)
                c["weights"] = qlist([self._coef(rng) for _ in range(n)])
            else:
                nb, sizes = self._mock_graph(rng, n, symmetric=rng.random() < 0.5, multi=True)
                c["neighbors"], c["sizes"] = nb, sizes
                c["coefficient"] = q(self._coef(rng))
                c["coefficient_zeroth"] = q(self._coef(rng))
                c["weights"] = qlist([gen.dyadic(rng, -3, 3, 3) for _ in range(n)])  # signed: squares anyway
                r = rng.random()
                if r < 0.2:   # integer dtype arrays / integer coefficient (0 included)
                    c["weights"] = qlist([rng.randint(-3, 3) for _ in range(n)])
                    c["coefficient"] = q(rng.randint(0, 3))
                    c["coefficient_zeroth"] = q(rng.randint(0, 3))
                    c["dtype"] = "int"
                elif r < 0.35:
                    c["dtype"] = "float32"
            yield c
        # 5. pixel signals: real mappers (integer scale -> exact model) and direct util calls
        for _ in range(24 if quick else 200):
            frame = self._data_frame(rng, big=True)
            scale = rng.choice([1, 1, 2, 3, 0, Fraction(1, 2), Fraction(3, 2)])
            if rng.random() < 0.5:
                yield {"tag": "signals_rect", "kind": "signals", "source": "rect",
                       "mesh_shape": [rng.randint(3, 5), rng.randint(3, 5)], "signal_scale": q(scale), **frame}
            else:
                integral = rng.random() < 0.3
                if integral:
                    frame["int_inputs"] = True
                yield {"tag": "signals_delaunay" + ("_int" if integral else ""), "kind": "signals",
                       "source": "delaunay", "points": self._delaunay_points(rng, rng.randint(4, 9), integral),
                       "signal_scale": q(scale), "container": rng.choice(["ndarray", "list", "irregular"]),
                       "route": rng.choice(["direct", "direct", "mesh"]), **frame}
        # 7. histories on ONE linear object: read the block, copy.copy / re-assign `regularization`
        #    (another scheme, another coefficient, None), read again — the block must be the CURRENT scheme's
        hist_schemes = ["Constant", "Constant", "AdaptiveBrightness", "ConstantZeroth", "Zeroth",
                        "BrightnessZeroth", None, None]
        for _ in range(50 if quick else 400):
            # a small pool of scheme specifications per case: steps draw from it, so the same scheme
            # *instance* recurs (on copies of the object, and on the second object)
            pool = []
            for name in rng.sample(hist_schemes[:6], 2) + [rng.choice(hist_schemes)]:
                if name is None:
                    pool.append({"scheme": None, "args": [], "signal_scale": None})
                else:
                    args, ss = self._scheme_args(rng, name)
                    pool.append({"scheme": name, "args": args, "signal_scale": ss})
            steps = []
            for k in range(rng.randint(2, 5)):
                sp = dict(rng.choice(pool))
                if k > 0 and sp["scheme"] is None and steps[-1]["scheme"] is None:
                    sp = dict(pool[0])
                sp["copy"] = rng.random() < 0.6
                steps.append(sp)
            for sp in pool:
                if sp["scheme"] is not None and rng.random() < 0.3:
                    sp["arg_type"] = rng.choice(["int", "np32", "np64"])
            for st in steps:
                for sp in pool:
                    if sp["scheme"] == st["scheme"] and sp["args"] == st["args"] and "arg_type" in sp:
                        st["arg_type"] = sp["arg_type"]
            c = {"kind": "history", "steps": steps, "extra": rng.randint(1, 2), "extra_first": rng.random() < 0.5}
            if rng.random() < 0.6:
                n = rng.randint(2, 6)
                c.update({"tag": "history_mock", "source": "mock", "mock": self._mock_obj(rng, n, True, False)})
                if rng.random() < 0.5:
                    # a second, different linear object: the same scheme *instances* are re-used across both
                    c["tag"] = "history_mock_two_objects"
                    c["mock2"] = self._mock_obj(rng, rng.randint(2, 6), True, False)
                    for st in steps:
                        st["obj"] = rng.randint(0, 1)
                    # one object-dependent scheme instance is used on one object and later on the other
                    name = rng.choice(["AdaptiveBrightness", "AdaptiveBrightness", "BrightnessZeroth", "Constant",
                                       "ConstantZeroth"])
                    args, ss = self._scheme_args(rng, name)
                    a = rng.randint(0, 1)
                    first = {"scheme": name, "args": args, "signal_scale": ss, "copy": False, "obj": a}
                    second = {"scheme": name, "args": args, "signal_scale": ss, "copy": rng.random() < 0.5, "obj": 1 - a}
                    pos = rng.randint(0, len(steps))
                    steps[:] = [first] + steps[:pos] + [second] + steps[pos:]
            else:
                c.update({"tag": "history_rect", "source": "rect",
                          "mesh_shape": [rng.randint(3, 4), rng.randint(3, 4)], **self._data_frame(rng)})
            yield c
        # 6. block-diagonal assembly over linear objects
        for _ in range(80 if quick else 600):
            k = rng.randint(1, 4)
            objs = []
            for _ in range(k):
                r = rng.random()
                if r < 0.35:
                    objs.append({"type": "linear_obj", "params": rng.randint(1, 3)})
                else:
                    n = rng.randint(1, 4)
                    name = rng.choice(RATIONAL_SCHEMES + SPLIT_SCHEMES)
                    args, ss = self._scheme_args(rng, name)
                    objs.append(self._harden(rng, {"type": "mapper", "params": n, "scheme": name, "args": args,
                                                   "signal_scale": ss,
                                                   "mock": self._mock_obj(rng, n, True, name in SPLIT_SCHEMES)}))
            # Preloads(regularization_matrix=...): absent / explicit None / the matrix a fresh equal inversion computes
            pre = rng.choice(["absent", "none", "correct", "correct"])
            yield {"tag": f"blocks_{k}_preload_{pre}", "kind": "inversion", "objs": objs, "preload": pre}
        # 7. (round 7) several linear objects sharing ONE regularization INSTANCE while their meshes differ: each block
        #    must still be the matrix of its own object (a memo keyed by the regularization instance hands every later
        #    object the first one's block).  Own rng, so the streams below keep their random sequence.
        rs = random.Random(repr(rng.getstate()[1][:8]))
        for _ in range(14 if quick else 120):
            k = rs.randint(2, 4)
            name = rs.choice(RATIONAL_SCHEMES + SPLIT_SCHEMES)
            args, ss = self._scheme_args(rs, name)
            objs = []
            sizes = rs.sample([1, 2, 3, 4, 5], k)  # pairwise different sizes: a foreign block cannot even fit
            for j in range(k):
                if j and rs.random() < 0.25:
                    objs.append({"type": "linear_obj", "params": rs.randint(1, 3)})
                objs.append({"type": "mapper", "params": sizes[j], "scheme": name, "args": args, "signal_scale": ss,
                             "mock": self._mock_obj(rs, sizes[j], True, name in SPLIT_SCHEMES)})
            if rs.random() < 0.5:  # same size, different neighbour tables / signals: the foreign block fits silently
                n = rs.randint(3, 5)
                for o in objs:
                    if o["type"] == "mapper":
                        o["params"] = n
                        o["mock"] = self._mock_obj(rs, n, True, name in SPLIT_SCHEMES)
            yield {"tag": f"blocks_shared_reg_{name}", "kind": "inversion", "objs": objs, "preload": "absent",
                   "share_reg": True}
        # 8. round 5/6 streams (design note § "Round 5/6 hardening")
        yield from self._gen_decades(rng, quick)
        yield from self._gen_near(rng, quick)
        yield from self._gen_layout(rng, quick)
        yield from self._gen_opts(rng, quick)
        yield from self._gen_reuse(rng, quick)
        yield from self._gen_own(rng, quick)
        yield from self._gen_large_always(rng, quick)

    # ------------------------------------------------------------------ implementation
    def run_impl(self, case):
        aa = load_autoarray()
        kind = case["kind"]
        if kind == "scheme":
            return self._impl_scheme(aa, case)
        if kind == "util":
            return self._impl_util(aa, case)
        if kind == "signals":
            return self._impl_signals(aa, case)
        if kind == "rect_neighbors":
            return self._impl_rect_neighbors(aa, case)
        if kind == "history":
            return self._impl_history(aa, case)
        if kind in READS_KINDS:
            try:
                return self._impl_reads(aa, case)
            except Exception as e:  # Qhull degenerate input (collinear vertices …): not a regularization matter
                if "Qhull" in type(e).__name__ or "qhull" in str(e).lower():
                    raise Skip("qhull")
                raise
        if kind == "large":
            return self._impl_large(aa, case)
        return self._impl_inversion(aa, case)

    def _resolve_kernel_scale(self, case, pts):
        """kernel scale = factor x smallest point separation (so the kernel matrix is well conditioned);
        rounded to a dyadic so the model receives the exact same double"""
        if case.get("scale_abs"):
            return fl(case["args"][1])  # the scale itself (histories: fixed when the case is generated)
        factor = fl(case["args"][1])
        P = np.array(pts, dtype=float)
        d = np.sqrt(((P[:, None, :] - P[None, :, :]) ** 2).sum(-1))
        dmin = d[d > 0].min() if (d > 0).any() else 1.0
        s = factor * dmin
        # 10 significant bits, relative to the binade of s (the points may live at any decade)
        m, e = math.frexp(s)
        return math.ldexp(round(m * 1024), e - 10)

    def _impl_scheme(self, aa, case):
        from autoarray import exc

        name = case["scheme"]
        want_split = name in SPLIT_SCHEMES
        closed = None
        if case["source"] == "mock":
            tables = {k: v for k, v in case["mock"].items()}
            mapper_f = lambda: _mock_mapper(aa, case["mock"], lay=case.get("lay"))
        else:
            try:
                mapper = _real_mapper(aa, case)
                tables = _tables_of(mapper, name, case.get("signal_scale") or "1", want_split)
                closed = None
                if name not in KERNEL_SCHEMES:
                    closed = _closed_obj(mapper, case, name, tables, case.get("signal_scale") or "1")
            except Exception as e:  # Qhull degenerate input etc.: not a regularization matter
                if "Qhull" in type(e).__name__ or "qhull" in str(e).lower():
                    raise Skip("qhull")
                raise
            mapper_f = lambda: mapper
        args = list(case["args"])
        if name in KERNEL_SCHEMES:
            pts = [[fl(a), fl(b)] for a, b in tables["points"]]
            args[1] = q(self._resolve_kernel_scale(case, pts))
        reg = _make_scheme(aa, name, args, case.get("signal_scale"), case.get("arg_type", "float"),
                           case.get("defaults", False))
        mp = mapper_f()
        try:
            w = reg.regularization_weights_from(linear_obj=mp)
            H = reg.regularization_matrix_from(linear_obj=mapper_f())
            # the same block through the linear object's own property (scheme attached to the object)
            mo = mapper_f()
            mo.regularization = reg
            H2 = np.asarray(mo.regularization_matrix)
        except exc.MeshException:
            return {"err": "mesh_exception", "inputs": {"tables": tables, "args": args}}
        H = np.asarray(H)
        if H2.shape != H.shape or not np.array_equal(H2, H):
            return {"err": "linear_obj.regularization_matrix differs from regularization_matrix_from(linear_obj)",
                    "inputs": {"tables": tables, "args": args}}
        obs = {"shape": list(H.shape), "weights": qlist(np.asarray(w)), "matrix": qmat(H),
               "inputs": {"tables": tables, "args": args}}
        if closed is not None:
            obs["inputs"]["closed"] = closed
            if "csr" in closed:
                obs["inputs"]["simplices"] = [[int(v) for v in sx]
                                              for sx in mapper.source_plane_mesh_grid.delaunay.simplices]
        if name in KERNEL_SCHEMES:
            from autoarray.inversion.regularization import gaussian_kernel, exponential_kernel

            P = np.array([[fl(a), fl(b)] for a, b in tables["points"]])
            sc = fl(args[1])
            C = (gaussian_kernel.gauss_cov_matrix_from(scale=sc, pixel_points=P) if name == "GaussianKernel"
                 else exponential_kernel.exp_cov_matrix_from(scale=sc, pixel_points=P))
            obs["cov"] = qmat(C)
            obs["inputs"]["cond"] = float(np.linalg.cond(C))
        return obs

    def _impl_util(self, aa, case):
        from autoarray import exc
        from autoarray.inversion.regularization import regularization_util as ru

        fn = case["fn"]
        n = case["n"]
        lay = case.get("lay") or {}
        if fn in ("reg_split_from", "pixel_splitted"):
            m, s, w = _split_arrays(case["split"])
            m, s, w = _lay(m, lay.get("mappings")), _lay(s, lay.get("sizes")), _lay(w, lay.get("weights"))
            try:
                m2, s2, w2 = ru.reg_split_from(splitted_mappings=m, splitted_sizes=s, splitted_weights=w)
            except exc.MeshException:
                return {"err": "mesh_exception"}
            except UnboundLocalError:
                return {"err": "unbound_local"}
            if fn == "reg_split_from":
                return {"mappings": [[int(v) for v in r] for r in m2], "sizes": [int(v) for v in s2],
                        "weights": qmat(w2)}
            rw = _lay(np.array([fl(v) for v in case["weights"]]), lay.get("reg_weights"))
            H = ru.pixel_splitted_regularization_matrix_from(
                regularization_weights=rw, splitted_mappings=m2, splitted_sizes=s2, splitted_weights=w2)
            return {"matrix": qmat(H), "post": {"mappings": [[int(v) for v in r] for r in m2],
                                                "sizes": [int(v) for v in s2], "weights": qmat(w2)}}
        width = max(len(r) for r in case["neighbors"])
        nb = np.array(case["neighbors"], dtype=int).reshape(n, width)
        sizes = np.array(case["sizes"], dtype=int)
        dt = case.get("dtype")
        c = int(Fraction(case["coefficient"])) if dt == "int" else fl(case["coefficient"])
        cz = int(Fraction(case["coefficient_zeroth"])) if dt == "int" else fl(case["coefficient_zeroth"])
        wts = np.array([fl(v) for v in case["weights"]])
        if dt == "int":
            wts = wts.astype(np.int64)
        elif dt == "float32":
            wts = wts.astype(np.float32)  # 3-bit dyadics: squares exact in float32
        nb, sizes, wts = _lay(nb, lay.get("neighbors")), _lay(sizes, lay.get("sizes")), _lay(wts, lay.get("weights"))
        if fn == "constant":
            H = ru.constant_regularization_matrix_from(coefficient=c, neighbors=nb, neighbors_sizes=sizes)
        elif fn == "constant_zeroth":
            H = ru.constant_zeroth_regularization_matrix_from(
                coefficient=c, coefficient_zeroth=cz, neighbors=nb, neighbors_sizes=sizes)
        elif fn == "zeroth":
            H = ru.zeroth_regularization_matrix_from(coefficient=c, pixels=n)
        elif fn == "weighted":
            H = ru.weighted_regularization_matrix_from(regularization_weights=wts, neighbors=nb, neighbors_sizes=sizes)
        else:
            H = ru.brightness_zeroth_regularization_matrix_from(regularization_weights=wts)
        return {"matrix": qmat(H)}

    def _impl_rect_neighbors(self, aa, case):
        from autoarray.inversion.pixelization.mesh import mesh_util

        h, w = case["shape"]
        nb, sz = mesh_util.rectangular_neighbors_from(shape_native=(h, w))
        obs = {"neighbors": [[int(v) for v in r] for r in np.asarray(nb)], "sizes": [int(v) for v in np.asarray(sz)],
               "inputs": {}}
        if h >= 3 and w >= 3:
            # the same table through the public mesh class (what the regularization schemes actually read)
            grid = aa.Grid2D.uniform(shape_native=(3, 3), pixel_scales=1.0)
            mesh = aa.Mesh2DRectangular.overlay_grid(grid=grid, shape_native=(h, w))
            n = mesh.neighbors
            obs["mesh"] = {"neighbors": [[int(v) for v in r] for r in np.asarray(n)],
                           "sizes": [int(v) for v in np.asarray(n.sizes)]}
            obs["mesh_pixels"] = int(mesh.pixels)
        return obs

    def _impl_signals(self, aa, case):
        mapper = _real_mapper(aa, case)
        scale = fl(case["signal_scale"])
        try:
            s = mapper.pixel_signals_from(signal_scale=scale)
        except Exception as e:
            if "qhull" in str(e).lower():
                raise Skip("qhull")
            raise
        inputs = {
            "pixels": int(mapper.pixels),
            "pixel_weights": qmat(np.asarray(mapper.pix_weights_for_sub_slim_index)),
            "pix_indexes": [[int(v) for v in r] for r in np.asarray(mapper.pix_indexes_for_sub_slim_index)],
            "pix_sizes": [int(v) for v in np.asarray(mapper.pix_sizes_for_sub_slim_index)],
            "slim_for_sub": [int(v) for v in np.asarray(mapper.over_sampler.slim_for_sub_slim)],
            "adapt_data": qlist(np.asarray(mapper.adapt_data.array if hasattr(mapper.adapt_data, "array") else mapper.adapt_data)),
        }
        return {"signals": qlist(np.asarray(s)), "inputs": inputs}

    def _impl_history(self, aa, case):
        """one linear object through a sequence of `regularization` re-assignments (directly or on a
        `copy.copy`), its block read after every step through `linear_obj.regularization_matrix`, a
        `MockInversion` and (real mappers) a real `aa.Inversion`"""
        import copy

        if case["source"] == "mock":
            mocks = [case["mock"]] + ([case["mock2"]] if case.get("mock2") else [])
            curs = [_mock_mapper(aa, m, regularization=None) for m in mocks]
            tables_for = lambda name, ss, k: dict(mocks[k])
            real_ds = None
        else:
            curs = [_real_mapper(aa, case)]
            base = curs[0]
            tables_for = lambda name, ss, k: _tables_of(base, name, ss or "1", False)
            mask = base.mapper_grids.mask
            real_ds = aa.DatasetInterface(
                data=aa.Array2D(values=np.array([fl(v) for v in case["adapt"]]), mask=mask),
                noise_map=aa.Array2D(values=np.ones(len(case["adapt"])), mask=mask), convolver=None)
        out = []
        made = {}  # scheme instances are re-used whenever the same (class, arguments) recurs
        for st in case["steps"]:
            key = (st["scheme"], tuple(st["args"]), st.get("signal_scale"))
            if st["scheme"] is None:
                reg = None
            else:
                if key not in made:
                    made[key] = _make_scheme(aa, st["scheme"], st["args"], st.get("signal_scale"),
                                             st.get("arg_type", "float"))
                reg = made[key]
            oi = st.get("obj", 0)
            cur = curs[oi]
            if st.get("copy"):
                cur = copy.copy(cur)
                curs[oi] = cur
            n = int(cur.params)
            cur.regularization = reg
            block = np.asarray(cur.regularization_matrix)
            extra = aa.m.MockLinearObj(parameters=case["extra"], regularization=None)
            objs = [extra, cur] if case["extra_first"] else [cur, extra]
            inv = aa.m.MockInversion(linear_obj_list=objs)
            o = {"block": qmat(block), "inv": qmat(np.asarray(inv.regularization_matrix)),
                 "reduced": qmat(np.asarray(inv.regularization_matrix_reduced))}
            if real_ds is not None:
                rinv = aa.Inversion(dataset=real_ds, linear_obj_list=[cur],
                                    settings=aa.SettingsInversion(use_w_tilde=False))
                o["real_inv"] = qmat(np.asarray(rinv.regularization_matrix))
            o["params"] = n
            if reg is not None:
                o["weights"] = qlist(np.asarray(reg.regularization_weights_from(linear_obj=cur)))
                o["tables"] = tables_for(st["scheme"], st.get("signal_scale"), oi)
            out.append(o)
        return {"steps": out, "inputs": {}}

    def _impl_inversion(self, aa, case):
        objs = []
        blocks = []
        shared_regs = {}
        for o in case["objs"]:
            if o["type"] == "linear_obj":
                objs.append(aa.m.MockLinearObj(parameters=o["params"], regularization=None))
                blocks.append(None)
            else:
                key = json.dumps([o["scheme"], o["args"], o.get("signal_scale"), o.get("arg_type", "float"),
                                  o.get("defaults", False)], default=str)
                if case.get("share_reg") and key in shared_regs:
                    reg = shared_regs[key]  # ONE regularization instance for every object with this specification
                else:
                    reg = _make_scheme(aa, o["scheme"], o["args"], o.get("signal_scale"), o.get("arg_type", "float"),
                                       o.get("defaults", False))
                    shared_regs[key] = reg
                objs.append(_mock_mapper(aa, o["mock"], regularization=reg))
                blocks.append(True)
        pre = case.get("preload", "absent")
        kw = {}
        if case.get("settings"):
            sv = {k: (fl(v) if k in case.get("settings_float", []) else v) for k, v in case["settings"].items()}
            kw["settings"] = aa.SettingsInversion(**sv)
        slots = {}
        tot = sum(o["params"] for o in case["objs"])
        for sl in case.get("slots", []):
            if sl == "regularization_matrix":
                continue
            # the other preload slots hold quantities of other properties: plausible stand-ins of the right shape
            slots[sl] = {"use_w_tilde": False, "log_det_regularization_matrix_term": 0.0,
                         "curvature_matrix": np.eye(tot), "operated_mapping_matrix": np.ones((3, tot)),
                         "data_vector_mapper": np.ones(tot), "curvature_matrix_mapper_diag": np.eye(tot),
                         "mapper_list": [], "w_tilde": None}.get(sl, None)
        if pre == "absent":
            if slots or "slots" in case:
                kw["preloads"] = aa.Preloads(**slots)
            inv = aa.m.MockInversion(linear_obj_list=objs, **kw)
        elif pre == "none":
            inv = aa.m.MockInversion(linear_obj_list=objs, preloads=aa.Preloads(regularization_matrix=None, **slots), **kw)
        else:
            # what a previous, equal inversion computed — handed back through Preloads
            objs0 = []
            for o in case["objs"]:
                if o["type"] == "linear_obj":
                    objs0.append(aa.m.MockLinearObj(parameters=o["params"], regularization=None))
                else:
                    objs0.append(_mock_mapper(aa, o["mock"], regularization=_make_scheme(
                        aa, o["scheme"], o["args"], o.get("signal_scale"), o.get("arg_type", "float"),
                        o.get("defaults", False))))
            H0 = np.array(aa.m.MockInversion(linear_obj_list=objs0).regularization_matrix, dtype=float)
            if case.get("reassign"):
                # the slot is empty when the inversion is made and assigned before the first read
                pl = aa.Preloads(**slots)
                inv = aa.m.MockInversion(linear_obj_list=objs, preloads=pl, **kw)
                pl.regularization_matrix = H0
            else:
                inv = aa.m.MockInversion(linear_obj_list=objs,
                                         preloads=aa.Preloads(regularization_matrix=H0, **slots), **kw)
        H = np.asarray(inv.regularization_matrix)
        R = np.asarray(inv.regularization_matrix_reduced)
        # the per-object matrices, each from a fresh equal object (observed, for the oracle)
        per_obj = []
        for o in case["objs"]:
            if o["type"] == "linear_obj":
                per_obj.append(None)
            else:
                reg = _make_scheme(aa, o["scheme"], o["args"], o.get("signal_scale"), o.get("arg_type", "float"),
                                   o.get("defaults", False))
                per_obj.append(qmat(np.asarray(reg.regularization_matrix_from(linear_obj=_mock_mapper(aa, o["mock"])))))
        return {"matrix": qmat(H), "reduced": qmat(R),
                "no_reg": [int(v) for v in inv.no_regularization_index_list],
                "total_params": int(inv.total_params), "inputs": {"per_obj": per_obj}}

    # ------------------------------------------------------------------ model
    def model_requests(self, case, obs):
        kind = case["kind"]
        if isinstance(obs, dict) and "err" in obs and "inputs" not in obs and kind != "util":
            return []  # undocumented exception in the implementation: nothing to compare, the oracle reports it
        if kind == "scheme":
            return self._scheme_requests(case["scheme"], obs)
        if kind in READS_KINDS:
            reqs, spans = [], []
            for rd in obs["reads"]:
                rs = self._scheme_requests(rd["scheme"], rd) if "err" not in rd else []
                spans.append((len(reqs), len(reqs) + len(rs)))
                reqs += rs
            case["_spans"] = spans
            case["_read_meta"] = [{k: rd.get(k) for k in ("scheme", "source", "decade", "f32")} for rd in obs["reads"]]
            return reqs
        if kind == "large":
            return []
        if kind == "rect_neighbors":
            return [{"op": "c07.rect_neighbors", "shape": case["shape"]}]
        if kind == "util":
            fn = case["fn"]
            r = {"op": "c07.util", "fn": fn, "ridge": q(RIDGE), "ridge2": q(RIDGE2)}
            if fn in ("reg_split_from", "pixel_splitted"):
                r["split"] = case["split"]
                r["weights"] = case["weights"]
                if fn == "pixel_splitted":
                    # two requests: reg_split_from, then the matrix on the implementation's post-split tables
                    if "err" in obs:
                        return [{**r, "fn": "reg_split_from"}]
                    return [{**r, "fn": "reg_split_from"}, {**r, "split": obs["post"]}]
                return [r]
            r.update({"neighbors": case["neighbors"], "sizes": case["sizes"], "coefficient": case["coefficient"],
                      "coefficient_zeroth": case["coefficient_zeroth"], "weights": case["weights"], "pixels": case["n"]})
            return [r]
        if kind == "signals":
            # integer scales: exact rational power; other scales: the model's `pow` is the double-precision power
            return [{"op": "c07.util", "fn": "pixel_signals", "signal_scale": q(Fraction(case["signal_scale"])),
                     **obs["inputs"]}]
        if kind == "history":
            reqs = []
            ex = {"params": case["extra"], "matrix": None}
            for st, so in zip(case["steps"], obs["steps"]):
                n = so["params"]
                if st["scheme"] is None:
                    mo = {"params": n, "matrix": None}
                else:
                    mo = {"params": n, "scheme": st["scheme"], "args": st["args"], "obj": so["tables"]}
                reqs.append({"op": "c07.inversion", "objs": [mo], "ridge": q(RIDGE), "ridge2": q(RIDGE2)})
                reqs.append({"op": "c07.inversion", "objs": [ex, mo] if case["extra_first"] else [mo, ex],
                             "ridge": q(RIDGE), "ridge2": q(RIDGE2)})
            return reqs
        objs = []
        for o in case["objs"]:
            if o["type"] == "linear_obj":
                objs.append({"params": o["params"], "matrix": None})
            else:
                objs.append({"params": o["params"], "scheme": o["scheme"], "args": o["args"], "obj": o["mock"]})
        return [{"op": "c07.inversion", "objs": objs, "ridge": q(RIDGE), "ridge2": q(RIDGE2)}]

    def _scheme_requests(self, name, obs):
        """driver requests for one scheme observation (its `inputs` carry the tables of a FRESH linear object)"""
        inp = obs["inputs"]
        t = inp["tables"]
        if name in KERNEL_SCHEMES:
            if t["params"] > 40:
                return []
            reqs = [{"op": "c07.cov", "kind": "gauss" if name == "GaussianKernel" else "exp",
                     "scale": inp["args"][1], "ridge": q(RIDGE), "points": t["points"]}]
            if t["params"] <= 12 and inp.get("cond", 1e99) <= COND_COMPARE_MAX:
                reqs.append({"op": "c07.scheme", "num": "float", "scheme": name, "args": inp["args"],
                             "ridge": q(RIDGE), "ridge2": q(RIDGE2), "obj": {"params": t["params"], "points": t["points"]}})
            return reqs
        reqs = [{"op": "c07.scheme", "num": "rat", "scheme": name, "args": inp["args"],
                 "ridge": q(RIDGE), "ridge2": q(RIDGE2), "obj": t}]
        if inp.get("closed") is not None:
            # the same scheme from the mesh shape / mapper tables alone: the model computes the
            # neighbour table (rectangular_neighbors_from) and the pixel signals itself
            reqs.append({**reqs[0], "obj": inp["closed"]})
        return reqs

    def _scheme_mobs(self, name, responses):
        if name in KERNEL_SCHEMES:
            out = {}
            if "err" in responses[0]:
                return {"err": responses[0]["err"]}
            out["cov"] = responses[0]["ok"]
            if len(responses) > 1:
                if "err" in responses[1]:
                    return {"err": responses[1]["err"]}
                out["weights"] = responses[1]["ok"]["weights"]
                out["matrix"] = responses[1]["ok"]["matrix"]
            return out
        r = responses[0]
        if "err" in r:
            return {"err": r["err"]}
        M = r["ok"]["matrix"]
        out = {"shape": [len(M), len(M[0]) if M else 0], "weights": r["ok"]["weights"], "matrix": M}
        if len(responses) > 1:
            r2 = responses[1]
            if "err" in r2:
                return {"err": r2["err"]}
            M2 = r2["ok"]["matrix"]
            out["closed"] = {"shape": [len(M2), len(M2[0]) if M2 else 0], "weights": r2["ok"]["weights"],
                             "matrix": M2}
        return out

    @staticmethod
    def _rel_diff(cmp, a, b, rtol, floor, path="$"):
        """per-entry RELATIVE comparison (|a-b| <= rtol*max(|a|,|b|) + floor) of nested lists of numbers: the
        decades streams hold values of any magnitude, where `Cmp`'s `max(1, .)` would compare nothing"""
        if isinstance(a, (list, tuple)) and isinstance(b, (list, tuple)):
            if len(a) != len(b):
                return f"{path}: length impl={len(a)} model={len(b)}"
            for i, (x, y) in enumerate(zip(a, b)):
                d = C07._rel_diff(cmp, x, y, rtol, floor, f"{path}[{i}]")
                if d:
                    return d
            return None
        try:
            fa, fb = Fraction(a), Fraction(b)
        except (ValueError, TypeError):
            return None if a == b else f"{path}: impl={a!r} model={b!r}"
        if fa == fb:
            cmp.exact += 1
            return None
        if abs(fa - fb) <= rtol * max(abs(fa), abs(fb)) + floor:
            cmp.tolerant += 1
            return None
        return f"{path}: impl={float(fa)!r} model={float(fb)!r} (|Δ|={float(abs(fa - fb)):.3e}, relative comparison)"

    def _scheme_cmp(self, meta, impl, model, cmp, sub):
        """one scheme observation against the model's; `meta`: scheme, source, decade, f32"""
        name = meta["scheme"]
        if isinstance(impl, dict) and "err" in impl:
            return cmp.diff({"err": impl["err"]}, {"err": model.get("err")} if isinstance(model, dict) else model)
        if isinstance(model, dict) and "err" in model:
            return f"$: impl returned a value, model {model}"
        if name in KERNEL_SCHEMES:
            d = sub(impl["cov"], model["cov"], Fraction(1, 10 ** 9))
            if d or "matrix" not in model:
                return d
            mx = max(abs(fl(v)) for r in impl["matrix"] for v in r)
            if meta.get("decade"):
                mw = max([abs(Fraction(v)) for v in model["weights"]] + [Fraction(0)])
                d = self._rel_diff(cmp, impl["weights"], model["weights"], Fraction(0), Fraction(0), "$.weights")
            else:
                d = sub(impl["weights"], model["weights"], 0)
            return d or sub(impl["matrix"], model["matrix"], 0, Fraction(mx) / 10 ** 8)
        tol = Fraction(1, 10 ** 12) if meta["source"] == "mock" or name in RATIONAL_SCHEMES else Fraction(1, 10 ** 9)
        a = {k: impl[k] for k in ("shape", "weights", "matrix")}
        if name in SIGNAL_SCHEMES and meta["source"] != "mock":
            tol = Fraction(1, 10 ** 10)
        if meta.get("f32"):
            tol = Fraction(1, 2 ** 20)  # float32 inputs: numpy keeps the dtype through the weights
        if meta.get("decade") or meta.get("f32"):
            def one(b, what):
                if a["shape"] != b["shape"]:
                    return f"$.shape: impl={a['shape']} model={b['shape']}"
                M = [[Fraction(v) for v in r] for r in b["matrix"]]
                off = max([abs(v) for i, r in enumerate(M) for j, v in enumerate(r) if i != j] + [Fraction(0)])
                if name in SPLIT_SCHEMES:
                    # split-cross entries are sums of products of either sign: rounding is relative to the terms, whose
                    # size is that of the diagonal without its ridge, not to a sum that may cancel
                    off = max([off] + [abs(M[i][i] - Fraction(RIDGE)) for i in range(len(M))])
                mw = max([abs(Fraction(v)) for v in b["weights"]] + [Fraction(0)])
                d = self._rel_diff(cmp, a["weights"], b["weights"], tol, tol * mw if meta.get("f32") else 0, "$.weights")
                return d or self._rel_diff(cmp, a["matrix"], b["matrix"], tol, tol * off, "$.matrix")
            d = one({k: model[k] for k in ("shape", "weights", "matrix")}, "")
            if d or "closed" not in model:
                return d
            d = one(model["closed"], "closed")
            return ("closed model (own neighbour table / own pixel signals): " + d) if d else None
        d = sub(a, {k: model[k] for k in ("shape", "weights", "matrix")}, tol)
        if d or "closed" not in model:
            return d
        d = sub(a, model["closed"], tol)
        return ("closed model (own neighbour table / own pixel signals): " + d) if d else None

    def model_obs(self, case, responses):
        kind = case["kind"]
        if kind == "scheme":
            return self._scheme_mobs(case["scheme"], responses)
        if kind in READS_KINDS:
            out = []
            for (a, b), meta in zip(case["_spans"], case["_read_meta"]):
                out.append(self._scheme_mobs(meta["scheme"], responses[a:b]) if b > a else None)
            return {"reads": out}
        if kind == "rect_neighbors":
            r = responses[0]
            if "err" in r:
                return {"err": r["err"]}
            return {"neighbors": r["ok"]["neighbors"], "sizes": r["ok"]["sizes"]}
        if kind == "util":
            if case["fn"] == "pixel_splitted":
                if "err" in responses[0]:
                    return {"err": responses[0]["err"]}
                return {"post": responses[0]["ok"], "matrix": responses[1].get("ok", responses[1])}
            r = responses[0]
            if "err" in r:
                return {"err": r["err"]}
            return r["ok"] if case["fn"] == "reg_split_from" else {"matrix": r["ok"]}
        if kind == "signals":
            r = responses[0]
            return {"signals": r["ok"]["signals"]} if "ok" in r else {"err": r["err"]}
        if kind == "history":
            steps = []
            for k in range(0, len(responses), 2):
                a, b = responses[k], responses[k + 1]
                if "err" in a or "err" in b:
                    return {"err": a.get("err") or b.get("err")}
                steps.append({"block": a["ok"]["matrix"], "inv": b["ok"]["matrix"], "reduced": b["ok"]["reduced"]})
            return {"steps": steps}
        r = responses[0]
        return r["ok"] if "ok" in r else {"err": r["err"]}

    def compare(self, case, impl, model, cmp):
        def sub(a, b, rtol, atol=0):
            c = Cmp(Fraction(rtol), Fraction(atol))
            d = c.diff(a, b)
            cmp.exact += c.exact
            cmp.tolerant += c.tolerant
            return d

        kind = case["kind"]
        if isinstance(impl, dict) and "err" in impl:
            return cmp.diff({"err": impl["err"]}, {"err": model.get("err")} if isinstance(model, dict) else model)
        if isinstance(model, dict) and "err" in model:
            return f"$: impl returned a value, model {model}"
        if kind == "scheme":
            return self._scheme_cmp({"scheme": case["scheme"], "source": case["source"], "decade": case.get("decade"),
                                     "f32": case.get("f32")}, impl, model, cmp, sub)
        if kind in READS_KINDS:
            for k, (rd, mo, meta) in enumerate(zip(impl["reads"], model["reads"], case["_read_meta"])):
                if mo is None:
                    continue
                d = self._scheme_cmp(meta, rd, mo, cmp, sub)
                if d:
                    return f"read {k} ({rd.get('where', '')}): {d}"
            return None
        if kind == "rect_neighbors":
            d = sub({"neighbors": impl["neighbors"], "sizes": impl["sizes"]}, model, 0)
            if d or "mesh" not in impl:
                return d
            d = sub(impl["mesh"], model, 0)
            return ("Mesh2DRectangular.neighbors: " + d) if d else None
        if kind == "util":
            if case["fn"] == "reg_split_from":
                return sub(impl, model, 0)
            return sub(impl, model, Fraction(1, 10 ** 12))
        if kind == "signals":
            return sub({"signals": impl["signals"]}, model, Fraction(1, 10 ** 10))
        if kind == "history":
            a = {"steps": [{k: so[k] for k in ("block", "inv", "reduced")} for so in impl["steps"]]}
            d = sub(a, model, Fraction(1, 10 ** 10))
            if d:
                return d
            for k, so in enumerate(impl["steps"]):
                if "real_inv" in so:
                    d = sub(so["real_inv"], model["steps"][k]["block"], Fraction(1, 10 ** 10))
                    if d:
                        return f"step {k} aa.Inversion: " + d
            return None
        a = {k: impl[k] for k in ("matrix", "reduced", "no_reg")}
        if case.get("decade"):
            if a["no_reg"] != model["no_reg"]:
                return f"$.no_reg: impl={a['no_reg']} model={model['no_reg']}"
            for key in ("matrix", "reduced"):
                M = [[Fraction(v) for v in r] for r in model[key]]
                off = max([abs(v) for i, r in enumerate(M) for j, v in enumerate(r) if i != j] + [Fraction(0)])
                d = self._rel_diff(cmp, a[key], model[key], Fraction(1, 10 ** 12), off / 10 ** 12, "$." + key)
                if d:
                    return d
            return None
        return sub(a, model, Fraction(1, 10 ** 12))

    # ------------------------------------------------------------------ oracle (independent of the model)
    def oracle(self, case, obs):
        kind = case["kind"]
        if isinstance(obs, dict) and "err" in obs and "inputs" not in obs and kind != "util":
            return False, f"implementation raised {obs.get('err')}: {obs.get('msg', '')}"
        if kind == "scheme":
            return self._oracle_scheme(case, obs)
        if kind == "util":
            return self._oracle_util(case, obs)
        if kind == "signals":
            return self._oracle_signals(case, obs)
        if kind == "rect_neighbors":
            return self._oracle_rect_neighbors(case, obs)
        if kind == "history":
            return self._oracle_history(case, obs)
        if kind in READS_KINDS:
            return self._oracle_reads(case, obs)
        if kind == "large":
            return self._oracle_large(case, obs)
        return self._oracle_inversion(case, obs)

    @staticmethod
    def _pairs(neighbors, sizes):
        """directed neighbour pairs read by the loops"""
        return [(i, neighbors[i][j]) for i in range(len(sizes)) for j in range(sizes[i])]

    @staticmethod
    def _cross_vectors(split, n):
        """independent statement of the split-cross rows: v_k = e_{pixel(k)} - sum_l w_kl e_{m_kl}
        (difference between the pixel's own value and the value interpolated at the cross point)"""
        vs = []
        for k, (m, s, w) in enumerate(zip(split["mappings"], split["sizes"], split["weights"])):
            v = [Fraction(0)] * n
            v[k // 4] += 1
            for l in range(s):
                v[m[l]] -= Fraction(w[l])
            vs.append(v)
        return vs

    def _check_pd(self, H, n, strict, what, slack=None):
        Hs = [[(H[i][j] + H[j][i]) / 2 for j in range(n)] for i in range(n)]
        if n <= EXACT_LDL_MAX:
            if strict:
                if ldl_min_pivot(Hs) is None:
                    return False, f"{what}: not positive definite (exact LDL^T has a non-positive pivot)"
            else:
                eps = Fraction(1, 10 ** 30) if slack is None else Fraction(slack)
                if case_scale(Hs) == 0:
                    return True, ""
                if slack is None and case_scale(Hs) < Fraction(1, 10 ** 20):
                    eps = case_scale(Hs) / 10 ** 12
                Hr = [[Hs[i][j] + (eps if i == j else 0) for j in range(n)] for i in range(n)]
                if ldl_min_pivot(Hr) is None:
                    return False, f"{what}: not positive semi-definite"
            return True, ""
        sc = max([abs(v) for r in Hs for v in r] + [Fraction(0)])
        if sc == 0:
            return (not strict), ("" if not strict else f"{what}: the zero matrix is not positive definite")
        p2 = Fraction(2) ** (sc.numerator.bit_length() - sc.denominator.bit_length())  # normalise: no over/underflow
        A = np.array([[float(v / p2) for v in r] for r in Hs])
        ev = np.linalg.eigvalsh(A)
        lim = 0.0 if strict else -1e-12 * max(1.0, abs(ev).max())
        if slack is not None:
            lim = -float(Fraction(slack) / p2) - 1e-12 * abs(ev).max()
        if not (ev.min() > lim):
            return False, f"{what}: smallest eigenvalue {ev.min():.3e}"
        if strict:
            try:
                np.linalg.cholesky(A)
            except np.linalg.LinAlgError:
                return False, f"{what}: Cholesky fails"
        return True, ""

    def _oracle_scheme(self, case, obs):
        name = case["scheme"]
        if "err" in obs:
            if obs["err"] == "mesh_exception" and case["source"] == "mock":
                t = obs["inputs"]["tables"]["split"]
                width = len(t["weights"][0])
                if any(s >= width for s in t["sizes"]):
                    return True, ""
            return False, f"implementation raised {obs.get('err')} {obs.get('msg', '')}"
        inp = obs["inputs"]
        t = inp["tables"]
        args = [Fraction(a) for a in inp["args"]]
        n = t["params"]
        bad = [(i, j, v) for i, r in enumerate(obs["matrix"]) for j, v in enumerate(r) if v in ("nan", "inf", "-inf")]
        if bad or any(v in ("nan", "inf", "-inf") for v in obs["weights"]):
            what = f"entry ({bad[0][0]},{bad[0][1]}) is {bad[0][2]}" if bad else "a reported weight is not finite"
            return False, f"{name}: the regularization matrix / weights are not finite: {what}"
        H = [[Fraction(v) for v in r] for r in obs["matrix"]]
        w = [Fraction(v) for v in obs["weights"]]
        rho = Fraction(RIDGE)
        # decades streams: values of any magnitude, so every tolerance is relative to the magnitudes involved
        dec = bool(case.get("decade"))
        wtol = Fraction(1, 2 ** 20) if case.get("f32") else Fraction(1, 10 ** 12)
        # size = parameter count
        if obs["shape"] != [n, n] or len(w) != n:
            return False, f"{name}: matrix shape {obs['shape']} / {len(w)} weights for {n} parameters"
        real_mesh = case["source"] != "mock"
        sym_tables = real_mesh or case.get("symmetric", False)
        if "neighbors" in t and any(not (0 <= sz <= len(row)) for sz, row in zip(t["sizes"], t["neighbors"])):
            return False, "malformed neighbour table: a size is negative or exceeds the table width"
        pairs = self._pairs(t["neighbors"], t["sizes"]) if "neighbors" in t else []
        closed_in = inp.get("closed") or {}
        if real_mesh and closed_in.get("mesh_shape") and "neighbors" in t:
            # a rectangular mesh: the table is the 4-connectivity of its shape (stated independently of the code)
            mh, mw = closed_in["mesh_shape"]
            T, S = self._rect_table(mh, mw)
            if [list(r) for r in t["neighbors"]] != T.tolist() or list(t["sizes"]) != S.tolist():
                return False, f"the neighbour table of the {mh} x {mw} rectangular mesh is not its 4-connectivity"
        if real_mesh and "simplices" in inp and "neighbors" in t:
            e = {(a, b) for sx in inp["simplices"] for a in sx for b in sx if a != b}
            if set(pairs) != e or len(pairs) != len(e):
                return False, "the Delaunay mesh's neighbour table is not the edge relation of its triangulation"
        if name in ("Constant", "ConstantZeroth", "AdaptiveBrightness"):
            if any(not (0 <= j < n) for _, j in pairs):
                return False, "neighbour table has an out-of-range index"
            from collections import Counter

            cnt = Counter(pairs)
            table_sym = all(cnt[(a, b)] == cnt[(b, a)] for (a, b) in cnt)
            if real_mesh and not table_sym:
                return False, "the mesh's neighbour table is not symmetric"
            if real_mesh and (any(a == b for a, b in pairs) or any(c > 1 for c in cnt.values())):
                return False, "the mesh's neighbour table has a self-neighbour or a repeated neighbour"
            csr = (inp.get("closed") or {}).get("csr")
            if csr is not None and "simplices" in inp:
                # Qhull's contract, the hypothesis of C07.delaunay_neighbors_wellformed: complete slices, slice k =
                # the vertices sharing a simplex with k, none twice
                ip, ix = csr["indptr"], csr["indices"]
                if len(ip) != n + 1 or ip[0] != 0 or ip[-1] != len(ix) or any(ip[k] > ip[k + 1] for k in range(n)):
                    return False, "scipy's CSR index pointer is not a complete partition of the index array"
                for k in range(n):
                    sl = ix[ip[k]:ip[k + 1]]
                    e = sorted({j for sx in inp["simplices"] if k in sx for j in sx if j != k})
                    if sorted(sl) != e:
                        return False, (f"Qhull contract: CSR slice of vertex {k} is {sorted(sl)}, the vertices sharing a "
                                       f"simplex with it are {e}")
        # ---------------------------------------------------------------- symmetry
        exact_sym = name not in KERNEL_SCHEMES
        need_sym = sym_tables or name not in ("Constant", "ConstantZeroth")
        mx = max([abs(v) for r in H for v in r] + [Fraction(0)])
        if need_sym:
            for i in range(n):
                for j in range(i):
                    d = abs(H[i][j] - H[j][i])
                    if (exact_sym and d != 0) or (not exact_sym and d > mx / 10 ** 7):
                        return False, f"{name}: H[{i}][{j}] != H[{j}][{i}] ({float(H[i][j])!r} vs {float(H[j][i])!r})"
        # ---------------------------------------------------------------- weights the scheme reports
        if name in ("Constant", "Zeroth", "ConstantSplit", "GaussianKernel", "ExponentialKernel", "ConstantZeroth"):
            if any(v != args[0] for v in w):
                return False, f"{name}: regularization_weights_from is not coefficient * ones"
        elif name in ("AdaptiveBrightness", "AdaptiveBrightnessSplit"):
            s = [Fraction(v) for v in t["signals"]]
            for k in range(n):
                e = (args[0] * s[k] + args[1] * (1 - s[k])) ** 2
                if abs(w[k] - e) > wtol * (abs(e) if dec else max(1, abs(e))):
                    return False, f"{name}: weight {k} = {float(w[k])!r}, expected (inner*s+outer*(1-s))^2 = {float(e)!r}"
            if real_mesh and args[0] > 0 and args[1] > 0:
                # C07.adaptive_brightness_weights_pos: signals of a real mapper lie in [0, 1]
                if any(v < 0 or v > 1 for v in s):
                    return False, f"{name}: a pixel signal of the mapper lies outside [0, 1]"
                if any(v <= 0 for v in w):
                    return False, f"{name}: a reported regularization weight is not positive"
        elif name == "BrightnessZeroth":
            s = [Fraction(v) for v in t["signals"]]
            for k in range(n):
                e = args[0] * (1 - s[k])
                if abs(w[k] - e) > wtol * (abs(e) if dec else max(1, abs(e))):
                    return False, f"{name}: weight {k} = {float(w[k])!r}, expected coefficient*(1-s) = {float(e)!r}"
        # ---------------------------------------------------------------- quadratic form
        def expected(x):
            xx = sum(v * v for v in x)
            if name in ("Constant", "ConstantZeroth"):
                c2 = args[0] ** 2
                if sym_tables:
                    e = c2 * sum((x[a] - x[b]) ** 2 for a, b in pairs) / 2 + rho * xx
                else:
                    e = c2 * sum(x[a] * x[a] - x[a] * x[b] for a, b in pairs) + rho * xx
                if name == "ConstantZeroth":
                    e += args[1] ** 2 * xx
                return e
            if name == "Zeroth":
                return args[0] ** 2 * xx
            if name == "BrightnessZeroth":
                return sum(w[i] ** 2 * x[i] ** 2 for i in range(n))
            if name == "AdaptiveBrightness":
                if sym_tables:
                    return sum((w[a] ** 2 + w[b] ** 2) * (x[a] - x[b]) ** 2 for a, b in pairs) / 2 + rho * xx
                return sum(w[b] ** 2 * (x[a] - x[b]) ** 2 for a, b in pairs) + rho * xx
            if name in SPLIT_SCHEMES:
                vs = self._cross_vectors(t["split"], n)
                om = w if name == "AdaptiveBrightnessSplit" else [args[0]] * n
                return rho * xx + sum(om[k // 4] ** 2 * sum(a * b for a, b in zip(v, x)) ** 2
                                      for k, v in enumerate(vs))
            return None

        if name in SPLIT_SCHEMES:
            sp = t["split"]
            for k, (m, s) in enumerate(zip(sp["mappings"], sp["sizes"])):
                if len(set(m[:s])) != s or any(not (0 <= v < n) for v in m[:s]):
                    return False, f"cross-point row {k} of the mapper repeats a pixel index or is out of range"
            if len(sp["sizes"]) != 4 * n:
                return False, "split-cross tables do not have 4 rows per pixel"
            # hypotheses of C07.split_scheme_spec (SplitWF): rows non-empty and not full
            width = len(sp["weights"][0]) if sp["weights"] else 0
            if real_mesh and any(not (1 <= sz < width) for sz in sp["sizes"]):
                return False, "a cross-point row of the mapper is empty or fills the whole array width"
        if name not in KERNEL_SCHEMES:
            HI = IntMat(H)
            vecs = test_vectors(n * 31 + len(pairs), n)
            if case.get("light"):
                vecs = vecs[:1] + vecs[-4:]
            for x in vecs:
                got, gabs = HI.quad_both(x)
                e = expected(x)
                tol = (Fraction(1, 2 ** 18) if case.get("f32") else Fraction(1, 10 ** 11)) * gabs \
                    + (0 if dec else Fraction(1, 10 ** 24))
                if abs(got - e) > tol:
                    return False, (f"{name}: x^T H x = {float(got)!r} but the stated quadratic form gives "
                                   f"{float(e)!r} for x = {[float(v) for v in x]}")
        else:
            cond = inp.get("cond", 0.0)
            if not (cond <= COND_ORACLE_MAX):
                raise Skip("ill-conditioned kernel matrix")
            P = [[fl(a), fl(b)] for a, b in t["points"]]
            sc = float(args[1])
            C = np.zeros((n, n))
            for i in range(n):
                for j in range(n):
                    d = math.sqrt((P[i][1] - P[j][1]) ** 2 + (P[i][0] - P[j][0]) ** 2)
                    C[i, j] = (math.exp(-d * d / (2 * sc * sc)) if name == "GaussianKernel" else math.exp(-d / sc))
                    if i == j:
                        C[i, j] += RIDGE
            Ci = np.array([[fl(v) for v in r] for r in obs["cov"]])
            if np.abs(Ci - C).max() > 1e-12:
                return False, f"{name}: covariance matrix differs from exp kernel + 1e-8 ridge by {np.abs(Ci - C).max():.3e}"
            Hf = np.array([[float(v) for v in r] for r in H])
            res = np.abs(Hf @ C / float(args[0]) - np.eye(n)).max()
            if res > 1e-6:
                return False, f"{name}: H·C/coefficient differs from the identity by {res:.3e} (cond {cond:.2e})"
            # conditional clause's hypothesis, tested: the covariance matrix is PD
            okc, dc = self._check_pd([[Fraction(v) for v in r] for r in Ci.tolist()], n, True, f"{name} covariance")
            if not okc:
                return False, dc
        # ---------------------------------------------------------------- definiteness
        strict = name in PD_SCHEMES and (sym_tables or name not in ("Constant", "ConstantZeroth"))
        slack = None
        if name not in KERNEL_SCHEMES and mx > rho * 2 ** 40:
            # the 1e-8 ridge is (partly) below the rounding unit of the diagonal entries it is added to: in doubles
            # the matrix is the exactly singular neighbour-difference form and strictness is a matter of IEEE
            # rounding, which is outside the property; semi-definiteness up to that rounding is still demanded
            strict = False
            slack = mx * n / 2 ** 44
        if need_sym:
            ok, d = self._check_pd(H, n, strict, name, slack=slack)
            if not ok:
                return False, d
        return True, ""

    def _oracle_util(self, case, obs):
        fn = case["fn"]
        n = case["n"]
        rho = Fraction(RIDGE)
        if fn in ("reg_split_from", "pixel_splitted"):
            sp = case["split"]
            width = len(sp["weights"][0])
            raises = any(s >= width for s in sp["sizes"])
            # the first row decides between the two exceptions when it is empty
            if "err" in obs:
                if obs["err"] == "mesh_exception" and raises:
                    return True, ""
                if obs["err"] == "unbound_local" and sp["sizes"][0] == 0:
                    return True, ""
                return False, f"reg_split_from raised {obs}"
            if any(s == 0 for s in sp["sizes"]):
                return True, ""  # stale-index path: not a situation the property speaks about (model covers it)
            post = obs if fn == "reg_split_from" else obs["post"]
            for k in range(4 * n):
                s, m, w = sp["sizes"][k], sp["mappings"][k], [Fraction(v) for v in sp["weights"][k]]
                pix = k // 4
                exp_idx = m[:s] + ([] if pix in m[:s] else [pix])
                exp_w = [-v for v in w[:s]]
                if pix in m[:s]:
                    exp_w[m[:s].index(pix)] += 1
                else:
                    exp_w.append(Fraction(1))
                s2 = post["sizes"][k]
                if s2 != len(exp_idx) or post["mappings"][k][:s2] != exp_idx or \
                        [Fraction(v) for v in post["weights"][k][:s2]] != exp_w:
                    return False, f"reg_split_from row {k}: got {post['mappings'][k][:s2]} {post['weights'][k][:s2]}, expected {exp_idx} {[str(v) for v in exp_w]}"
            if fn == "pixel_splitted":
                H = [[Fraction(v) for v in r] for r in obs["matrix"]]
                om = [Fraction(v) for v in case["weights"]]
                vs = self._cross_vectors(sp, n)
                for i in range(n):
                    for j in range(i):
                        if H[i][j] != H[j][i]:
                            return False, "pixel_splitted matrix not symmetric"
                HI = IntMat(H)
                for x in test_vectors(n, n):
                    e = rho * sum(v * v for v in x) + sum(
                        om[k // 4] ** 2 * sum(a * b for a, b in zip(v, x)) ** 2 for k, v in enumerate(vs))
                    got, gabs = HI.quad_both(x)
                    if abs(got - e) > Fraction(1, 10 ** 11) * gabs + Fraction(1, 10 ** 24):
                        return False, f"pixel_splitted: x^T H x = {float(got)!r}, expected {float(e)!r}"
                return self._check_pd(H, n, True, "pixel_splitted")
            return True, ""
        H = [[Fraction(v) for v in r] for r in obs["matrix"]]
        pairs = self._pairs(case["neighbors"], case["sizes"])
        c2 = Fraction(case["coefficient"]) ** 2
        cz2 = Fraction(case["coefficient_zeroth"]) ** 2
        W = [Fraction(v) ** 2 for v in case["weights"]]
        if len(H) != n or any(len(r) != n for r in H):
            return False, f"{fn}: wrong shape"
        HI = IntMat(H) if len(H) == n and all(len(r) == n for r in H) else None
        for x in test_vectors(n + 5, n):
            xx = sum(v * v for v in x)
            if fn == "constant":
                e = c2 * sum(x[a] * x[a] - x[a] * x[b] for a, b in pairs) + rho * xx
            elif fn == "constant_zeroth":
                e = c2 * sum(x[a] * x[a] - x[a] * x[b] for a, b in pairs) + (rho + cz2) * xx
            elif fn == "zeroth":
                e = c2 * xx
            elif fn == "weighted":
                e = sum(W[b] ** 1 * (x[a] - x[b]) ** 2 for a, b in pairs) + rho * xx
            else:
                e = sum(W[i] * x[i] ** 2 for i in range(n))
            got, gabs = HI.quad_both(x)
            if abs(got - e) > Fraction(1, 10 ** 11) * gabs + Fraction(1, 10 ** 24):
                return False, f"{fn}: x^T H x = {float(got)!r}, stated form gives {float(e)!r}, x = {[float(v) for v in x]}"
        if fn in ("weighted", "zeroth", "brightness_zeroth"):
            for i in range(n):
                for j in range(i):
                    if H[i][j] != H[j][i]:
                        return False, f"{fn}: not symmetric"
            return self._check_pd(H, n, fn == "weighted", fn)
        return True, ""

    def _oracle_rect_neighbors(self, case, obs):
        """the table is the 4-connectivity of the H x W pixel grid: row k lists, in ascending order, the pixels
        above / left / right / below pixel k = y*W + x, padded with -1; sizes = their number (hence in range,
        symmetric, without self / repeated neighbours)"""
        h, w = case["shape"]
        views = [("rectangular_neighbors_from", obs)] + ([("Mesh2DRectangular.neighbors", obs["mesh"])] if "mesh" in obs else [])
        if "mesh_pixels" in obs and obs["mesh_pixels"] != h * w:
            return False, f"mesh.pixels = {obs['mesh_pixels']} for shape {h} x {w}"
        for what, o in views:
            if len(o["neighbors"]) != h * w or len(o["sizes"]) != h * w:
                return False, f"{what}: {len(o['neighbors'])} rows / {len(o['sizes'])} sizes for {h * w} pixels"
            for k in range(h * w):
                y, x = divmod(k, w)
                e = ([k - w] if y > 0 else []) + ([k - 1] if x > 0 else []) + ([k + 1] if x + 1 < w else []) \
                    + ([k + w] if y + 1 < h else [])
                if o["sizes"][k] != len(e) or list(o["neighbors"][k]) != e + [-1] * (4 - len(e)):
                    return False, (f"{what}: pixel {k} = ({y},{x}) of a {h} x {w} mesh has row {o['neighbors'][k]} "
                                   f"size {o['sizes'][k]}, expected {e} (its 4-neighbours)")
        return True, ""

    def _oracle_signals(self, case, obs):
        inp = obs["inputs"]
        n = inp["pixels"]
        sig = [Fraction(0)] * n
        cnt = [0] * n
        ad = [Fraction(v) for v in inp["adapt_data"]]
        for sub, (idx, sz) in enumerate(zip(inp["pix_indexes"], inp["pix_sizes"])):
            a = ad[inp["slim_for_sub"][sub]]
            for l in range(sz):
                wgt = Fraction(inp["pixel_weights"][sub][l]) if sz > 1 else 1
                sig[idx[l]] += a * wgt
                cnt[idx[l]] += 1
        sig = [s / (c if c else 1) for s, c in zip(sig, cnt)]
        mx = max(sig)
        if mx <= 0:
            raise Skip("no signal")
        sc = Fraction(case["signal_scale"])
        if sc.denominator == 1:
            e = [(s / mx) ** int(sc) for s in sig]
        else:
            e = [Fraction(float(s / mx) ** float(sc)) for s in sig]
        got = [Fraction(v) for v in obs["signals"]]
        if len(got) != n:
            return False, f"{len(got)} pixel signals for {n} pixels"
        for i in range(n):
            if abs(got[i] - e[i]) > Fraction(1, 10 ** 10):
                return False, f"pixel signal {i}: {float(got[i])!r}, expected {float(e[i])!r}"
        # range facts (C07.pixel_signals_in_unit_interval): non-negative image and weights, some positive mean
        if all(v >= 0 for v in ad) and all(Fraction(v) >= 0 for r in inp["pixel_weights"] for v in r) and sc >= 0:
            if any(v < 0 or v > 1 for v in got):
                return False, f"a pixel signal lies outside [0, 1]: {[float(v) for v in got]}"
            if max(got) != 1:
                return False, f"the brightest pixel has signal {float(max(got))!r}, not 1"
        return True, ""

    def _oracle_history(self, case, obs):
        """after every step the block is the one of the CURRENT scheme (stated quadratic form / zero
        block), through every access route"""
        e = case["extra"]
        for k, (st, so) in enumerate(zip(case["steps"], obs["steps"])):
            n = so["params"]
            where = f"step {k} ({st['scheme']}{' on a copy' if st.get('copy') else ''}, object {st.get('obj', 0)})"
            B = [[Fraction(v) for v in r] for r in so["block"]]
            if len(B) != n or any(len(r) != n for r in B):
                return False, f"{where}: block is not {n} x {n}"
            if st["scheme"] is None:
                if any(v != 0 for r in B for v in r):
                    return False, f"{where}: object without a regularization scheme has a non-zero block"
            else:
                pseudo_case = {"kind": "scheme", "source": case["source"], "scheme": st["scheme"],
                               "symmetric": True}
                pseudo_obs = {"shape": [n, n], "weights": so["weights"], "matrix": so["block"],
                              "inputs": {"tables": so["tables"], "args": st["args"]}}
                ok, d = self._oracle_scheme(pseudo_case, pseudo_obs)
                if not ok:
                    return False, f"{where}: linear_obj.regularization_matrix is not the current scheme's matrix: {d}"
            # the inversions see the same block, at the object's offset, next to a zero block
            H = [[Fraction(v) for v in r] for r in so["inv"]]
            off = e if case["extra_first"] else 0
            if len(H) != n + e:
                return False, f"{where}: assembled matrix has size {len(H)}, expected {n + e}"
            for i in range(n + e):
                for j in range(n + e):
                    inside = off <= i < off + n and off <= j < off + n
                    exp = B[i - off][j - off] if inside else 0
                    if H[i][j] != exp:
                        return False, f"{where}: Inversion.regularization_matrix[{i}][{j}] = {float(H[i][j])!r}, expected {float(exp)!r}"
            keep = [i for i in range(n + e) if (off <= i < off + n) or False]
            if st["scheme"] is None:
                keep = []
            R = [[Fraction(v) for v in r] for r in so["reduced"]]
            expR = [[H[i][j] for j in keep] for i in keep]
            if R != expR and not (not keep and all(len(r) == 0 for r in R)):
                return False, f"{where}: regularization_matrix_reduced is not the current scheme's block"
            if "real_inv" in so and [[Fraction(v) for v in r] for r in so["real_inv"]] != B:
                return False, f"{where}: aa.Inversion(...).regularization_matrix differs from the object's current block"
        return True, ""

    def _oracle_inversion(self, case, obs):
        H = [[Fraction(v) for v in r] for r in obs["matrix"]]
        sizes = [o["params"] for o in case["objs"]]
        tot = sum(sizes)
        if obs["total_params"] != tot or len(H) != tot or any(len(r) != tot for r in H):
            return False, f"block matrix is not {tot} x {tot}"
        off = 0
        noreg = []
        owner = []
        for k, o in enumerate(case["objs"]):
            owner += [k] * o["params"]
        for k, (o, B) in enumerate(zip(case["objs"], obs["inputs"]["per_obj"])):
            p = o["params"]
            for i in range(p):
                for j in range(p):
                    e = Fraction(B[i][j]) if B is not None else 0
                    if H[off + i][off + j] != e:
                        return False, (f"block {k} ({o['type']}) entry ({i},{j}) = {float(H[off+i][off+j])!r}, "
                                       f"expected {float(e)!r}")
            if B is None:
                noreg += list(range(off, off + p))
            off += p
        for i in range(tot):
            for j in range(tot):
                if owner[i] != owner[j] and H[i][j] != 0:
                    return False, f"entry ({i},{j}) couples objects {owner[i]} and {owner[j]}"
        if obs["no_reg"] != noreg:
            return False, f"no_regularization_index_list {obs['no_reg']} != {noreg}"
        keep = [i for i in range(tot) if i not in noreg]
        R = [[H[i][j] for j in keep] for i in keep]
        got = [[Fraction(v) for v in r] for r in obs["reduced"]]
        if got != R:
            return False, "regularization_matrix_reduced is not the matrix with the unregularized rows/columns removed"
        return True, ""

    # ------------------------------------------------------------------ bookkeeping
    def nontrivial(self, case, obs):
        kind = case["kind"]
        if kind == "scheme":
            if "err" in obs:
                return False
            t = obs["inputs"]["tables"]
            return t["params"] >= 2 and (case["scheme"] in ("Zeroth", "BrightnessZeroth") + tuple(KERNEL_SCHEMES)
                                         or sum(t.get("sizes", [0])) > 0 or bool(t.get("split")))
        if kind == "inversion":
            return len(case["objs"]) >= 2
        if kind == "history":
            return len({(st["scheme"], tuple(st["args"])) for st in case["steps"]}) >= 2
        if kind in READS_KINDS:
            return len(obs.get("reads", [])) >= 2
        if kind == "large":
            return True
        return case.get("n", 2) >= 2

    def shrink(self, case):
        if case["kind"] == "scheme" and case["source"] == "rect":
            mh, mw = case["mesh_shape"]
            if mh > 3:
                yield {**case, "mesh_shape": [mh - 1, mw]}
            if mw > 3:
                yield {**case, "mesh_shape": [mh, mw - 1]}
        if case["kind"] == "scheme" and case["source"] == "delaunay" and len(case["points"]) > 4:
            for i in range(len(case["points"])):
                yield {**case, "points": case["points"][:i] + case["points"][i + 1:]}
        if case["kind"] == "inversion" and len(case["objs"]) > 1:
            for i in range(len(case["objs"])):
                yield {**case, "objs": case["objs"][:i] + case["objs"][i + 1:]}
        if case["kind"] == "reuse":
            # (ownership histories are not shrunk: what they find is process-wide state, and in a process already
            #  polluted every shorter variant fails too — the replay would be a single read that a fresh process passes)
            steps = case["steps"]
            base = {k: v for k, v in case.items() if not k.startswith("_")}
            for i in range(len(steps) - 1, -1, -1):
                rest = steps[:i] + steps[i + 1:]
                if any(st["op"] == "eval" for st in rest):
                    yield {**base, "steps": rest}
            if len(case["worlds"]) > 1 and all(st.get("world", 0) == 0 for st in steps) \
                    and all(w.get("share_mesh_with") is None for w in case["worlds"]):
                yield {**base, "worlds": case["worlds"][:1]}
        if case["kind"] == "large":
            rec = case["recipe"]
            c = case.get("hint")
            if rec in ("rect", "delaunay", "mock"):
                t = case["t"]
                cands = [c + 1, c, c - 1] if c else [t * 3 // 4, t - 1]
                if case.get("lattice"):
                    lh, lw, sp_, asp = case["lattice"]
                    for a, b in ((lh - 1, lw), (lh, lw - 1), (lh * 3 // 4, lw), (lh, lw * 3 // 4)):
                        if a >= 5 and b >= 5 and (a, b) != (lh, lw):
                            yield {**case, "lattice": [a, b, sp_, asp], "t": a * b}
                    return
                for t2 in cands:
                    if 12 <= t2 < t:
                        if rec == "rect":
                            h, w = self._factor_near(t2, 1 if (c and t2 > c) else -1 if c else 1, False)
                            if h * w < t:
                                yield {**case, "mesh_shape": [h, w], "t": h * w}
                        else:
                            yield {**case, "t": t2}
            elif rec == "inversion" and len(case["sizes"]) > 2:
                n = len(case["sizes"])
                yield {**case, "sizes": case["sizes"][:n // 2]}
                yield {**case, "sizes": case["sizes"][n // 2:]}
                yield {**case, "sizes": case["sizes"][:-1]}

    def sample_view(self, case):
        return {k: v for k, v in case.items() if not k.startswith("_")}

    def theorems_for(self, case):
        kind = case["kind"]
        if kind == "inversion":
            return ["C07.linear_obj_without_scheme_zero_block", "C07.block_diag_entry", "C07.block_diag_quad",
                    "C07.no_regularization_index_list_spec", "C07.reduced_is_deletion", "C07.reduced_eq_block_diag",
                    "C07.reduced_symm_posdef", "C07.block_diag_posdef"]
        if kind == "signals":
            return ["C07.adaptive_scheme_uses_reported_weights", "C07.pixel_signals_accumulate_spec",
                    "C07.pixel_signals_spec", "C07.pixel_signals_in_unit_interval", "C07.adaptive_weights_spec",
                    "C07.adaptive_brightness_weights_pos"]
        if kind == "scheme" and case.get("source") == "delaunay" and case.get("scheme") in ("Constant", "ConstantZeroth"):
            return ["C07.delaunay_neighbors_wellformed", "C07.delaunay_constant_spec", "C07.constant_quad_pairs",
                    "C07.constant_posdef"]
        if kind == "rect_neighbors":
            return ["C07.rect_neighbors_wellformed", "C07.rect_pairs_are_adjacent_pixels", "C07.rect_constant_spec",
                    "C07.rect_constant_zeroth_spec", "C07.rect_weighted_spec", "C07.rect_adaptive_brightness_spec"]
        if kind == "history" or kind in READS_KINDS:
            return ["C07.linear_obj_without_scheme_zero_block", "C07.block_diag_entry", "C07.constant_quad_pairs",
                    "C07.weighted_quad_pairs"]
        if kind == "large" and case.get("recipe") in ("neighbors", "signals", "inversion"):
            return {"neighbors": ["C07.rect_neighbors_wellformed", "C07.rect_pairs_are_adjacent_pixels"],
                    "signals": ["C07.pixel_signals_spec", "C07.pixel_signals_in_unit_interval"],
                    "inversion": ["C07.block_diag_entry", "C07.no_regularization_index_list_spec",
                                  "C07.reduced_is_deletion"]}[case["recipe"]]
        name = case.get("scheme") or case.get("fn")
        if kind == "scheme" and case.get("source") == "rect":
            extra = {"Constant": ["C07.rect_constant_spec"], "ConstantZeroth": ["C07.rect_constant_zeroth_spec"],
                     "AdaptiveBrightness": ["C07.rect_weighted_spec", "C07.rect_adaptive_brightness_spec",
                                            "C07.pixel_signals_spec", "C07.adaptive_brightness_weights_pos"]}
            if name in extra:
                return extra[name] + ["C07.rect_neighbors_wellformed", "C07.rect_pairs_are_adjacent_pixels"]
        table = {
            "Constant": ["C07.constant_quad", "C07.constant_quad_pairs", "C07.constant_symm", "C07.constant_posdef"],
            "constant": ["C07.constant_quad"],
            "ConstantZeroth": ["C07.constant_zeroth_quad", "C07.constant_zeroth_posdef"],
            "constant_zeroth": ["C07.constant_zeroth_quad"],
            "Zeroth": ["C07.zeroth_quad", "C07.zeroth_psd"],
            "zeroth": ["C07.zeroth_quad"],
            "AdaptiveBrightness": ["C07.weighted_quad", "C07.weighted_quad_pairs", "C07.weighted_symm", "C07.weighted_posdef"],
            "weighted": ["C07.weighted_quad", "C07.weighted_symm", "C07.weighted_posdef"],
            "BrightnessZeroth": ["C07.brightness_zeroth_quad"],
            "brightness_zeroth": ["C07.brightness_zeroth_quad"],
            "ConstantSplit": ["C07.split_scheme_spec", "C07.split_quad", "C07.split_symm", "C07.split_posdef"],
            "AdaptiveBrightnessSplit": ["C07.split_scheme_spec", "C07.split_quad", "C07.split_symm", "C07.split_posdef"],
            "reg_split_from": ["C07.reg_split_from_rows", "C07.split_scheme_spec"],
            "pixel_splitted": ["C07.split_quad", "C07.split_posdef"],
            "GaussianKernel": ["C07.kernel_cov_entry", "C07.gaussian_kernel_cov_posdef", "C07.gaussian_kernel_reg_posdef"],
            "ExponentialKernel": ["C07.kernel_cov_symm", "C07.exponential_kernel_cov_posdef",
                                  "C07.exponential_kernel_reg_posdef"],
        }
        return table.get(name, ["C07.*"])


CHECK = C07()
