"""C07 — regularization matrices are symmetric PSD/PD with the stated quadratic form."""
from __future__ import annotations

import math
from fractions import Fraction

import numpy as np

import gen
from common import Cmp, PropertyCheck, Skip, load_autoarray, mask_json, mask_from_json, q, qlist, qmat

RIDGE = 1e-8  # the literal of the code; its exact double value is what the model is given
RIDGE2 = 2e-8

RATIONAL_SCHEMES = ["Constant", "ConstantZeroth", "Zeroth", "AdaptiveBrightness", "BrightnessZeroth"]
SPLIT_SCHEMES = ["ConstantSplit", "AdaptiveBrightnessSplit"]
KERNEL_SCHEMES = ["GaussianKernel", "ExponentialKernel"]
ALL_SCHEMES = RATIONAL_SCHEMES + SPLIT_SCHEMES + KERNEL_SCHEMES
PD_SCHEMES = {"Constant", "ConstantZeroth", "AdaptiveBrightness", "ConstantSplit",
              "AdaptiveBrightnessSplit", "GaussianKernel", "ExponentialKernel"}
SIGNAL_SCHEMES = {"AdaptiveBrightness", "BrightnessZeroth", "AdaptiveBrightnessSplit"}

EXACT_LDL_MAX = 14  # exact rational LDL^T up to this size, float Cholesky + eigvalsh above
COND_COMPARE_MAX = 1e4  # kernel schemes: model-vs-implementation comparison of inv() only below this
COND_ORACLE_MAX = 1e6  # kernel schemes: the float inverse is meaningless above this


def F(x):
    return Fraction(x) if not isinstance(x, Fraction) else x


def fl(s):
    return float(Fraction(s))


# ------------------------------------------------------------------------------------------------
# harness-side stand-ins for linear objects (only containers; no logic of the code under test)
# ------------------------------------------------------------------------------------------------
class _MeshGrid:
    """a source-plane mesh grid reduced to what the regularization schemes read from it"""

    def __init__(self, aa, points, neighbors, sizes):
        from autoarray.inversion.linear_obj.neighbors import Neighbors

        self._pts = (points if isinstance(points, np.ndarray) else np.array(points, dtype=float)).reshape(-1, 2)
        self.neighbors = Neighbors(arr=np.array(neighbors, dtype=int).reshape(len(sizes), -1),
                                   sizes=np.array(sizes, dtype=int))
        self.shape = self._pts.shape

    @property
    def pixels(self):
        return len(self.neighbors.sizes)

    def __array__(self, dtype=None, copy=None):
        return self._pts

    def __len__(self):
        return len(self._pts)


def _split_arrays(sp):
    return (np.array(sp["mappings"], dtype=int), np.array(sp["sizes"], dtype=int),
            np.array([[fl(v) for v in r] for r in sp["weights"]], dtype=float))


def _mock_mapper(aa, mock, regularization=None):
    from autoarray.inversion.pixelization.mappers.abstract import PixSubWeights

    n = mock["params"]
    pts = [[fl(a), fl(b)] for a, b in mock.get("points", [["0", "0"]] * n)]
    as_int = bool(mock.get("int_inputs"))
    if as_int and all(float(v).is_integer() for r in pts for v in r):
        pts = np.array([[int(a), int(b)] for a, b in pts], dtype=np.int64).reshape(-1, 2)
    width = max([len(r) for r in mock["neighbors"]] + [1])
    nbrs = [list(r) + [-1] * (width - len(r)) for r in mock["neighbors"]]
    mesh = _MeshGrid(aa, pts, nbrs if n else np.zeros((0, 1)), mock["sizes"])
    psw = None
    if mock.get("split"):
        m, s, w = _split_arrays(mock["split"])
        psw = PixSubWeights(mappings=m, sizes=s, weights=w)
    sig = np.array([fl(v) for v in mock["signals"]]) if mock.get("signals") is not None else None
    if sig is not None and as_int and all(float(v).is_integer() for v in sig):
        sig = sig.astype(np.int64)
    return aa.m.MockMapper(source_plane_mesh_grid=mesh, pixel_signals=sig,
                           pix_sub_weights_split_cross=psw, regularization=regularization)


def _typed(v, how):
    """the same real number handed over as a Python float / int / numpy scalar"""
    f = Fraction(v)
    if how == "int" and f.denominator == 1:
        return int(f)
    if how == "np32" and Fraction(float(np.float32(float(f)))) == f:
        return np.float32(float(f))
    if how == "np64":
        return np.float64(float(f))
    return float(f)


DEFAULT_ARGS = {"Constant": ["1"], "ConstantZeroth": ["1", "1"], "Zeroth": ["1"], "AdaptiveBrightness": ["1", "1"],
                "BrightnessZeroth": ["1"], "ConstantSplit": ["1"], "AdaptiveBrightnessSplit": ["1", "1"]}


def _make_scheme(aa, name, args, signal_scale, how="float", defaults=False):
    if defaults and name in DEFAULT_ARGS:
        # constructor defaults (every coefficient and the signal scale default to 1.0)
        return getattr(aa.reg, name)()
    a = [_typed(v, how) for v in args]
    ss = _typed(signal_scale, how) if signal_scale is not None else 1.0
    if name == "Constant":
        return aa.reg.Constant(coefficient=a[0])
    if name == "ConstantZeroth":
        return aa.reg.ConstantZeroth(coefficient_neighbor=a[0], coefficient_zeroth=a[1])
    if name == "Zeroth":
        return aa.reg.Zeroth(coefficient=a[0])
    if name == "AdaptiveBrightness":
        return aa.reg.AdaptiveBrightness(inner_coefficient=a[0], outer_coefficient=a[1], signal_scale=ss)
    if name == "BrightnessZeroth":
        return aa.reg.BrightnessZeroth(coefficient=a[0], signal_scale=ss)
    if name == "ConstantSplit":
        return aa.reg.ConstantSplit(coefficient=a[0])
    if name == "AdaptiveBrightnessSplit":
        return aa.reg.AdaptiveBrightnessSplit(inner_coefficient=a[0], outer_coefficient=a[1], signal_scale=ss)
    if name == "GaussianKernel":
        return aa.reg.GaussianKernel(coefficient=a[0], scale=a[1])
    if name == "ExponentialKernel":
        return aa.reg.ExponentialKernel(coefficient=a[0], scale=a[1])
    raise ValueError(name)


def _real_mapper(aa, case):
    """a real MapperRectangular / MapperDelaunay built through the public classes"""
    m = mask_from_json(case["mask"])
    scales = (fl(case["scales"][0]), fl(case["scales"][1]))
    origin = (fl(case["origin"][0]), fl(case["origin"][1]))
    mask = aa.Mask2D(mask=m, pixel_scales=scales, origin=origin)
    osamp = aa.OverSamplerUniform(mask=mask, sub_size=case["sub"])
    grid = osamp.over_sampled_grid
    ad = [Fraction(v) for v in case["adapt"]]
    if all(v.denominator == 1 for v in ad) and case.get("int_inputs"):
        adapt_vals = [int(v) for v in ad]  # plain Python ints
    else:
        adapt_vals = np.array([float(v) for v in ad])
    adapt = aa.Array2D(values=adapt_vals, mask=mask)
    route = case.get("route", "direct")
    if case["source"] == "rect":
        if route == "mesh":
            # the pixelization route: aa.mesh.Rectangular(...).mapper_grids_from + the aa.Mapper factory
            mg = aa.mesh.Rectangular(shape=tuple(case["mesh_shape"])).mapper_grids_from(
                mask=mask, source_plane_data_grid=grid, adapt_data=adapt)
            return aa.Mapper(mapper_grids=mg, regularization=None, over_sampler=osamp)
        mesh = aa.Mesh2DRectangular.overlay_grid(grid=grid, shape_native=tuple(case["mesh_shape"]))
        cls = aa.MapperRectangular
    else:
        P = [[Fraction(a), Fraction(b)] for a, b in case["points"]]
        integral = all(v.denominator == 1 for r in P for v in r)
        cont = case.get("container", "ndarray")
        if integral and case.get("int_inputs"):
            rows = [[int(a), int(b)] for a, b in P]
            pts = {"list": rows, "tuple": tuple(tuple(r) for r in rows),
                   "ndarray": np.array(rows, dtype=np.int64)}.get(cont, np.array(rows, dtype=np.int64))
        else:
            rows = [[float(a), float(b)] for a, b in P]
            pts = {"list": rows, "tuple": tuple(tuple(r) for r in rows), "ndarray": np.array(rows),
                   "irregular": aa.Grid2DIrregular(values=rows)}.get(cont, np.array(rows))
        if route == "mesh":
            mg = aa.mesh.Delaunay().mapper_grids_from(
                mask=mask, source_plane_data_grid=grid,
                source_plane_mesh_grid=aa.Grid2DIrregular(values=rows), adapt_data=adapt)
            return aa.Mapper(mapper_grids=mg, regularization=None, over_sampler=osamp)
        mesh = aa.Mesh2DDelaunay(values=pts)
        cls = aa.MapperDelaunay
    mg = aa.MapperGrids(mask=mask, source_plane_data_grid=grid, source_plane_mesh_grid=mesh,
                        image_plane_mesh_grid=None, adapt_data=adapt)
    return cls(mapper_grids=mg, over_sampler=osamp, border_relocator=None, regularization=None)


def _tables_of(mapper, name, signal_scale, want_split):
    """the linear-object tables a scheme reads — inputs of the model (not constrained by C07)"""
    mesh = mapper.source_plane_mesh_grid
    nb = mesh.neighbors
    t = {
        "params": int(mapper.params),
        "neighbors": [[int(v) for v in r] for r in np.asarray(nb)],
        "sizes": [int(v) for v in nb.sizes],
        "points": [qlist(p) for p in np.array(mesh).reshape(-1, 2)],
    }
    if name in SIGNAL_SCHEMES:
        t["signals"] = qlist(mapper.pixel_signals_from(signal_scale=fl(signal_scale)))
    if want_split:
        sp = mapper.pix_sub_weights_split_cross
        t["split"] = {"mappings": [[int(v) for v in r] for r in sp.mappings],
                      "sizes": [int(v) for v in sp.sizes], "weights": qmat(sp.weights)}
    return t


def _mapper_signal_tables(mapper, signal_scale):
    """the arguments `AbstractMapper.pixel_signals_from` hands to `adaptive_pixel_signals_from`"""
    ad = mapper.adapt_data
    return {
        "pixels": int(mapper.pixels),
        "pixel_weights": qmat(np.asarray(mapper.pix_weights_for_sub_slim_index)),
        "pix_indexes": [[int(v) for v in r] for r in np.asarray(mapper.pix_indexes_for_sub_slim_index)],
        "pix_sizes": [int(v) for v in np.asarray(mapper.pix_sizes_for_sub_slim_index)],
        "slim_for_sub": [int(v) for v in np.asarray(mapper.over_sampler.slim_for_sub_slim)],
        "adapt_data": qlist(np.asarray(ad.array if hasattr(ad, "array") else ad)),
        "signal_scale": q(Fraction(signal_scale)),
    }


def _closed_obj(mapper, case, name, tables, signal_scale):
    """the linear object with every table the model can compute itself left out: a rectangular mesh is
    given by its shape only (the model runs its own `rectangular_neighbors_from`), a Delaunay mesh by scipy's
    CSR pair (the model runs its own `Mesh2DDelaunay.neighbors`), the pixel signals by the mapper tables +
    adapt image (the model runs its own `adaptive_pixel_signals_from`)"""
    rect = case["source"] == "rect"
    c = {"params": tables["params"], "points": tables["points"]}
    if rect:
        c["mesh_shape"] = [int(v) for v in case["mesh_shape"]]
    else:
        # Delaunay: scipy's CSR pair is the input (Qhull is not modelled), the table is the model's own
        indptr, indices = mapper.source_plane_mesh_grid.delaunay.vertex_neighbor_vertices
        c["csr"] = {"indptr": [int(v) for v in indptr], "indices": [int(v) for v in indices]}
    if name in SIGNAL_SCHEMES:
        c["mapper"] = _mapper_signal_tables(mapper, signal_scale)
    if "split" in tables:
        c["split"] = tables["split"]
    return c


# ------------------------------------------------------------------------------------------------
# exact linear algebra for the oracle
# ------------------------------------------------------------------------------------------------
def ldl_min_pivot(H):
    """smallest pivot of the exact LDL^T of a symmetric rational matrix without pivoting; a
    symmetric matrix is PD iff all pivots are > 0.  Returns None when a non-positive pivot appears."""
    n = len(H)
    A = [row[:] for row in H]
    mn = None
    for k in range(n):
        p = A[k][k]
        if p <= 0:
            return None
        mn = p if mn is None else min(mn, p)
        for i in range(k + 1, n):
            if A[i][k] != 0:
                f = A[i][k] / p
                for j in range(k + 1, n):
                    A[i][j] -= f * A[k][j]
    return mn if mn is not None else Fraction(1)


def quad(H, x):
    n = len(x)
    return sum(x[i] * H[i][j] * x[j] for i in range(n) for j in range(n))


def quad_abs(H, x):
    n = len(x)
    return sum(abs(x[i] * H[i][j] * x[j]) for i in range(n) for j in range(n))


def test_vectors(rng_seed, n):
    import random

    r = random.Random(rng_seed)
    vs = [[Fraction(1)] * n]
    for i in range(min(n, 6)):
        e = [Fraction(0)] * n
        e[(i * 7) % n] = Fraction(1)
        vs.append(e)
    for _ in range(3):
        vs.append([Fraction(r.randint(-3, 3)) for _ in range(n)])
    vs.append([Fraction((-1) ** i * (i + 1)) for i in range(n)])
    return vs


class C07(PropertyCheck):
    pid = "C07"
    title = "regularization matrices"
    rtol = Fraction(1, 10 ** 9)
    nontrivial_rule = (
        "a scheme case is non-trivial when the linear object has >= 2 parameters and (for neighbour / split "
        "schemes) at least one neighbour pair or cross row touching another pixel; block cases when >= 2 "
        "objects; history cases when at least two different scheme settings occur; distinct = distinct "
        "(scheme, coefficients, tables, history)")
    exhaustive_note = {
        "quick": "every rectangular mesh shape 3..6 x 3..6 (real Mesh2DRectangular neighbour tables) under each of the 7 non-split schemes; rectangular_neighbors_from / Mesh2DRectangular.neighbors on every shape 2..10 x 2..10",
        "thorough": "every rectangular mesh shape 3..9 x 3..9 (real Mesh2DRectangular neighbour tables) under each of the 7 non-split schemes; rectangular_neighbors_from / Mesh2DRectangular.neighbors on every shape 2..18 x 2..18",
    }
    # loop ties (DESIGN §12): regenerated from the source on every run, tie theorems proved for all sizes
    loop_tie_modules = ["LoopsReg"]
    modelled_functions = [
        "autoarray/inversion/regularization/regularization_util.py:zeroth_regularization_matrix_from",
        "autoarray/inversion/regularization/regularization_util.py:constant_regularization_matrix_from",
        "autoarray/inversion/regularization/regularization_util.py:constant_zeroth_regularization_matrix_from",
        "autoarray/inversion/regularization/regularization_util.py:adaptive_regularization_weights_from",
        "autoarray/inversion/regularization/regularization_util.py:brightness_zeroth_regularization_weights_from",
        "autoarray/inversion/regularization/regularization_util.py:weighted_regularization_matrix_from",
        "autoarray/inversion/regularization/regularization_util.py:brightness_zeroth_regularization_matrix_from",
        "autoarray/inversion/regularization/regularization_util.py:reg_split_from",
        "autoarray/inversion/regularization/regularization_util.py:pixel_splitted_regularization_matrix_from",
        "autoarray/inversion/regularization/constant.py:Constant.__init__",
        "autoarray/inversion/regularization/constant.py:Constant.regularization_weights_from",
        "autoarray/inversion/regularization/constant.py:Constant.regularization_matrix_from",
        "autoarray/inversion/regularization/constant_zeroth.py:ConstantZeroth.__init__",
        "autoarray/inversion/regularization/constant_zeroth.py:ConstantZeroth.regularization_weights_from",
        "autoarray/inversion/regularization/constant_zeroth.py:ConstantZeroth.regularization_matrix_from",
        "autoarray/inversion/regularization/zeroth.py:Zeroth.__init__",
        "autoarray/inversion/regularization/zeroth.py:Zeroth.regularization_weights_from",
        "autoarray/inversion/regularization/zeroth.py:Zeroth.regularization_matrix_from",
        "autoarray/inversion/regularization/adaptive_brightness.py:AdaptiveBrightness.__init__",
        "autoarray/inversion/regularization/adaptive_brightness.py:AdaptiveBrightness.regularization_weights_from",
        "autoarray/inversion/regularization/adaptive_brightness.py:AdaptiveBrightness.regularization_matrix_from",
        "autoarray/inversion/regularization/brightness_zeroth.py:BrightnessZeroth.__init__",
        "autoarray/inversion/regularization/brightness_zeroth.py:BrightnessZeroth.regularization_weights_from",
        "autoarray/inversion/regularization/brightness_zeroth.py:BrightnessZeroth.regularization_matrix_from",
        "autoarray/inversion/regularization/constant_split.py:ConstantSplit.__init__",
        "autoarray/inversion/regularization/constant_split.py:ConstantSplit.regularization_matrix_from",
        "autoarray/inversion/regularization/adaptive_brightness_split.py:AdaptiveBrightnessSplit.__init__",
        "autoarray/inversion/regularization/adaptive_brightness_split.py:AdaptiveBrightnessSplit.regularization_matrix_from",
        "autoarray/inversion/regularization/gaussian_kernel.py:gauss_cov_matrix_from",
        "autoarray/inversion/regularization/gaussian_kernel.py:GaussianKernel.__init__",
        "autoarray/inversion/regularization/gaussian_kernel.py:GaussianKernel.regularization_weights_from",
        "autoarray/inversion/regularization/gaussian_kernel.py:GaussianKernel.regularization_matrix_from",
        "autoarray/inversion/regularization/exponential_kernel.py:exp_cov_matrix_from",
        "autoarray/inversion/regularization/exponential_kernel.py:ExponentialKernel.__init__",
        "autoarray/inversion/regularization/exponential_kernel.py:ExponentialKernel.regularization_weights_from",
        "autoarray/inversion/regularization/exponential_kernel.py:ExponentialKernel.regularization_matrix_from",
        "autoarray/inversion/regularization/abstract.py:AbstractRegularization.__init__",
        "autoarray/inversion/pixelization/mappers/mapper_util.py:adaptive_pixel_signals_from",
        "autoarray/inversion/pixelization/mappers/abstract.py:AbstractMapper.pixel_signals_from",
        "autoarray/inversion/pixelization/mappers/abstract.py:AbstractMapper.params",
        "autoarray/inversion/pixelization/mappers/abstract.py:AbstractMapper.neighbors",
        "autoarray/inversion/pixelization/mappers/abstract.py:AbstractMapper.pix_indexes_for_sub_slim_index",
        "autoarray/inversion/pixelization/mappers/abstract.py:AbstractMapper.pix_sizes_for_sub_slim_index",
        "autoarray/inversion/pixelization/mappers/abstract.py:AbstractMapper.pix_weights_for_sub_slim_index",
        "autoarray/inversion/pixelization/mappers/delaunay.py:MapperDelaunay.pix_sub_weights_split_cross",
        "autoarray/inversion/linear_obj/linear_obj.py:LinearObj.__init__",
        "autoarray/inversion/linear_obj/linear_obj.py:LinearObj.regularization_matrix",
        "autoarray/inversion/linear_obj/neighbors.py:Neighbors.__new__",
        "autoarray/inversion/inversion/abstract.py:AbstractInversion.regularization_matrix",
        "autoarray/inversion/inversion/abstract.py:AbstractInversion.regularization_matrix_reduced",
        "autoarray/inversion/inversion/abstract.py:AbstractInversion.no_regularization_index_list",
        "autoarray/inversion/inversion/abstract.py:AbstractInversion.all_linear_obj_have_regularization",
        "autoarray/inversion/inversion/abstract.py:AbstractInversion.regularization_list",
        "autoarray/inversion/inversion/abstract.py:AbstractInversion.param_range_list_from",
        "autoarray/inversion/inversion/abstract.py:AbstractInversion.total_params",
        "autoarray/structures/mesh/rectangular_2d.py:Mesh2DRectangular.neighbors",
        "autoarray/structures/mesh/delaunay_2d.py:Mesh2DDelaunay.neighbors",
        "autoarray/structures/mesh/triangulation_2d.py:Abstract2DMeshTriangulation.split_cross",
        "autoarray/inversion/pixelization/mesh/mesh_util.py:rectangular_neighbors_from",
        "autoarray/inversion/pixelization/mesh/mesh_util.py:rectangular_corner_neighbors",
        "autoarray/inversion/pixelization/mesh/mesh_util.py:rectangular_top_edge_neighbors",
        "autoarray/inversion/pixelization/mesh/mesh_util.py:rectangular_left_edge_neighbors",
        "autoarray/inversion/pixelization/mesh/mesh_util.py:rectangular_right_edge_neighbors",
        "autoarray/inversion/pixelization/mesh/mesh_util.py:rectangular_bottom_edge_neighbors",
        "autoarray/inversion/pixelization/mesh/mesh_util.py:rectangular_central_neighbors",
    ]
    trusted_extra = [
        "numpy.linalg.inv (contract C·inv(C) = I; checked per case against an exact rational inverse / residual)",
        "numpy/libm sqrt, exp of the kernel schemes (parameters of the model; driver uses Float.sqrt/exp, 1e-9)",
        "positive-definiteness of both kernel matrices is proved over the reals (exact arithmetic); additionally tested "
        "per case by exact rational LDL^T (n <= 14) or float Cholesky of the implementation's covariance matrix",
        "scipy.linalg.block_diag, numpy.delete (modelled by Spec.blockDiag / Spec.deleteIdx; compared per case)",
        "scipy.spatial.Delaunay.vertex_neighbor_vertices (Qhull) is an input of the model; its contract (CSR slices = "
        "edge relation of `simplices`, the hypothesis of C07.delaunay_neighbors_wellformed) is checked exactly per case; "
        "the Delaunay table built from it and the rectangular tables are the model's own "
        "(Impl.rectNeighbors, proved to be the 4-connectivity) and compared with the code on every shape",
        "`** signal_scale` in adaptive_pixel_signals_from: exact rational power for natural-number scales, numpy's "
        "double-precision power (Float.pow on the exactly computed normalised mean) otherwise; the theorems need "
        "only that it maps [0,1] into [0,1] and fixes 1 (discharged for Real.rpow with exponent >= 0)",
    ]
    assumptions = [
        "theorems are over an exact ordered field; IEEE rounding is outside them (tolerances 1e-12 rational schemes, 1e-9 float)",
        "PD theorems for Constant/ConstantZeroth need a symmetric in-range neighbour table: proved for every rectangular "
        "mesh (C07.rect_*), a checked hypothesis for Delaunay meshes (Qhull's contract)",
        "the content theorem of adaptive_pixel_signals_from needs well-formed mapper tables (valid indices, a triangle's "
        "vertices distinct, as many weights as vertices); its range theorem needs none",
        "split-cross theorems need well-formed cross-point tables (4 rows per pixel, rows non-empty and not full) with "
        "non-negative, in-range, pairwise distinct pixel indices per row (true of Delaunay simplices; checked per case)",
        "the model of LinearObj.regularization_matrix is a pure function of the object's current scheme; histories "
        "(copy + re-assignment) check that the implementation has no memory either",
    ]

    # ------------------------------------------------------------------ generation helpers
    def _coef(self, rng, lo_bits=3):
        return gen.pos_dyadic(rng, 1, 4, lo_bits)

    def _scheme_args(self, rng, name):
        if name in ("Constant", "Zeroth", "ConstantSplit"):
            return [q(self._coef(rng))], None
        if name == "ConstantZeroth":
            return [q(self._coef(rng)), q(self._coef(rng))], None
        if name in ("AdaptiveBrightness", "AdaptiveBrightnessSplit"):
            return [q(self._coef(rng)), q(self._coef(rng))], q(rng.choice([1, 1, 2, 3, Fraction(1, 2), Fraction(3, 2)]))
        if name == "BrightnessZeroth":
            return [q(self._coef(rng))], q(rng.choice([1, 2, Fraction(1, 2)]))
        # kernels: (coefficient, scale factor relative to the smallest point separation; resolved in run_impl)
        return [q(self._coef(rng)), q(rng.choice([Fraction(1, 2), Fraction(3, 4), 1, Fraction(5, 4)]))], None

    def _data_frame(self, rng, big=False):
        """mask + anisotropic scales + off-centre origin + positive adapt image + sub size"""
        h, w = rng.randint(3, 6 if big else 5), rng.randint(3, 6 if big else 5)
        m, kind = gen.random_mask(rng, h, w, kind=rng.choice(["all", "block", "annulus", "cross", "bernoulli", "blocks"]))
        if rng.random() < 0.06:  # exactly one unmasked pixel
            m = gen.full(h, w, True)
            m[rng.randrange(h)][rng.randrange(w)] = False
        n_un = sum(1 for r in m for b in r if not b)
        sy, sx = gen.scales_pair(rng)
        oy, ox = gen.origin_pair(rng)
        int_inputs = rng.random() < 0.2
        if int_inputs:  # integer-valued adapt image, handed over as plain Python ints
            adapt = [q(rng.randint(1, 9)) for _ in range(n_un)]
            frame_extra = {"int_inputs": True}
        else:
            adapt = [q(gen.pos_dyadic(rng, 1, 8, 2)) for _ in range(n_un)]
            frame_extra = {}
        if rng.random() < 0.2:  # zeros in the adapt image (still non-negative, max > 0)
            for i in range(0, n_un, 3):
                adapt[i] = "0"
            adapt[min(1, n_un - 1)] = "3"
        return {"mask": mask_json(m), "scales": [q(sy), q(sx)], "origin": [q(oy), q(ox)],
                "adapt": adapt, "sub": rng.choice([1, 1, 2]), **frame_extra}

    def _harden(self, rng, c, kernel=False):
        """round-3 axes: argument dtype / container, set-but-falsy values, constructor defaults,
        alternative construction routes (same real inputs, so model and oracle are untouched)"""
        r = rng.random()
        if r < 0.25 and c.get("scheme") is not None:
            # integer-valued coefficients, including 0 (not for kernels: the property wants them positive)
            lo = 1 if kernel else 0
            nargs = len(c["args"]) - (1 if kernel else 0)
            c["args"] = [q(rng.randint(lo, 3)) for _ in range(nargs)] + (c["args"][-1:] if kernel else [])
            c["arg_type"] = rng.choice(["int", "int", "np64", "float"])
            if c.get("signal_scale") is not None and rng.random() < 0.5:
                c["signal_scale"] = q(rng.choice([0, 1, 2]))
        elif r < 0.4:
            c["arg_type"] = rng.choice(["np32", "np64"])
        elif r < 0.48 and c.get("scheme") in DEFAULT_ARGS:
            c["defaults"] = True
            c["args"] = list(DEFAULT_ARGS[c["scheme"]])
            if c.get("signal_scale") is not None:
                c["signal_scale"] = "1"
        if c.get("source") in ("rect", "delaunay"):
            if rng.random() < 0.25:
                c["route"] = "mesh"
            # Mesh2DDelaunay documents `Union[np.ndarray, List]`; a tuple of tuples is rejected by the clean code
            c["container"] = rng.choice(["ndarray", "ndarray", "list", "list", "irregular"])
        return c

    def _delaunay_points(self, rng, n, integral=False):
        seen = set()
        pts = []
        while len(pts) < n:
            if integral:
                p = (Fraction(rng.randint(-6, 6)), Fraction(rng.randint(-6, 6)))
            else:
                p = (gen.dyadic(rng, -3, 3, 4), gen.dyadic(rng, -3, 3, 4))
            if p in seen:
                continue
            seen.add(p)
            pts.append(p)
        return [[q(a), q(b)] for a, b in pts]

    def _mock_graph(self, rng, n, symmetric=True, multi=False):
        adj = [[] for _ in range(n)]
        p = rng.choice([0.2, 0.4, 0.7])
        for i in range(n):
            for j in range(i + 1, n):
                if rng.random() < p:
                    k = 2 if (multi and rng.random() < 0.2) else 1
                    for _ in range(k):
                        adj[i].append(j)
                        adj[j].append(i)
        if not symmetric:
            for _ in range(rng.randint(1, max(1, n))):
                i = rng.randrange(n)
                if adj[i] and rng.random() < 0.6:
                    adj[i].pop(rng.randrange(len(adj[i])))
                else:
                    j = rng.randrange(n)
                    if j != i:
                        adj[i].append(j)
        for a in adj:
            rng.shuffle(a)
        sizes = [len(a) for a in adj]
        width = max(sizes + [1]) + rng.randint(0, 1)
        return [a + [-1] * (width - len(a)) for a in adj], sizes

    def _mock_split(self, rng, n, width=4, allow_exception=False, allow_empty=False):
        """cross-point tables with dyadic weights: 4 rows per pixel, distinct indices per row"""
        mappings, sizes, weights = [], [], []
        for k in range(4 * n):
            pix = k // 4
            sz = rng.randint(1, min(width - 1, n, 3))
            if allow_exception and rng.random() < 0.15:
                sz = min(width, n)
            if allow_empty and k > 0 and rng.random() < 0.15:
                sz = 0
            idx = rng.sample(range(n), sz)
            if rng.random() < 0.3 and sz and pix not in idx:
                idx[rng.randrange(sz)] = pix
            # weights: non-negative dyadics summing to 1 (as barycentric weights do), some zeros
            ws = [Fraction(rng.randint(0, 8), 8) for _ in range(sz)]
            if sz:
                tot = sum(ws[:-1])
                ws[-1] = 1 - tot if tot <= 1 else Fraction(rng.randint(0, 8), 8)
            mappings.append(idx + [-1] * (width - sz))
            sizes.append(sz)
            weights.append(qlist(ws + [Fraction(0)] * (width - sz)))
        return {"mappings": mappings, "sizes": sizes, "weights": weights}

    def _mock_obj(self, rng, n, symmetric=True, with_split=False, multi=False):
        nb, sizes = self._mock_graph(rng, n, symmetric, multi)
        sig = [Fraction(rng.randint(0, 16), 16) for _ in range(n)]
        sig[rng.randrange(n)] = Fraction(1)
        pts = self._delaunay_points(rng, n)
        o = {"params": n, "neighbors": nb, "sizes": sizes, "signals": qlist(sig), "points": pts}
        if rng.random() < 0.2:  # integer dtype: 0/1 signals and integer mesh points as int64 arrays
            sig = [Fraction(rng.randint(0, 1)) for _ in range(n)]
            sig[rng.randrange(n)] = Fraction(1)
            o.update({"signals": qlist(sig), "points": self._delaunay_points(rng, n, integral=True),
                      "int_inputs": True})
        if with_split:
            o["split"] = self._mock_split(rng, n)
        return o

    # ------------------------------------------------------------------ generation
    def generate(self, tier, rng):
        quick = tier == "quick"
        # 0. rectangular_neighbors_from / Mesh2DRectangular.neighbors on every shape (exhaustive, seed-independent);
        #    shapes with a side of 2 go through the util function only (aa.mesh.Rectangular wants >= 3)
        top = 10 if quick else 18
        for mh in range(2, top + 1):
            for mw in range(2, top + 1):
                yield {"tag": "rect_neighbors", "kind": "rect_neighbors", "shape": [mh, mw]}
        # 1. every rectangular mesh shape x the 7 schemes a rectangular mapper supports (exhaustive in shape)
        hi = 6 if quick else 9
        for mh in range(3, hi + 1):
            for mw in range(3, hi + 1):
                frame = self._data_frame(rng)
                for name in RATIONAL_SCHEMES + KERNEL_SCHEMES:
                    if name in KERNEL_SCHEMES and mh * mw > (25 if quick else 49):
                        continue
                    args, ss = self._scheme_args(rng, name)
                    yield self._harden(rng, {"tag": f"rect_{name}", "kind": "scheme", "source": "rect", "scheme": name,
                                             "args": args, "signal_scale": ss, "mesh_shape": [mh, mw], **frame},
                                       kernel=name in KERNEL_SCHEMES)
        # 2. Delaunay vertex sets x all nine schemes
        for _ in range(30 if quick else 200):
            n = rng.randint(4, 9 if quick else 16)
            integral = rng.random() < 0.25
            pts = self._delaunay_points(rng, n, integral=integral)
            frame = self._data_frame(rng, big=True)
            if integral:
                frame["int_inputs"] = True
            for name in ALL_SCHEMES:
                args, ss = self._scheme_args(rng, name)
                yield self._harden(rng, {"tag": f"delaunay{'_int' if integral else ''}_{name}", "kind": "scheme",
                                         "source": "delaunay", "scheme": name, "args": args, "signal_scale": ss,
                                         "points": pts, **frame}, kernel=name in KERNEL_SCHEMES)
        # 3. mock linear objects: dyadic tables (exact comparison), odd graphs, split tables
        for _ in range(160 if quick else 1200):
            n = rng.randint(1, 8)
            r = rng.random()
            sym = r < 0.7
            name = rng.choice(RATIONAL_SCHEMES + SPLIT_SCHEMES + (["ExponentialKernel"] if n > 1 else []))
            mock = self._mock_obj(rng, n, symmetric=sym, with_split=name in SPLIT_SCHEMES, multi=rng.random() < 0.3)
            args, ss = self._scheme_args(rng, name)
            yield self._harden(rng, {"tag": f"mock_{'sym' if sym else 'asym'}_{name}", "kind": "scheme",
                                     "source": "mock", "scheme": name, "args": args, "signal_scale": ss,
                                     "mock": mock, "symmetric": sym}, kernel=name in KERNEL_SCHEMES)
        # 4. the util functions called directly (incl. reg_split_from exception / stale-j paths, signals)
        for _ in range(100 if quick else 800):
            n = rng.randint(1, 6)
            fn = rng.choice(["reg_split_from", "reg_split_from", "pixel_splitted", "constant", "weighted",
                             "constant_zeroth", "zeroth", "brightness_zeroth"])
            c = {"tag": f"util_{fn}", "kind": "util", "fn": fn, "n": n}
            if fn in ("reg_split_from", "pixel_splitted"):
                width = rng.choice([2, 3, 4, 4, 5])
                c["split"] = self._mock_split(rng, n, width=width, allow_exception=fn == "reg_split_from",
                                              allow_empty=fn == "reg_split_from" and rng.random() < 0.4)
                c["weights"] = qlist([self._coef(rng) for _ in range(n)])
            else:
                nb, sizes = self._mock_graph(rng, n, symmetric=rng.random() < 0.5, multi=True)
                c["neighbors"], c["sizes"] = nb, sizes
                c["coefficient"] = q(self._coef(rng))
                c["coefficient_zeroth"] = q(self._coef(rng))
                c["weights"] = qlist([gen.dyadic(rng, -3, 3, 3) for _ in range(n)])  # signed: squares anyway
                r = rng.random()
                if r < 0.2:   # integer dtype arrays / integer coefficient (0 included)
                    c["weights"] = qlist([rng.randint(-3, 3) for _ in range(n)])
                    c["coefficient"] = q(rng.randint(0, 3))
                    c["coefficient_zeroth"] = q(rng.randint(0, 3))
                    c["dtype"] = "int"
                elif r < 0.35:
                    c["dtype"] = "float32"
            yield c
        # 5. pixel signals: real mappers (integer scale -> exact model) and direct util calls
        for _ in range(24 if quick else 200):
            frame = self._data_frame(rng, big=True)
            scale = rng.choice([1, 1, 2, 3, 0, Fraction(1, 2), Fraction(3, 2)])
            if rng.random() < 0.5:
                yield {"tag": "signals_rect", "kind": "signals", "source": "rect",
                       "mesh_shape": [rng.randint(3, 5), rng.randint(3, 5)], "signal_scale": q(scale), **frame}
            else:
                integral = rng.random() < 0.3
                if integral:
                    frame["int_inputs"] = True
                yield {"tag": "signals_delaunay" + ("_int" if integral else ""), "kind": "signals",
                       "source": "delaunay", "points": self._delaunay_points(rng, rng.randint(4, 9), integral),
                       "signal_scale": q(scale), "container": rng.choice(["ndarray", "list", "irregular"]),
                       "route": rng.choice(["direct", "direct", "mesh"]), **frame}
        # 7. histories on ONE linear object: read the block, copy.copy / re-assign `regularization`
        #    (another scheme, another coefficient, None), read again — the block must be the CURRENT scheme's
        hist_schemes = ["Constant", "Constant", "AdaptiveBrightness", "ConstantZeroth", "Zeroth",
                        "BrightnessZeroth", None, None]
        for _ in range(50 if quick else 400):
            # a small pool of scheme specifications per case: steps draw from it, so the same scheme
            # *instance* recurs (on copies of the object, and on the second object)
            pool = []
            for name in rng.sample(hist_schemes[:6], 2) + [rng.choice(hist_schemes)]:
                if name is None:
                    pool.append({"scheme": None, "args": [], "signal_scale": None})
                else:
                    args, ss = self._scheme_args(rng, name)
                    pool.append({"scheme": name, "args": args, "signal_scale": ss})
            steps = []
            for k in range(rng.randint(2, 5)):
                sp = dict(rng.choice(pool))
                if k > 0 and sp["scheme"] is None and steps[-1]["scheme"] is None:
                    sp = dict(pool[0])
                sp["copy"] = rng.random() < 0.6
                steps.append(sp)
            for sp in pool:
                if sp["scheme"] is not None and rng.random() < 0.3:
                    sp["arg_type"] = rng.choice(["int", "np32", "np64"])
            for st in steps:
                for sp in pool:
                    if sp["scheme"] == st["scheme"] and sp["args"] == st["args"] and "arg_type" in sp:
                        st["arg_type"] = sp["arg_type"]
            c = {"kind": "history", "steps": steps, "extra": rng.randint(1, 2), "extra_first": rng.random() < 0.5}
            if rng.random() < 0.6:
                n = rng.randint(2, 6)
                c.update({"tag": "history_mock", "source": "mock", "mock": self._mock_obj(rng, n, True, False)})
                if rng.random() < 0.5:
                    # a second, different linear object: the same scheme *instances* are re-used across both
                    c["tag"] = "history_mock_two_objects"
                    c["mock2"] = self._mock_obj(rng, rng.randint(2, 6), True, False)
                    for st in steps:
                        st["obj"] = rng.randint(0, 1)
                    # one object-dependent scheme instance is used on one object and later on the other
                    name = rng.choice(["AdaptiveBrightness", "AdaptiveBrightness", "BrightnessZeroth", "Constant",
                                       "ConstantZeroth"])
                    args, ss = self._scheme_args(rng, name)
                    a = rng.randint(0, 1)
                    first = {"scheme": name, "args": args, "signal_scale": ss, "copy": False, "obj": a}
                    second = {"scheme": name, "args": args, "signal_scale": ss, "copy": rng.random() < 0.5, "obj": 1 - a}
                    pos = rng.randint(0, len(steps))
                    steps[:] = [first] + steps[:pos] + [second] + steps[pos:]
            else:
                c.update({"tag": "history_rect", "source": "rect",
                          "mesh_shape": [rng.randint(3, 4), rng.randint(3, 4)], **self._data_frame(rng)})
            yield c
        # 6. block-diagonal assembly over linear objects
        for _ in range(80 if quick else 600):
            k = rng.randint(1, 4)
            objs = []
            for _ in range(k):
                r = rng.random()
                if r < 0.35:
                    objs.append({"type": "linear_obj", "params": rng.randint(1, 3)})
                else:
                    n = rng.randint(1, 4)
                    name = rng.choice(RATIONAL_SCHEMES + SPLIT_SCHEMES)
                    args, ss = self._scheme_args(rng, name)
                    objs.append(self._harden(rng, {"type": "mapper", "params": n, "scheme": name, "args": args,
                                                   "signal_scale": ss,
                                                   "mock": self._mock_obj(rng, n, True, name in SPLIT_SCHEMES)}))
            # Preloads(regularization_matrix=...): absent / explicit None / the matrix a fresh equal inversion computes
            pre = rng.choice(["absent", "none", "correct", "correct"])
            yield {"tag": f"blocks_{k}_preload_{pre}", "kind": "inversion", "objs": objs, "preload": pre}

    # ------------------------------------------------------------------ implementation
    def run_impl(self, case):
        aa = load_autoarray()
        kind = case["kind"]
        if kind == "scheme":
            return self._impl_scheme(aa, case)
        if kind == "util":
            return self._impl_util(aa, case)
        if kind == "signals":
            return self._impl_signals(aa, case)
        if kind == "rect_neighbors":
            return self._impl_rect_neighbors(aa, case)
        if kind == "history":
            return self._impl_history(aa, case)
        return self._impl_inversion(aa, case)

    def _resolve_kernel_scale(self, case, pts):
        """kernel scale = factor x smallest point separation (so the kernel matrix is well conditioned);
        rounded to a dyadic so the model receives the exact same double"""
        factor = fl(case["args"][1])
        P = np.array(pts, dtype=float)
        d = np.sqrt(((P[:, None, :] - P[None, :, :]) ** 2).sum(-1))
        dmin = d[d > 0].min() if (d > 0).any() else 1.0
        s = factor * dmin
        return float(Fraction(round(s * 1024), 1024)) or 1.0 / 1024

    def _impl_scheme(self, aa, case):
        from autoarray import exc

        name = case["scheme"]
        want_split = name in SPLIT_SCHEMES
        closed = None
        if case["source"] == "mock":
            tables = {k: v for k, v in case["mock"].items()}
            mapper_f = lambda: _mock_mapper(aa, case["mock"])
        else:
            try:
                mapper = _real_mapper(aa, case)
                tables = _tables_of(mapper, name, case.get("signal_scale") or "1", want_split)
                closed = None
                if name not in KERNEL_SCHEMES:
                    closed = _closed_obj(mapper, case, name, tables, case.get("signal_scale") or "1")
            except Exception as e:  # Qhull degenerate input etc.: not a regularization matter
                if "Qhull" in type(e).__name__ or "qhull" in str(e).lower():
                    raise Skip("qhull")
                raise
            mapper_f = lambda: mapper
        args = list(case["args"])
        if name in KERNEL_SCHEMES:
            pts = [[fl(a), fl(b)] for a, b in tables["points"]]
            args[1] = q(self._resolve_kernel_scale(case, pts))
        reg = _make_scheme(aa, name, args, case.get("signal_scale"), case.get("arg_type", "float"),
                           case.get("defaults", False))
        mp = mapper_f()
        try:
            w = reg.regularization_weights_from(linear_obj=mp)
            H = reg.regularization_matrix_from(linear_obj=mapper_f())
            # the same block through the linear object's own property (scheme attached to the object)
            mo = mapper_f()
            mo.regularization = reg
            H2 = np.asarray(mo.regularization_matrix)
        except exc.MeshException:
            return {"err": "mesh_exception", "inputs": {"tables": tables, "args": args}}
        H = np.asarray(H)
        if H2.shape != H.shape or not np.array_equal(H2, H):
            return {"err": "linear_obj.regularization_matrix differs from regularization_matrix_from(linear_obj)",
                    "inputs": {"tables": tables, "args": args}}
        obs = {"shape": list(H.shape), "weights": qlist(np.asarray(w)), "matrix": qmat(H),
               "inputs": {"tables": tables, "args": args}}
        if closed is not None:
            obs["inputs"]["closed"] = closed
            if "csr" in closed:
                obs["inputs"]["simplices"] = [[int(v) for v in sx]
                                              for sx in mapper.source_plane_mesh_grid.delaunay.simplices]
        if name in KERNEL_SCHEMES:
            from autoarray.inversion.regularization import gaussian_kernel, exponential_kernel

            P = np.array([[fl(a), fl(b)] for a, b in tables["points"]])
            sc = fl(args[1])
            C = (gaussian_kernel.gauss_cov_matrix_from(scale=sc, pixel_points=P) if name == "GaussianKernel"
                 else exponential_kernel.exp_cov_matrix_from(scale=sc, pixel_points=P))
            obs["cov"] = qmat(C)
            obs["inputs"]["cond"] = float(np.linalg.cond(C))
        return obs

    def _impl_util(self, aa, case):
        from autoarray import exc
        from autoarray.inversion.regularization import regularization_util as ru

        fn = case["fn"]
        n = case["n"]
        if fn in ("reg_split_from", "pixel_splitted"):
            m, s, w = _split_arrays(case["split"])
            try:
                m2, s2, w2 = ru.reg_split_from(splitted_mappings=m, splitted_sizes=s, splitted_weights=w)
            except exc.MeshException:
                return {"err": "mesh_exception"}
            except UnboundLocalError:
                return {"err": "unbound_local"}
            if fn == "reg_split_from":
                return {"mappings": [[int(v) for v in r] for r in m2], "sizes": [int(v) for v in s2],
                        "weights": qmat(w2)}
            rw = np.array([fl(v) for v in case["weights"]])
            H = ru.pixel_splitted_regularization_matrix_from(
                regularization_weights=rw, splitted_mappings=m2, splitted_sizes=s2, splitted_weights=w2)
            return {"matrix": qmat(H), "post": {"mappings": [[int(v) for v in r] for r in m2],
                                                "sizes": [int(v) for v in s2], "weights": qmat(w2)}}
        width = max(len(r) for r in case["neighbors"])
        nb = np.array(case["neighbors"], dtype=int).reshape(n, width)
        sizes = np.array(case["sizes"], dtype=int)
        dt = case.get("dtype")
        c = int(Fraction(case["coefficient"])) if dt == "int" else fl(case["coefficient"])
        cz = int(Fraction(case["coefficient_zeroth"])) if dt == "int" else fl(case["coefficient_zeroth"])
        wts = np.array([fl(v) for v in case["weights"]])
        if dt == "int":
            wts = wts.astype(np.int64)
        elif dt == "float32":
            wts = wts.astype(np.float32)  # 3-bit dyadics: squares exact in float32
        if fn == "constant":
            H = ru.constant_regularization_matrix_from(coefficient=c, neighbors=nb, neighbors_sizes=sizes)
        elif fn == "constant_zeroth":
            H = ru.constant_zeroth_regularization_matrix_from(
                coefficient=c, coefficient_zeroth=cz, neighbors=nb, neighbors_sizes=sizes)
        elif fn == "zeroth":
            H = ru.zeroth_regularization_matrix_from(coefficient=c, pixels=n)
        elif fn == "weighted":
            H = ru.weighted_regularization_matrix_from(regularization_weights=wts, neighbors=nb, neighbors_sizes=sizes)
        else:
            H = ru.brightness_zeroth_regularization_matrix_from(regularization_weights=wts)
        return {"matrix": qmat(H)}

    def _impl_rect_neighbors(self, aa, case):
        from autoarray.inversion.pixelization.mesh import mesh_util

        h, w = case["shape"]
        nb, sz = mesh_util.rectangular_neighbors_from(shape_native=(h, w))
        obs = {"neighbors": [[int(v) for v in r] for r in np.asarray(nb)], "sizes": [int(v) for v in np.asarray(sz)],
               "inputs": {}}
        if h >= 3 and w >= 3:
            # the same table through the public mesh class (what the regularization schemes actually read)
            grid = aa.Grid2D.uniform(shape_native=(3, 3), pixel_scales=1.0)
            mesh = aa.Mesh2DRectangular.overlay_grid(grid=grid, shape_native=(h, w))
            n = mesh.neighbors
            obs["mesh"] = {"neighbors": [[int(v) for v in r] for r in np.asarray(n)],
                           "sizes": [int(v) for v in np.asarray(n.sizes)]}
            obs["mesh_pixels"] = int(mesh.pixels)
        return obs

    def _impl_signals(self, aa, case):
        mapper = _real_mapper(aa, case)
        scale = fl(case["signal_scale"])
        try:
            s = mapper.pixel_signals_from(signal_scale=scale)
        except Exception as e:
            if "qhull" in str(e).lower():
                raise Skip("qhull")
            raise
        inputs = {
            "pixels": int(mapper.pixels),
            "pixel_weights": qmat(np.asarray(mapper.pix_weights_for_sub_slim_index)),
            "pix_indexes": [[int(v) for v in r] for r in np.asarray(mapper.pix_indexes_for_sub_slim_index)],
            "pix_sizes": [int(v) for v in np.asarray(mapper.pix_sizes_for_sub_slim_index)],
            "slim_for_sub": [int(v) for v in np.asarray(mapper.over_sampler.slim_for_sub_slim)],
            "adapt_data": qlist(np.asarray(mapper.adapt_data.array if hasattr(mapper.adapt_data, "array") else mapper.adapt_data)),
        }
        return {"signals": qlist(np.asarray(s)), "inputs": inputs}

    def _impl_history(self, aa, case):
        """one linear object through a sequence of `regularization` re-assignments (directly or on a
        `copy.copy`), its block read after every step through `linear_obj.regularization_matrix`, a
        `MockInversion` and (real mappers) a real `aa.Inversion`"""
        import copy

        if case["source"] == "mock":
            mocks = [case["mock"]] + ([case["mock2"]] if case.get("mock2") else [])
            curs = [_mock_mapper(aa, m, regularization=None) for m in mocks]
            tables_for = lambda name, ss, k: dict(mocks[k])
            real_ds = None
        else:
            curs = [_real_mapper(aa, case)]
            base = curs[0]
            tables_for = lambda name, ss, k: _tables_of(base, name, ss or "1", False)
            mask = base.mapper_grids.mask
            real_ds = aa.DatasetInterface(
                data=aa.Array2D(values=np.array([fl(v) for v in case["adapt"]]), mask=mask),
                noise_map=aa.Array2D(values=np.ones(len(case["adapt"])), mask=mask), convolver=None)
        out = []
        made = {}  # scheme instances are re-used whenever the same (class, arguments) recurs
        for st in case["steps"]:
            key = (st["scheme"], tuple(st["args"]), st.get("signal_scale"))
            if st["scheme"] is None:
                reg = None
            else:
                if key not in made:
                    made[key] = _make_scheme(aa, st["scheme"], st["args"], st.get("signal_scale"),
                                             st.get("arg_type", "float"))
                reg = made[key]
            oi = st.get("obj", 0)
            cur = curs[oi]
            if st.get("copy"):
                cur = copy.copy(cur)
                curs[oi] = cur
            n = int(cur.params)
            cur.regularization = reg
            block = np.asarray(cur.regularization_matrix)
            extra = aa.m.MockLinearObj(parameters=case["extra"], regularization=None)
            objs = [extra, cur] if case["extra_first"] else [cur, extra]
            inv = aa.m.MockInversion(linear_obj_list=objs)
            o = {"block": qmat(block), "inv": qmat(np.asarray(inv.regularization_matrix)),
                 "reduced": qmat(np.asarray(inv.regularization_matrix_reduced))}
            if real_ds is not None:
                rinv = aa.Inversion(dataset=real_ds, linear_obj_list=[cur],
                                    settings=aa.SettingsInversion(use_w_tilde=False))
                o["real_inv"] = qmat(np.asarray(rinv.regularization_matrix))
            o["params"] = n
            if reg is not None:
                o["weights"] = qlist(np.asarray(reg.regularization_weights_from(linear_obj=cur)))
                o["tables"] = tables_for(st["scheme"], st.get("signal_scale"), oi)
            out.append(o)
        return {"steps": out, "inputs": {}}

    def _impl_inversion(self, aa, case):
        objs = []
        blocks = []
        for o in case["objs"]:
            if o["type"] == "linear_obj":
                objs.append(aa.m.MockLinearObj(parameters=o["params"], regularization=None))
                blocks.append(None)
            else:
                reg = _make_scheme(aa, o["scheme"], o["args"], o.get("signal_scale"), o.get("arg_type", "float"),
                                   o.get("defaults", False))
                objs.append(_mock_mapper(aa, o["mock"], regularization=reg))
                blocks.append(True)
        pre = case.get("preload", "absent")
        if pre == "absent":
            inv = aa.m.MockInversion(linear_obj_list=objs)
        elif pre == "none":
            inv = aa.m.MockInversion(linear_obj_list=objs, preloads=aa.Preloads(regularization_matrix=None))
        else:
            # what a previous, equal inversion computed — handed back through Preloads
            objs0 = []
            for o in case["objs"]:
                if o["type"] == "linear_obj":
                    objs0.append(aa.m.MockLinearObj(parameters=o["params"], regularization=None))
                else:
                    objs0.append(_mock_mapper(aa, o["mock"], regularization=_make_scheme(
                        aa, o["scheme"], o["args"], o.get("signal_scale"), o.get("arg_type", "float"),
                        o.get("defaults", False))))
            H0 = np.array(aa.m.MockInversion(linear_obj_list=objs0).regularization_matrix, dtype=float)
            inv = aa.m.MockInversion(linear_obj_list=objs, preloads=aa.Preloads(regularization_matrix=H0))
        H = np.asarray(inv.regularization_matrix)
        R = np.asarray(inv.regularization_matrix_reduced)
        # the per-object matrices, each from a fresh equal object (observed, for the oracle)
        per_obj = []
        for o in case["objs"]:
            if o["type"] == "linear_obj":
                per_obj.append(None)
            else:
                reg = _make_scheme(aa, o["scheme"], o["args"], o.get("signal_scale"), o.get("arg_type", "float"),
                                   o.get("defaults", False))
                per_obj.append(qmat(np.asarray(reg.regularization_matrix_from(linear_obj=_mock_mapper(aa, o["mock"])))))
        return {"matrix": qmat(H), "reduced": qmat(R),
                "no_reg": [int(v) for v in inv.no_regularization_index_list],
                "total_params": int(inv.total_params), "inputs": {"per_obj": per_obj}}

    # ------------------------------------------------------------------ model
    def model_requests(self, case, obs):
        kind = case["kind"]
        if isinstance(obs, dict) and "err" in obs and "inputs" not in obs and kind != "util":
            return []  # undocumented exception in the implementation: nothing to compare, the oracle reports it
        if kind == "scheme":
            name = case["scheme"]
            inp = obs["inputs"]
            t = inp["tables"]
            if name in KERNEL_SCHEMES:
                reqs = [{"op": "c07.cov", "kind": "gauss" if name == "GaussianKernel" else "exp",
                         "scale": inp["args"][1], "ridge": q(RIDGE), "points": t["points"]}]
                if t["params"] <= 12 and inp.get("cond", 1e99) <= COND_COMPARE_MAX:
                    reqs.append({"op": "c07.scheme", "num": "float", "scheme": name, "args": inp["args"],
                                 "ridge": q(RIDGE), "ridge2": q(RIDGE2), "obj": {"params": t["params"], "points": t["points"]}})
                return reqs
            reqs = [{"op": "c07.scheme", "num": "rat", "scheme": name, "args": inp["args"],
                     "ridge": q(RIDGE), "ridge2": q(RIDGE2), "obj": t}]
            if inp.get("closed") is not None:
                # the same scheme from the mesh shape / mapper tables alone: the model computes the
                # neighbour table (rectangular_neighbors_from) and the pixel signals itself
                reqs.append({**reqs[0], "obj": inp["closed"]})
            return reqs
        if kind == "rect_neighbors":
            return [{"op": "c07.rect_neighbors", "shape": case["shape"]}]
        if kind == "util":
            fn = case["fn"]
            r = {"op": "c07.util", "fn": fn, "ridge": q(RIDGE), "ridge2": q(RIDGE2)}
            if fn in ("reg_split_from", "pixel_splitted"):
                r["split"] = case["split"]
                r["weights"] = case["weights"]
                if fn == "pixel_splitted":
                    # two requests: reg_split_from, then the matrix on the implementation's post-split tables
                    if "err" in obs:
                        return [{**r, "fn": "reg_split_from"}]
                    return [{**r, "fn": "reg_split_from"}, {**r, "split": obs["post"]}]
                return [r]
            r.update({"neighbors": case["neighbors"], "sizes": case["sizes"], "coefficient": case["coefficient"],
                      "coefficient_zeroth": case["coefficient_zeroth"], "weights": case["weights"], "pixels": case["n"]})
            return [r]
        if kind == "signals":
            # integer scales: exact rational power; other scales: the model's `pow` is the double-precision power
            return [{"op": "c07.util", "fn": "pixel_signals", "signal_scale": q(Fraction(case["signal_scale"])),
                     **obs["inputs"]}]
        if kind == "history":
            reqs = []
            ex = {"params": case["extra"], "matrix": None}
            for st, so in zip(case["steps"], obs["steps"]):
                n = so["params"]
                if st["scheme"] is None:
                    mo = {"params": n, "matrix": None}
                else:
                    mo = {"params": n, "scheme": st["scheme"], "args": st["args"], "obj": so["tables"]}
                reqs.append({"op": "c07.inversion", "objs": [mo], "ridge": q(RIDGE), "ridge2": q(RIDGE2)})
                reqs.append({"op": "c07.inversion", "objs": [ex, mo] if case["extra_first"] else [mo, ex],
                             "ridge": q(RIDGE), "ridge2": q(RIDGE2)})
            return reqs
        objs = []
        for o in case["objs"]:
            if o["type"] == "linear_obj":
                objs.append({"params": o["params"], "matrix": None})
            else:
                objs.append({"params": o["params"], "scheme": o["scheme"], "args": o["args"], "obj": o["mock"]})
        return [{"op": "c07.inversion", "objs": objs, "ridge": q(RIDGE), "ridge2": q(RIDGE2)}]

    def model_obs(self, case, responses):
        kind = case["kind"]
        if kind == "scheme":
            if case["scheme"] in KERNEL_SCHEMES:
                out = {}
                if "err" in responses[0]:
                    return {"err": responses[0]["err"]}
                out["cov"] = responses[0]["ok"]
                if len(responses) > 1:
                    if "err" in responses[1]:
                        return {"err": responses[1]["err"]}
                    out["weights"] = responses[1]["ok"]["weights"]
                    out["matrix"] = responses[1]["ok"]["matrix"]
                return out
            r = responses[0]
            if "err" in r:
                return {"err": r["err"]}
            M = r["ok"]["matrix"]
            out = {"shape": [len(M), len(M[0]) if M else 0], "weights": r["ok"]["weights"], "matrix": M}
            if len(responses) > 1:
                r2 = responses[1]
                if "err" in r2:
                    return {"err": r2["err"]}
                M2 = r2["ok"]["matrix"]
                out["closed"] = {"shape": [len(M2), len(M2[0]) if M2 else 0], "weights": r2["ok"]["weights"],
                                 "matrix": M2}
            return out
        if kind == "rect_neighbors":
            r = responses[0]
            if "err" in r:
                return {"err": r["err"]}
            return {"neighbors": r["ok"]["neighbors"], "sizes": r["ok"]["sizes"]}
        if kind == "util":
            if case["fn"] == "pixel_splitted":
                if "err" in responses[0]:
                    return {"err": responses[0]["err"]}
                return {"post": responses[0]["ok"], "matrix": responses[1].get("ok", responses[1])}
            r = responses[0]
            if "err" in r:
                return {"err": r["err"]}
            return r["ok"] if case["fn"] == "reg_split_from" else {"matrix": r["ok"]}
        if kind == "signals":
            r = responses[0]
            return {"signals": r["ok"]["signals"]} if "ok" in r else {"err": r["err"]}
        if kind == "history":
            steps = []
            for k in range(0, len(responses), 2):
                a, b = responses[k], responses[k + 1]
                if "err" in a or "err" in b:
                    return {"err": a.get("err") or b.get("err")}
                steps.append({"block": a["ok"]["matrix"], "inv": b["ok"]["matrix"], "reduced": b["ok"]["reduced"]})
            return {"steps": steps}
        r = responses[0]
        return r["ok"] if "ok" in r else {"err": r["err"]}

    def compare(self, case, impl, model, cmp):
        def sub(a, b, rtol, atol=0):
            c = Cmp(Fraction(rtol), Fraction(atol))
            d = c.diff(a, b)
            cmp.exact += c.exact
            cmp.tolerant += c.tolerant
            return d

        kind = case["kind"]
        if isinstance(impl, dict) and "err" in impl:
            return cmp.diff({"err": impl["err"]}, {"err": model.get("err")} if isinstance(model, dict) else model)
        if isinstance(model, dict) and "err" in model:
            return f"$: impl returned a value, model {model}"
        if kind == "scheme":
            name = case["scheme"]
            if name in KERNEL_SCHEMES:
                d = sub(impl["cov"], model["cov"], Fraction(1, 10 ** 9))
                if d or "matrix" not in model:
                    return d
                mx = max(abs(fl(v)) for r in impl["matrix"] for v in r)
                d = sub(impl["weights"], model["weights"], 0)
                return d or sub(impl["matrix"], model["matrix"], 0, Fraction(mx) / 10 ** 8)
            tol = Fraction(1, 10 ** 12) if case["source"] == "mock" or name in RATIONAL_SCHEMES else Fraction(1, 10 ** 9)
            a = {k: impl[k] for k in ("shape", "weights", "matrix")}
            if name in SIGNAL_SCHEMES and case["source"] != "mock":
                tol = Fraction(1, 10 ** 10)
            d = sub(a, {k: model[k] for k in ("shape", "weights", "matrix")}, tol)
            if d or "closed" not in model:
                return d
            d = sub(a, model["closed"], tol)
            return ("closed model (own neighbour table / own pixel signals): " + d) if d else None
        if kind == "rect_neighbors":
            d = sub({"neighbors": impl["neighbors"], "sizes": impl["sizes"]}, model, 0)
            if d or "mesh" not in impl:
                return d
            d = sub(impl["mesh"], model, 0)
            return ("Mesh2DRectangular.neighbors: " + d) if d else None
        if kind == "util":
            if case["fn"] == "reg_split_from":
                return sub(impl, model, 0)
            return sub(impl, model, Fraction(1, 10 ** 12))
        if kind == "signals":
            return sub({"signals": impl["signals"]}, model, Fraction(1, 10 ** 10))
        if kind == "history":
            a = {"steps": [{k: so[k] for k in ("block", "inv", "reduced")} for so in impl["steps"]]}
            d = sub(a, model, Fraction(1, 10 ** 10))
            if d:
                return d
            for k, so in enumerate(impl["steps"]):
                if "real_inv" in so:
                    d = sub(so["real_inv"], model["steps"][k]["block"], Fraction(1, 10 ** 10))
                    if d:
                        return f"step {k} aa.Inversion: " + d
            return None
        a = {k: impl[k] for k in ("matrix", "reduced", "no_reg")}
        return sub(a, model, Fraction(1, 10 ** 12))

    # ------------------------------------------------------------------ oracle (independent of the model)
    def oracle(self, case, obs):
        kind = case["kind"]
        if isinstance(obs, dict) and "err" in obs and "inputs" not in obs and kind != "util":
            return False, f"implementation raised {obs.get('err')}: {obs.get('msg', '')}"
        if kind == "scheme":
            return self._oracle_scheme(case, obs)
        if kind == "util":
            return self._oracle_util(case, obs)
        if kind == "signals":
            return self._oracle_signals(case, obs)
        if kind == "rect_neighbors":
            return self._oracle_rect_neighbors(case, obs)
        if kind == "history":
            return self._oracle_history(case, obs)
        return self._oracle_inversion(case, obs)

    @staticmethod
    def _pairs(neighbors, sizes):
        """directed neighbour pairs read by the loops"""
        return [(i, neighbors[i][j]) for i in range(len(sizes)) for j in range(sizes[i])]

    @staticmethod
    def _cross_vectors(split, n):
        """independent statement of the split-cross rows: v_k = e_{pixel(k)} - sum_l w_kl e_{m_kl}
        (difference between the pixel's own value and the value interpolated at the cross point)"""
        vs = []
        for k, (m, s, w) in enumerate(zip(split["mappings"], split["sizes"], split["weights"])):
            v = [Fraction(0)] * n
            v[k // 4] += 1
            for l in range(s):
                v[m[l]] -= Fraction(w[l])
            vs.append(v)
        return vs

    def _check_pd(self, H, n, strict, what):
        Hs = [[(H[i][j] + H[j][i]) / 2 for j in range(n)] for i in range(n)]
        if n <= EXACT_LDL_MAX:
            if strict:
                if ldl_min_pivot(Hs) is None:
                    return False, f"{what}: not positive definite (exact LDL^T has a non-positive pivot)"
            else:
                Hr = [[Hs[i][j] + (Fraction(1, 10 ** 30) if i == j else 0) for j in range(n)] for i in range(n)]
                if ldl_min_pivot(Hr) is None:
                    return False, f"{what}: not positive semi-definite"
            return True, ""
        A = np.array([[float(v) for v in r] for r in Hs])
        ev = np.linalg.eigvalsh(A)
        lim = 0.0 if strict else -1e-12 * max(1.0, abs(ev).max())
        if not (ev.min() > lim):
            return False, f"{what}: smallest eigenvalue {ev.min():.3e}"
        if strict:
            try:
                np.linalg.cholesky(A)
            except np.linalg.LinAlgError:
                return False, f"{what}: Cholesky fails"
        return True, ""

    def _oracle_scheme(self, case, obs):
        name = case["scheme"]
        if "err" in obs:
            if obs["err"] == "mesh_exception" and case["source"] == "mock":
                t = obs["inputs"]["tables"]["split"]
                width = len(t["weights"][0])
                if any(s >= width for s in t["sizes"]):
                    return True, ""
            return False, f"implementation raised {obs.get('err')} {obs.get('msg', '')}"
        inp = obs["inputs"]
        t = inp["tables"]
        args = [Fraction(a) for a in inp["args"]]
        n = t["params"]
        H = [[Fraction(v) for v in r] for r in obs["matrix"]]
        w = [Fraction(v) for v in obs["weights"]]
        rho = Fraction(RIDGE)
        # size = parameter count
        if obs["shape"] != [n, n] or len(w) != n:
            return False, f"{name}: matrix shape {obs['shape']} / {len(w)} weights for {n} parameters"
        real_mesh = case["source"] != "mock"
        sym_tables = real_mesh or case.get("symmetric", False)
        pairs = self._pairs(t["neighbors"], t["sizes"]) if "neighbors" in t else []
        if name in ("Constant", "ConstantZeroth", "AdaptiveBrightness"):
            if any(not (0 <= j < n) for _, j in pairs):
                return False, "neighbour table has an out-of-range index"
            from collections import Counter

            cnt = Counter(pairs)
            table_sym = all(cnt[(a, b)] == cnt[(b, a)] for (a, b) in cnt)
            if real_mesh and not table_sym:
                return False, "the mesh's neighbour table is not symmetric"
            if real_mesh and (any(a == b for a, b in pairs) or any(c > 1 for c in cnt.values())):
                return False, "the mesh's neighbour table has a self-neighbour or a repeated neighbour"
            csr = (inp.get("closed") or {}).get("csr")
            if csr is not None and "simplices" in inp:
                # Qhull's contract, the hypothesis of C07.delaunay_neighbors_wellformed: complete slices, slice k =
                # the vertices sharing a simplex with k, none twice
                ip, ix = csr["indptr"], csr["indices"]
                if len(ip) != n + 1 or ip[0] != 0 or ip[-1] != len(ix) or any(ip[k] > ip[k + 1] for k in range(n)):
                    return False, "scipy's CSR index pointer is not a complete partition of the index array"
                for k in range(n):
                    sl = ix[ip[k]:ip[k + 1]]
                    e = sorted({j for sx in inp["simplices"] if k in sx for j in sx if j != k})
                    if sorted(sl) != e:
                        return False, (f"Qhull contract: CSR slice of vertex {k} is {sorted(sl)}, the vertices sharing a "
                                       f"simplex with it are {e}")
        # ---------------------------------------------------------------- symmetry
        exact_sym = name not in KERNEL_SCHEMES
        need_sym = sym_tables or name not in ("Constant", "ConstantZeroth")
        mx = max([abs(v) for r in H for v in r] + [Fraction(0)])
        if need_sym:
            for i in range(n):
                for j in range(i):
                    d = abs(H[i][j] - H[j][i])
                    if (exact_sym and d != 0) or (not exact_sym and d > mx / 10 ** 7):
                        return False, f"{name}: H[{i}][{j}] != H[{j}][{i}] ({float(H[i][j])!r} vs {float(H[j][i])!r})"
        # ---------------------------------------------------------------- weights the scheme reports
        if name in ("Constant", "Zeroth", "ConstantSplit", "GaussianKernel", "ExponentialKernel", "ConstantZeroth"):
            if any(v != args[0] for v in w):
                return False, f"{name}: regularization_weights_from is not coefficient * ones"
        elif name in ("AdaptiveBrightness", "AdaptiveBrightnessSplit"):
            s = [Fraction(v) for v in t["signals"]]
            for k in range(n):
                e = (args[0] * s[k] + args[1] * (1 - s[k])) ** 2
                if abs(w[k] - e) > Fraction(1, 10 ** 12) * max(1, abs(e)):
                    return False, f"{name}: weight {k} = {float(w[k])!r}, expected (inner*s+outer*(1-s))^2 = {float(e)!r}"
            if real_mesh and args[0] > 0 and args[1] > 0:
                # C07.adaptive_brightness_weights_pos: signals of a real mapper lie in [0, 1]
                if any(v < 0 or v > 1 for v in s):
                    return False, f"{name}: a pixel signal of the mapper lies outside [0, 1]"
                if any(v <= 0 for v in w):
                    return False, f"{name}: a reported regularization weight is not positive"
        elif name == "BrightnessZeroth":
            s = [Fraction(v) for v in t["signals"]]
            for k in range(n):
                e = args[0] * (1 - s[k])
                if abs(w[k] - e) > Fraction(1, 10 ** 12) * max(1, abs(e)):
                    return False, f"{name}: weight {k} = {float(w[k])!r}, expected coefficient*(1-s) = {float(e)!r}"
        # ---------------------------------------------------------------- quadratic form
        def expected(x):
            xx = sum(v * v for v in x)
            if name in ("Constant", "ConstantZeroth"):
                c2 = args[0] ** 2
                if sym_tables:
                    e = c2 * sum((x[a] - x[b]) ** 2 for a, b in pairs) / 2 + rho * xx
                else:
                    e = c2 * sum(x[a] * x[a] - x[a] * x[b] for a, b in pairs) + rho * xx
                if name == "ConstantZeroth":
                    e += args[1] ** 2 * xx
                return e
            if name == "Zeroth":
                return args[0] ** 2 * xx
            if name == "BrightnessZeroth":
                return sum(w[i] ** 2 * x[i] ** 2 for i in range(n))
            if name == "AdaptiveBrightness":
                if sym_tables:
                    return sum((w[a] ** 2 + w[b] ** 2) * (x[a] - x[b]) ** 2 for a, b in pairs) / 2 + rho * xx
                return sum(w[b] ** 2 * (x[a] - x[b]) ** 2 for a, b in pairs) + rho * xx
            if name in SPLIT_SCHEMES:
                vs = self._cross_vectors(t["split"], n)
                om = w if name == "AdaptiveBrightnessSplit" else [args[0]] * n
                return rho * xx + sum(om[k // 4] ** 2 * sum(a * b for a, b in zip(v, x)) ** 2
                                      for k, v in enumerate(vs))
            return None

        if name in SPLIT_SCHEMES:
            sp = t["split"]
            for k, (m, s) in enumerate(zip(sp["mappings"], sp["sizes"])):
                if len(set(m[:s])) != s or any(not (0 <= v < n) for v in m[:s]):
                    return False, f"cross-point row {k} of the mapper repeats a pixel index or is out of range"
            if len(sp["sizes"]) != 4 * n:
                return False, "split-cross tables do not have 4 rows per pixel"
            # hypotheses of C07.split_scheme_spec (SplitWF): rows non-empty and not full
            width = len(sp["weights"][0]) if sp["weights"] else 0
            if real_mesh and any(not (1 <= sz < width) for sz in sp["sizes"]):
                return False, "a cross-point row of the mapper is empty or fills the whole array width"
        if name not in KERNEL_SCHEMES:
            for x in test_vectors(n * 31 + len(pairs), n):
                got = quad(H, x)
                e = expected(x)
                tol = Fraction(1, 10 ** 11) * quad_abs(H, x) + Fraction(1, 10 ** 24)
                if abs(got - e) > tol:
                    return False, (f"{name}: x^T H x = {float(got)!r} but the stated quadratic form gives "
                                   f"{float(e)!r} for x = {[float(v) for v in x]}")
        else:
            cond = inp.get("cond", 0.0)
            if not (cond <= COND_ORACLE_MAX):
                raise Skip("ill-conditioned kernel matrix")
            P = [[fl(a), fl(b)] for a, b in t["points"]]
            sc = float(args[1])
            C = np.zeros((n, n))
            for i in range(n):
                for j in range(n):
                    d = math.sqrt((P[i][1] - P[j][1]) ** 2 + (P[i][0] - P[j][0]) ** 2)
                    C[i, j] = (math.exp(-d * d / (2 * sc * sc)) if name == "GaussianKernel" else math.exp(-d / sc))
                    if i == j:
                        C[i, j] += RIDGE
            Ci = np.array([[fl(v) for v in r] for r in obs["cov"]])
            if np.abs(Ci - C).max() > 1e-12:
                return False, f"{name}: covariance matrix differs from exp kernel + 1e-8 ridge by {np.abs(Ci - C).max():.3e}"
            Hf = np.array([[float(v) for v in r] for r in H])
            res = np.abs(Hf @ C / float(args[0]) - np.eye(n)).max()
            if res > 1e-6:
                return False, f"{name}: H·C/coefficient differs from the identity by {res:.3e} (cond {cond:.2e})"
            # conditional clause's hypothesis, tested: the covariance matrix is PD
            okc, dc = self._check_pd([[Fraction(v) for v in r] for r in Ci.tolist()], n, True, f"{name} covariance")
            if not okc:
                return False, dc
        # ---------------------------------------------------------------- definiteness
        strict = name in PD_SCHEMES and (sym_tables or name not in ("Constant", "ConstantZeroth"))
        if need_sym:
            ok, d = self._check_pd(H, n, strict, name)
            if not ok:
                return False, d
        return True, ""

    def _oracle_util(self, case, obs):
        fn = case["fn"]
        n = case["n"]
        rho = Fraction(RIDGE)
        if fn in ("reg_split_from", "pixel_splitted"):
            sp = case["split"]
            width = len(sp["weights"][0])
            raises = any(s >= width for s in sp["sizes"])
            # the first row decides between the two exceptions when it is empty
            if "err" in obs:
                if obs["err"] == "mesh_exception" and raises:
                    return True, ""
                if obs["err"] == "unbound_local" and sp["sizes"][0] == 0:
                    return True, ""
                return False, f"reg_split_from raised {obs}"
            if any(s == 0 for s in sp["sizes"]):
                return True, ""  # stale-index path: not a situation the property speaks about (model covers it)
            post = obs if fn == "reg_split_from" else obs["post"]
            for k in range(4 * n):
                s, m, w = sp["sizes"][k], sp["mappings"][k], [Fraction(v) for v in sp["weights"][k]]
                pix = k // 4
                exp_idx = m[:s] + ([] if pix in m[:s] else [pix])
                exp_w = [-v for v in w[:s]]
                if pix in m[:s]:
                    exp_w[m[:s].index(pix)] += 1
                else:
                    exp_w.append(Fraction(1))
                s2 = post["sizes"][k]
                if s2 != len(exp_idx) or post["mappings"][k][:s2] != exp_idx or \
                        [Fraction(v) for v in post["weights"][k][:s2]] != exp_w:
                    return False, f"reg_split_from row {k}: got {post['mappings'][k][:s2]} {post['weights'][k][:s2]}, expected {exp_idx} {[str(v) for v in exp_w]}"
            if fn == "pixel_splitted":
                H = [[Fraction(v) for v in r] for r in obs["matrix"]]
                om = [Fraction(v) for v in case["weights"]]
                vs = self._cross_vectors(sp, n)
                for i in range(n):
                    for j in range(i):
                        if H[i][j] != H[j][i]:
                            return False, "pixel_splitted matrix not symmetric"
                for x in test_vectors(n, n):
                    e = rho * sum(v * v for v in x) + sum(
                        om[k // 4] ** 2 * sum(a * b for a, b in zip(v, x)) ** 2 for k, v in enumerate(vs))
                    got = quad(H, x)
                    if abs(got - e) > Fraction(1, 10 ** 11) * quad_abs(H, x) + Fraction(1, 10 ** 24):
                        return False, f"pixel_splitted: x^T H x = {float(got)!r}, expected {float(e)!r}"
                return self._check_pd(H, n, True, "pixel_splitted")
            return True, ""
        H = [[Fraction(v) for v in r] for r in obs["matrix"]]
        pairs = self._pairs(case["neighbors"], case["sizes"])
        c2 = Fraction(case["coefficient"]) ** 2
        cz2 = Fraction(case["coefficient_zeroth"]) ** 2
        W = [Fraction(v) ** 2 for v in case["weights"]]
        if len(H) != n or any(len(r) != n for r in H):
            return False, f"{fn}: wrong shape"
        for x in test_vectors(n + 5, n):
            xx = sum(v * v for v in x)
            if fn == "constant":
                e = c2 * sum(x[a] * x[a] - x[a] * x[b] for a, b in pairs) + rho * xx
            elif fn == "constant_zeroth":
                e = c2 * sum(x[a] * x[a] - x[a] * x[b] for a, b in pairs) + (rho + cz2) * xx
            elif fn == "zeroth":
                e = c2 * xx
            elif fn == "weighted":
                e = sum(W[b] ** 1 * (x[a] - x[b]) ** 2 for a, b in pairs) + rho * xx
            else:
                e = sum(W[i] * x[i] ** 2 for i in range(n))
            got = quad(H, x)
            if abs(got - e) > Fraction(1, 10 ** 11) * quad_abs(H, x) + Fraction(1, 10 ** 24):
                return False, f"{fn}: x^T H x = {float(got)!r}, stated form gives {float(e)!r}, x = {[float(v) for v in x]}"
        if fn in ("weighted", "zeroth", "brightness_zeroth"):
            for i in range(n):
                for j in range(i):
                    if H[i][j] != H[j][i]:
                        return False, f"{fn}: not symmetric"
            return self._check_pd(H, n, fn == "weighted", fn)
        return True, ""

    def _oracle_rect_neighbors(self, case, obs):
        """the table is the 4-connectivity of the H x W pixel grid: row k lists, in ascending order, the pixels
        above / left / right / below pixel k = y*W + x, padded with -1; sizes = their number (hence in range,
        symmetric, without self / repeated neighbours)"""
        h, w = case["shape"]
        views = [("rectangular_neighbors_from", obs)] + ([("Mesh2DRectangular.neighbors", obs["mesh"])] if "mesh" in obs else [])
        if "mesh_pixels" in obs and obs["mesh_pixels"] != h * w:
            return False, f"mesh.pixels = {obs['mesh_pixels']} for shape {h} x {w}"
        for what, o in views:
            if len(o["neighbors"]) != h * w or len(o["sizes"]) != h * w:
                return False, f"{what}: {len(o['neighbors'])} rows / {len(o['sizes'])} sizes for {h * w} pixels"
            for k in range(h * w):
                y, x = divmod(k, w)
                e = ([k - w] if y > 0 else []) + ([k - 1] if x > 0 else []) + ([k + 1] if x + 1 < w else []) \
                    + ([k + w] if y + 1 < h else [])
                if o["sizes"][k] != len(e) or list(o["neighbors"][k]) != e + [-1] * (4 - len(e)):
                    return False, (f"{what}: pixel {k} = ({y},{x}) of a {h} x {w} mesh has row {o['neighbors'][k]} "
                                   f"size {o['sizes'][k]}, expected {e} (its 4-neighbours)")
        return True, ""

    def _oracle_signals(self, case, obs):
        inp = obs["inputs"]
        n = inp["pixels"]
        sig = [Fraction(0)] * n
        cnt = [0] * n
        ad = [Fraction(v) for v in inp["adapt_data"]]
        for sub, (idx, sz) in enumerate(zip(inp["pix_indexes"], inp["pix_sizes"])):
            a = ad[inp["slim_for_sub"][sub]]
            for l in range(sz):
                wgt = Fraction(inp["pixel_weights"][sub][l]) if sz > 1 else 1
                sig[idx[l]] += a * wgt
                cnt[idx[l]] += 1
        sig = [s / (c if c else 1) for s, c in zip(sig, cnt)]
        mx = max(sig)
        if mx <= 0:
            raise Skip("no signal")
        sc = Fraction(case["signal_scale"])
        if sc.denominator == 1:
            e = [(s / mx) ** int(sc) for s in sig]
        else:
            e = [Fraction(float(s / mx) ** float(sc)) for s in sig]
        got = [Fraction(v) for v in obs["signals"]]
        if len(got) != n:
            return False, f"{len(got)} pixel signals for {n} pixels"
        for i in range(n):
            if abs(got[i] - e[i]) > Fraction(1, 10 ** 10):
                return False, f"pixel signal {i}: {float(got[i])!r}, expected {float(e[i])!r}"
        # range facts (C07.pixel_signals_in_unit_interval): non-negative image and weights, some positive mean
        if all(v >= 0 for v in ad) and all(Fraction(v) >= 0 for r in inp["pixel_weights"] for v in r) and sc >= 0:
            if any(v < 0 or v > 1 for v in got):
                return False, f"a pixel signal lies outside [0, 1]: {[float(v) for v in got]}"
            if max(got) != 1:
                return False, f"the brightest pixel has signal {float(max(got))!r}, not 1"
        return True, ""

    def _oracle_history(self, case, obs):
        """after every step the block is the one of the CURRENT scheme (stated quadratic form / zero
        block), through every access route"""
        e = case["extra"]
        for k, (st, so) in enumerate(zip(case["steps"], obs["steps"])):
            n = so["params"]
            where = f"step {k} ({st['scheme']}{' on a copy' if st.get('copy') else ''}, object {st.get('obj', 0)})"
            B = [[Fraction(v) for v in r] for r in so["block"]]
            if len(B) != n or any(len(r) != n for r in B):
                return False, f"{where}: block is not {n} x {n}"
            if st["scheme"] is None:
                if any(v != 0 for r in B for v in r):
                    return False, f"{where}: object without a regularization scheme has a non-zero block"
            else:
                pseudo_case = {"kind": "scheme", "source": case["source"], "scheme": st["scheme"],
                               "symmetric": True}
                pseudo_obs = {"shape": [n, n], "weights": so["weights"], "matrix": so["block"],
                              "inputs": {"tables": so["tables"], "args": st["args"]}}
                ok, d = self._oracle_scheme(pseudo_case, pseudo_obs)
                if not ok:
                    return False, f"{where}: linear_obj.regularization_matrix is not the current scheme's matrix: {d}"
            # the inversions see the same block, at the object's offset, next to a zero block
            H = [[Fraction(v) for v in r] for r in so["inv"]]
            off = e if case["extra_first"] else 0
            if len(H) != n + e:
                return False, f"{where}: assembled matrix has size {len(H)}, expected {n + e}"
            for i in range(n + e):
                for j in range(n + e):
                    inside = off <= i < off + n and off <= j < off + n
                    exp = B[i - off][j - off] if inside else 0
                    if H[i][j] != exp:
                        return False, f"{where}: Inversion.regularization_matrix[{i}][{j}] = {float(H[i][j])!r}, expected {float(exp)!r}"
            keep = [i for i in range(n + e) if (off <= i < off + n) or False]
            if st["scheme"] is None:
                keep = []
            R = [[Fraction(v) for v in r] for r in so["reduced"]]
            expR = [[H[i][j] for j in keep] for i in keep]
            if R != expR and not (not keep and all(len(r) == 0 for r in R)):
                return False, f"{where}: regularization_matrix_reduced is not the current scheme's block"
            if "real_inv" in so and [[Fraction(v) for v in r] for r in so["real_inv"]] != B:
                return False, f"{where}: aa.Inversion(...).regularization_matrix differs from the object's current block"
        return True, ""

    def _oracle_inversion(self, case, obs):
        H = [[Fraction(v) for v in r] for r in obs["matrix"]]
        sizes = [o["params"] for o in case["objs"]]
        tot = sum(sizes)
        if obs["total_params"] != tot or len(H) != tot or any(len(r) != tot for r in H):
            return False, f"block matrix is not {tot} x {tot}"
        off = 0
        noreg = []
        owner = []
        for k, o in enumerate(case["objs"]):
            owner += [k] * o["params"]
        for k, (o, B) in enumerate(zip(case["objs"], obs["inputs"]["per_obj"])):
            p = o["params"]
            for i in range(p):
                for j in range(p):
                    e = Fraction(B[i][j]) if B is not None else 0
                    if H[off + i][off + j] != e:
                        return False, (f"block {k} ({o['type']}) entry ({i},{j}) = {float(H[off+i][off+j])!r}, "
                                       f"expected {float(e)!r}")
            if B is None:
                noreg += list(range(off, off + p))
            off += p
        for i in range(tot):
            for j in range(tot):
                if owner[i] != owner[j] and H[i][j] != 0:
                    return False, f"entry ({i},{j}) couples objects {owner[i]} and {owner[j]}"
        if obs["no_reg"] != noreg:
            return False, f"no_regularization_index_list {obs['no_reg']} != {noreg}"
        keep = [i for i in range(tot) if i not in noreg]
        R = [[H[i][j] for j in keep] for i in keep]
        got = [[Fraction(v) for v in r] for r in obs["reduced"]]
        if got != R:
            return False, "regularization_matrix_reduced is not the matrix with the unregularized rows/columns removed"
        return True, ""

    # ------------------------------------------------------------------ bookkeeping
    def nontrivial(self, case, obs):
        kind = case["kind"]
        if kind == "scheme":
            if "err" in obs:
                return False
            t = obs["inputs"]["tables"]
            return t["params"] >= 2 and (case["scheme"] in ("Zeroth", "BrightnessZeroth") + tuple(KERNEL_SCHEMES)
                                         or sum(t.get("sizes", [0])) > 0 or bool(t.get("split")))
        if kind == "inversion":
            return len(case["objs"]) >= 2
        if kind == "history":
            return len({(st["scheme"], tuple(st["args"])) for st in case["steps"]}) >= 2
        return case.get("n", 2) >= 2

    def shrink(self, case):
        if case["kind"] == "scheme" and case["source"] == "rect":
            mh, mw = case["mesh_shape"]
            if mh > 3:
                yield {**case, "mesh_shape": [mh - 1, mw]}
            if mw > 3:
                yield {**case, "mesh_shape": [mh, mw - 1]}
        if case["kind"] == "scheme" and case["source"] == "delaunay" and len(case["points"]) > 4:
            for i in range(len(case["points"])):
                yield {**case, "points": case["points"][:i] + case["points"][i + 1:]}
        if case["kind"] == "inversion" and len(case["objs"]) > 1:
            for i in range(len(case["objs"])):
                yield {**case, "objs": case["objs"][:i] + case["objs"][i + 1:]}

    def sample_view(self, case):
        return {k: v for k, v in case.items() if not k.startswith("_")}

    def theorems_for(self, case):
        kind = case["kind"]
        if kind == "inversion":
            return ["C07.linear_obj_without_scheme_zero_block", "C07.block_diag_entry", "C07.block_diag_quad",
                    "C07.no_regularization_index_list_spec", "C07.reduced_is_deletion", "C07.reduced_eq_block_diag",
                    "C07.reduced_symm_posdef", "C07.block_diag_posdef"]
        if kind == "signals":
            return ["C07.adaptive_scheme_uses_reported_weights", "C07.pixel_signals_accumulate_spec",
                    "C07.pixel_signals_spec", "C07.pixel_signals_in_unit_interval", "C07.adaptive_weights_spec",
                    "C07.adaptive_brightness_weights_pos"]
        if kind == "scheme" and case.get("source") == "delaunay" and case.get("scheme") in ("Constant", "ConstantZeroth"):
            return ["C07.delaunay_neighbors_wellformed", "C07.delaunay_constant_spec", "C07.constant_quad_pairs",
                    "C07.constant_posdef"]
        if kind == "rect_neighbors":
            return ["C07.rect_neighbors_wellformed", "C07.rect_pairs_are_adjacent_pixels", "C07.rect_constant_spec",
                    "C07.rect_constant_zeroth_spec", "C07.rect_weighted_spec", "C07.rect_adaptive_brightness_spec"]
        if kind == "history":
            return ["C07.linear_obj_without_scheme_zero_block", "C07.block_diag_entry", "C07.constant_quad_pairs",
                    "C07.weighted_quad_pairs"]
        name = case.get("scheme") or case.get("fn")
        if kind == "scheme" and case.get("source") == "rect":
            extra = {"Constant": ["C07.rect_constant_spec"], "ConstantZeroth": ["C07.rect_constant_zeroth_spec"],
                     "AdaptiveBrightness": ["C07.rect_weighted_spec", "C07.rect_adaptive_brightness_spec",
                                            "C07.pixel_signals_spec", "C07.adaptive_brightness_weights_pos"]}
            if name in extra:
                return extra[name] + ["C07.rect_neighbors_wellformed", "C07.rect_pairs_are_adjacent_pixels"]
        table = {
            "Constant": ["C07.constant_quad", "C07.constant_quad_pairs", "C07.constant_symm", "C07.constant_posdef"],
            "constant": ["C07.constant_quad"],
            "ConstantZeroth": ["C07.constant_zeroth_quad", "C07.constant_zeroth_posdef"],
            "constant_zeroth": ["C07.constant_zeroth_quad"],
            "Zeroth": ["C07.zeroth_quad", "C07.zeroth_psd"],
            "zeroth": ["C07.zeroth_quad"],
            "AdaptiveBrightness": ["C07.weighted_quad", "C07.weighted_quad_pairs", "C07.weighted_symm", "C07.weighted_posdef"],
            "weighted": ["C07.weighted_quad", "C07.weighted_symm", "C07.weighted_posdef"],
            "BrightnessZeroth": ["C07.brightness_zeroth_quad"],
            "brightness_zeroth": ["C07.brightness_zeroth_quad"],
            "ConstantSplit": ["C07.split_scheme_spec", "C07.split_quad", "C07.split_symm", "C07.split_posdef"],
            "AdaptiveBrightnessSplit": ["C07.split_scheme_spec", "C07.split_quad", "C07.split_symm", "C07.split_posdef"],
            "reg_split_from": ["C07.reg_split_from_rows", "C07.split_scheme_spec"],
            "pixel_splitted": ["C07.split_quad", "C07.split_posdef"],
            "GaussianKernel": ["C07.kernel_cov_entry", "C07.gaussian_kernel_cov_posdef", "C07.gaussian_kernel_reg_posdef"],
            "ExponentialKernel": ["C07.kernel_cov_symm", "C07.exponential_kernel_cov_posdef",
                                  "C07.exponential_kernel_reg_posdef"],
        }
        return table.get(name, ["C07.*"])


CHECK = C07()
