"""C08 — fit statistics and evidence follow their definitions on unmasked pixels only."""
from __future__ import annotations

import math
from fractions import Fraction

import numpy as np

import gen
from common import PropertyCheck, load_autoarray, mask_json, q, qlist, qmat

TOL = 1e-9
MAP_KEYS = ["data", "residual_map", "normalized_residual_map", "chi_squared_map",
            "residual_flux_fraction_map", "signal_to_noise_map"]

_classes = {}


def _fit_classes(aa):
    """user-side subclasses exactly as the library intends: the fit supplies model data / inversion."""
    if _classes:
        return _classes
    from autoconf import cached_property
    from autoarray.inversion.inversion.abstract import AbstractInversion
    from autoarray.inversion.inversion.dataset_interface import DatasetInterface

    def _kw(use_mask_in_fit, dataset_model, pass_dm):
        kw = {}
        if use_mask_in_fit is not None:        # None = leave the keyword to its default (False)
            kw["use_mask_in_fit"] = use_mask_in_fit
        if pass_dm:
            kw["dataset_model"] = dataset_model
        return kw

    class FitI(aa.FitImaging):
        def __init__(self, dataset, use_mask_in_fit, model_data, dataset_model=None, inversion=None,
                     pass_dm=True):
            super().__init__(dataset=dataset, **_kw(use_mask_in_fit, dataset_model, pass_dm))
            self._model_data = model_data
            self._inversion = inversion

        @property
        def model_data(self):
            return self._model_data

        @property
        def inversion(self):
            return self._inversion

    class FitD(aa.FitDataset):
        def __init__(self, dataset, use_mask_in_fit, model_data, dataset_model=None, inversion=None,
                     pass_dm=True):
            super().__init__(dataset=dataset, **_kw(use_mask_in_fit, dataset_model, pass_dm))
            self._model_data = model_data
            self._inversion = inversion

        @property
        def model_data(self):
            return self._model_data

        @property
        def inversion(self):
            return self._inversion

    class Inv(AbstractInversion):
        """an inversion whose curvature matrix F and reconstruction s are given; everything the
        property is about (H by block_diag, F+H, the reduced matrices, the three evidence terms) is
        computed by the real AbstractInversion code."""

        def __init__(self, linear_obj_list, F, s):
            super().__init__(dataset=DatasetInterface(data=None, noise_map=None),
                             linear_obj_list=linear_obj_list)
            self._F = np.array(F, dtype=float)
            self._s = np.array(s, dtype=float)

        @cached_property
        def curvature_matrix(self):
            return np.array(self._F)

        @property
        def reconstruction(self):
            return self._s

    _classes.update(FitI=FitI, FitD=FitD, Inv=Inv)
    return _classes


def _fr(x):
    return Fraction(x)


def _f(x):
    return float(Fraction(x))


def _close(a, b, tol=TOL):
    a, b = float(a), float(b)
    if a != a or b != b or abs(a) == float("inf") or abs(b) == float("inf"):
        return False
    return abs(a - b) <= tol * max(1.0, abs(a), abs(b))


def _exact_logdet(M):
    """log det of a symmetric positive-definite matrix of Fractions: exact rational elimination
    (LDL^T pivots), logs of the exact pivots.  None when a pivot is not positive."""
    n = len(M)
    a = [row[:] for row in M]
    acc = 0.0
    for k in range(n):
        p = a[k][k]
        if p <= 0:
            return None
        acc += math.log(p.numerator) - math.log(p.denominator)
        for i in range(k + 1, n):
            f = a[i][k] / p
            if f:
                for j in range(k, n):
                    a[i][j] -= f * a[k][j]
    return acc


def _factorisation_contracts(FH, H):
    """the contracts under which C08.c_log_det_via_cholesky / c_log_det_via_lu hold, checked on the
    factorisations numpy / SuperLU actually return for these matrices.  '' when met."""
    from scipy.sparse import csc_matrix
    from scipy.sparse.linalg import splu

    n = FH.shape[0]
    L = np.linalg.cholesky(FH)
    sc = max(1.0, float(np.max(np.abs(FH))))
    if np.any(np.triu(L, 1) != 0) or np.any(np.diag(L) <= 0):
        return "numpy.linalg.cholesky: factor not lower-triangular with positive diagonal"
    if np.max(np.abs(L @ L.T - FH)) > TOL * sc:
        return "numpy.linalg.cholesky: L L^T does not reconstruct the matrix to 1e-9"
    lu = splu(csc_matrix(H))
    Lm, Um = lu.L.toarray(), lu.U.toarray()
    if np.any(np.triu(Lm, 1) != 0) or np.any(np.tril(Um, -1) != 0):
        return "splu: L / U not triangular"
    Pr = np.zeros((n, n))
    Pr[lu.perm_r, np.arange(n)] = 1.0
    Pc = np.zeros((n, n))
    Pc[np.arange(n), lu.perm_c] = 1.0
    sc2 = max(1.0, float(np.max(np.abs(H))))
    if np.max(np.abs(Pr @ H @ Pc - Lm @ Um)) > TOL * sc2:
        return "splu: Pr A Pc != L U to 1e-9"
    return ""


def _spd_int(rng, n, lo=-2, hi=2, ridge=1):
    a = [[rng.randint(lo, hi) for _ in range(n)] for _ in range(n)]
    return [[sum(a[k][i] * a[k][j] for k in range(n)) + (ridge if i == j else 0) for j in range(n)]
            for i in range(n)]


class C08(PropertyCheck):
    pid = "C08"
    title = "fit statistics and evidence"
    rtol = Fraction(1, 10 ** 9)
    nontrivial_rule = (
        "a case is non-trivial when its mask has both masked and unmasked pixels or it carries an "
        "inversion; distinct = distinct (mask, arrays, mode, fit class, background, inversion)"
    )
    exhaustive_note = {
        "quick": "every mask with >=1 unmasked pixel for every shape with H*W <= 6, in the masked-native and the slim mode",
        "thorough": "every mask with >=1 unmasked pixel for every shape with H*W <= 9, in the masked-native and the slim mode",
    }
    trusted_extra = [
        "numpy.linalg.cholesky and scipy splu are parameters of the model under their contracts (L lower-triangular, positive diagonal, L L^T = A; Pr A Pc = L U with triangular L, U): under these C08.c_log_det_via_cholesky / c_log_det_via_lu prove the reported terms equal log det; the contracts are checked on every inversion case on the factorisations actually returned (1e-9) and the reported terms are compared with exact rational LDL^T log-determinants; the driver instantiates the parameters with a Float Cholesky / Doolittle LU",
        "libm log; 2*pi as the double 6.283185307179586",
        "numpy library semantics modelled, not verified: boolean-mask indexing, np.delete, scipy.linalg.block_diag, np.matmul, ufunc out=/where=",
    ]
    modelled_functions = [
        "autoarray/fit/fit_util.py:residual_map_from",
        "autoarray/fit/fit_util.py:normalized_residual_map_from",
        "autoarray/fit/fit_util.py:chi_squared_map_from",
        "autoarray/fit/fit_util.py:chi_squared_from",
        "autoarray/fit/fit_util.py:noise_normalization_from",
        "autoarray/fit/fit_util.py:residual_map_with_mask_from",
        "autoarray/fit/fit_util.py:normalized_residual_map_with_mask_from",
        "autoarray/fit/fit_util.py:chi_squared_map_with_mask_from",
        "autoarray/fit/fit_util.py:chi_squared_with_mask_from",
        "autoarray/fit/fit_util.py:chi_squared_with_mask_fast_from",
        "autoarray/fit/fit_util.py:noise_normalization_with_mask_from",
        "autoarray/fit/fit_util.py:log_likelihood_from",
        "autoarray/fit/fit_util.py:log_likelihood_with_regularization_from",
        "autoarray/fit/fit_util.py:log_evidence_from",
        "autoarray/fit/fit_util.py:residual_flux_fraction_map_from",
        "autoarray/fit/fit_util.py:residual_flux_fraction_map_with_mask_from",
        "autoarray/fit/fit_util.py:to_new_array",
        "autoarray/fit/fit_dataset.py:AbstractFit.signal_to_noise_map",
        "autoarray/fit/fit_dataset.py:AbstractFit.residual_map",
        "autoarray/fit/fit_dataset.py:AbstractFit.normalized_residual_map",
        "autoarray/fit/fit_dataset.py:AbstractFit.chi_squared_map",
        "autoarray/fit/fit_dataset.py:AbstractFit.chi_squared",
        "autoarray/fit/fit_dataset.py:AbstractFit.noise_normalization",
        "autoarray/fit/fit_dataset.py:AbstractFit.log_likelihood",
        "autoarray/fit/fit_dataset.py:FitDataset.data",
        "autoarray/fit/fit_dataset.py:FitDataset.noise_map",
        "autoarray/fit/fit_dataset.py:FitDataset.residual_map",
        "autoarray/fit/fit_dataset.py:FitDataset.normalized_residual_map",
        "autoarray/fit/fit_dataset.py:FitDataset.chi_squared_map",
        "autoarray/fit/fit_dataset.py:FitDataset.chi_squared",
        "autoarray/fit/fit_dataset.py:FitDataset.noise_normalization",
        "autoarray/fit/fit_dataset.py:FitDataset.log_likelihood_with_regularization",
        "autoarray/fit/fit_dataset.py:FitDataset.log_evidence",
        "autoarray/fit/fit_dataset.py:FitDataset.figure_of_merit",
        "autoarray/fit/fit_dataset.py:FitDataset.residual_flux_fraction_map",
        "autoarray/fit/fit_dataset.py:FitDataset.reduced_chi_squared",
        "autoarray/fit/fit_imaging.py:FitImaging.data",
        "autoarray/inversion/inversion/abstract.py:AbstractInversion.has",
        "autoarray/inversion/inversion/abstract.py:AbstractInversion.param_range_list_from",
        "autoarray/inversion/inversion/abstract.py:AbstractInversion.regularization_list",
        "autoarray/inversion/inversion/abstract.py:AbstractInversion.all_linear_obj_have_regularization",
        "autoarray/inversion/inversion/abstract.py:AbstractInversion.no_regularization_index_list",
        "autoarray/inversion/inversion/abstract.py:AbstractInversion.regularization_matrix",
        "autoarray/inversion/inversion/abstract.py:AbstractInversion.regularization_matrix_reduced",
        "autoarray/inversion/inversion/abstract.py:AbstractInversion.curvature_reg_matrix",
        "autoarray/inversion/inversion/abstract.py:AbstractInversion.curvature_reg_matrix_reduced",
        "autoarray/inversion/inversion/abstract.py:AbstractInversion.reconstruction_reduced",
        "autoarray/inversion/inversion/abstract.py:AbstractInversion.regularization_term",
        "autoarray/inversion/inversion/abstract.py:AbstractInversion.log_det_curvature_reg_matrix_term",
        "autoarray/inversion/inversion/abstract.py:AbstractInversion.log_det_regularization_matrix_term",
        "autoarray/inversion/linear_obj/linear_obj.py:LinearObj.regularization_matrix",
        "autoarray/util/misc_util.py:has",
    ]
    assumptions = [
        "noise-map entries at unmasked pixels are positive; (data - background) is non-zero wherever residual/data is evaluated",
        "no noise covariance matrix in the dataset (outside the property's quantifier)",
        "F + H and H restricted to the regularized parameters are symmetric positive definite (otherwise the code raises)",
    ]

    # ------------------------------------------------------------------ generation
    def _arrays(self, rng, m, exact_noise=False, ints=False):
        h, w = len(m), len(m[0])
        n = h * w
        data, noise, model = [], [], []
        for i in range(n):
            masked = m[i // w][i % w]
            if ints:
                d = Fraction(rng.randint(-9, 9))
                mo = Fraction(rng.randint(-9, 9))
                no = Fraction(rng.choice([1, 2, 4, 8]) if exact_noise else rng.randint(1, 7))
            else:
                d = gen.dyadic(rng, -8, 8, 3)
                mo = gen.dyadic(rng, -8, 8, 3)
                if exact_noise:
                    no = Fraction(rng.choice([1, 2, 4, 8]), rng.choice([1, 2, 4]))
                else:
                    no = gen.pos_dyadic(rng, 1, 6, 2)
            if masked:
                # junk in masked cells: huge / negative / zero data, negative noise (never zero: the
                # un-masked signal-to-noise division runs over every stored cell)
                r = rng.random()
                if r < 0.3:
                    d = Fraction(rng.choice([-1, 1]) * rng.randint(1000, 100000))
                elif r < 0.4:
                    d = Fraction(0)
                if rng.random() < 0.4:
                    no = -no
                if rng.random() < 0.2:
                    no = no * 1000
                if rng.random() < 0.3:
                    mo = Fraction(rng.randint(-10 ** 6, 10 ** 6))
            data.append(d)
            noise.append(no)
            model.append(mo)
        return data, noise, model

    def _background(self, rng, data, m, ints=False):
        """a (signed) background level that leaves (data - bg) non-zero at every unmasked pixel."""
        w = len(m[0])
        for _ in range(20):
            bg = Fraction(rng.randint(-4, 4)) if ints else gen.dyadic(rng, -4, 4, 4)
            if bg != 0 and all(d != bg for i, d in enumerate(data) if not m[i // w][i % w]):
                return bg
        return Fraction(1, 32)

    def _fix_zero_data(self, data, m, bg, ints=False):
        w = len(m[0])
        return [d if (m[i // w][i % w] or d - bg != 0) else d + (Fraction(1) if ints else Fraction(1, 8))
                for i, d in enumerate(data)]

    def _feed(self, rng, ints, mode, bg, inv):
        """how the numbers reach the public API (round-3 hardening): dtype and container of every
        array argument, "set but falsy" / explicit-default option values, thin wrappers."""
        feed = {
            # dtype of data / noise / model arrays: integer dtypes only when every value is an integer
            "dtype": rng.choice(["int64", "pyint", "float"]) if ints else "float",
            # ndarray vs nested python lists handed to Array2D
            "container": rng.choice(["ndarray", "list"]),   # (Array2D documents list / ndarray; tuples are rejected)
            # zero sky level: no dataset model / keyword omitted / default object / explicit 0.0 / explicit 0
            "dm": (rng.choice(["none", "omitted", "default_obj", "explicit_0.0", "explicit_0"])
                   if bg == 0 else ("explicit_int" if (ints and rng.random() < 0.7) else "explicit")),
            # use_mask_in_fit=False passed explicitly or left to its default
            "use_mask_kw": "explicit" if mode == "native" else rng.choice(["explicit", "default"]),
            # the library's own thin FitImaging subclass instead of the harness one
            "wrapper": "mock" if rng.random() < 0.2 else "harness",
            # regularization blocks as ndarray or nested lists; integer dtype where integral
            "reg": rng.choice(["ndarray", "list", "int_ndarray"]),
        }
        return feed

    def _inversion(self, rng, style=None):
        style = style or rng.choice(["all_reg", "partial", "partial", "none_reg", "mock"])
        if style == "mock":
            return {"kind": "mock", "terms": {
                "regularization_term": q(gen.dyadic(rng, -4, 12, 3)),
                "log_det_curvature_reg_matrix_term": q(gen.dyadic(rng, -6, 20, 3)),
                "log_det_regularization_matrix_term": q(gen.dyadic(rng, -20, 6, 3))}}
        k = rng.randint(1, 3)
        if style == "all_reg":
            flags = [True] * k
        elif style == "none_reg":
            flags = [False] * k
        else:
            k = max(k, 2)
            flags = [rng.random() < 0.5 for _ in range(k)]
            if all(flags):
                flags[rng.randrange(k)] = False
            if not any(flags):
                flags[rng.randrange(k)] = True
        objs = []
        for fl in flags:
            p = rng.randint(1, 3)
            objs.append({"params": p, "cls": rng.choice(["mapper", "linear"]),
                         "reg": qmat(_spd_int(rng, p)) if fl else None})
        tot = sum(o["params"] for o in objs)
        F = _spd_int(rng, tot, ridge=rng.randint(1, 3))
        s = [gen.dyadic(rng, -4, 4, 2) for _ in range(tot)]
        return {"kind": "abstract", "style": style, "objs": objs, "F": qmat(F), "s": qlist(s)}

    def _case(self, rng, m, tag, mode, fit_cls, with_bg, inv, exact_noise=False, ints=None):
        if ints is None:
            ints = rng.random() < 0.22
        data, noise, model = self._arrays(rng, m, exact_noise, ints)
        bg = Fraction(0)
        if with_bg:
            bg = self._background(rng, data, m, ints)
        eff_bg = bg if fit_cls == "imaging" else Fraction(0)
        data = self._fix_zero_data(data, m, eff_bg, ints)
        if mode == "slim_applied":
            # the un-masked dataset is validated by Imaging only where check_noise_map is on; keep
            # the noise map positive everywhere so both constructions are legal
            noise = [abs(v) for v in noise]
        return {"tag": tag + ("_int" if ints else ""), "kind": "fit", "mask": mask_json(m), "mode": mode,
                "fit_cls": fit_cls,
                "data": qlist(data), "noise": qlist(noise), "model": qlist(model),
                "background": q(bg), "inversion": inv, "feed": self._feed(rng, ints, mode, bg, inv)}

    def generate(self, tier, rng):
        cells = 6 if tier == "quick" else 9
        # 1. exhaustive masks, both evaluation modes, no inversion
        for (h, w) in gen.shapes_upto(cells):
            for m in gen.all_masks(h, w):
                for mode in ("native", "slim"):
                    yield self._case(rng, m, f"exh_{mode}", mode,
                                     "imaging" if rng.random() < 0.7 else "dataset",
                                     rng.random() < 0.5, None, exact_noise=rng.random() < 0.5)
        # 1b. degenerate: no unmasked pixel at all (sums over nothing), every frame shape of the box
        for (h, w) in gen.shapes_upto(4):
            for mode in ("native", "slim"):
                yield self._case(rng, gen.full(h, w), f"zero_unmasked_{mode}", mode, "imaging",
                                 rng.random() < 0.5, None)
        # 2. structured random masks × mode × background × inversion styles
        n = 300 if tier == "quick" else 2500
        styles = [None, "all_reg", "partial", "none_reg", "mock"]
        for i in range(n):
            h, w = rng.randint(2, 9), rng.randint(2, 9)
            m, kind = gen.random_mask(rng, h, w)
            for mode in ("native", "slim", "slim_applied"):
                st = styles[(i + ("native", "slim", "slim_applied").index(mode)) % len(styles)]
                inv = self._inversion(rng, st) if st else None
                fit_cls = "dataset" if (rng.random() < 0.25 and mode != "slim_applied") else "imaging"
                yield self._case(rng, m, f"rnd_{mode}_{st or 'noinv'}", mode, fit_cls,
                                 rng.random() < 0.6, inv, exact_noise=rng.random() < 0.3)
        # 3. real inversion pipeline (InversionImagingMapping: real F, real solver, model data from it)
        n_real = 30 if tier == "quick" else 200
        for i in range(n_real):
            h, w = rng.randint(3, 6), rng.randint(3, 6)
            m, kind = gen.random_mask(rng, h, w, kind=rng.choice(["block", "blocks", "bernoulli", "all", "cross"]))
            yield self._real_case(rng, m, i)

    def _real_case(self, rng, m, i):
        h, w = len(m), len(m[0])
        npix = sum(1 for r in m for b in r if not b)
        style = ["all_reg", "partial", "partial_first"][i % 3]
        objs = []
        k = 1 if style == "all_reg" and rng.random() < 0.5 else 2
        for j in range(k):
            p = rng.randint(1, 3)
            if style == "all_reg":
                reg = True
            elif style == "partial":
                reg = j == 0
            else:
                reg = j == 1
            mm = [[gen.pos_dyadic(rng, 0, 2, 2) if rng.random() < 0.7 else Fraction(0)
                   for _ in range(p)] for _ in range(npix)]
            for c in range(p):  # no empty column
                if all(row[c] == 0 for row in mm):
                    mm[rng.randrange(npix)][c] = Fraction(1)
            objs.append({"params": p, "cls": "mapper" if reg else "linear",
                         "reg": qmat(_spd_int(rng, p, ridge=2)) if reg else None,
                         "mapping_matrix": qmat(mm)})
        case = self._case(rng, m, f"real_{style}", "slim", "imaging", rng.random() < 0.5, None, ints=False)
        # real pipeline: positive data so the positive-only solver has something to fit
        bg = Fraction(case["background"])
        case["data"] = qlist(self._fix_zero_data([abs(Fraction(v)) + 1 for v in case["data"]], m, bg))
        case["inversion"] = {"kind": "real", "style": style, "objs": objs}
        return case

    # ------------------------------------------------------------------ implementation
    def _build(self, case):
        aa = load_autoarray()
        cl = _fit_classes(aa)
        mj = case["mask"]
        h, w = mj["h"], mj["w"]
        mb = np.array([c == "1" for c in mj["bits"]], dtype=bool).reshape(h, w)
        mask = aa.Mask2D(mask=mb, pixel_scales=(1.0, 1.0))
        feed = case.get("feed") or {}
        dtype, cont = feed.get("dtype", "float"), feed.get("container", "ndarray")

        def num(v):
            f = Fraction(v)
            return int(f) if dtype in ("int64", "pyint") else float(f)

        def pack(vals, shape=None):
            """the values as the chosen container / dtype (native: h×w nested; slim: flat)."""
            vals = [num(v) for v in vals]
            if shape is not None:
                vals = [vals[r * shape[1]:(r + 1) * shape[1]] for r in range(shape[0])]
            if cont == "list" or (dtype == "pyint" and cont == "ndarray"):
                return vals
            if cont == "tuple":
                return tuple(tuple(r) for r in vals) if shape is not None else tuple(vals)
            a = np.array(vals, dtype=np.int64 if dtype == "int64" else float)
            return a.reshape(shape) if shape is not None else a

        un = [i for i, c in enumerate(mj["bits"]) if c == "0"]
        mode = case["mode"]
        if mode == "native":
            arr = {k: aa.Array2D(values=pack(case[k], (h, w)), mask=mask, store_native=True,
                                 skip_mask=True) for k in ("data", "noise", "model")}
            dataset = aa.Imaging(data=arr["data"], noise_map=arr["noise"])
            use_mask = True
        elif mode == "slim":
            arr = {k: aa.Array2D(values=pack([case[k][i] for i in un]), mask=mask)
                   for k in ("data", "noise", "model")}
            dataset = aa.Imaging(data=arr["data"], noise_map=arr["noise"])
            use_mask = False if feed.get("use_mask_kw", "explicit") == "explicit" else None
        else:  # slim_applied: the usual route, an un-masked dataset with the mask applied
            full = aa.Imaging(
                data=aa.Array2D.no_mask(values=pack(case["data"], (h, w)), pixel_scales=(1.0, 1.0)),
                noise_map=aa.Array2D.no_mask(values=pack(case["noise"], (h, w)), pixel_scales=(1.0, 1.0)),
                check_noise_map=False)
            dataset = full.apply_mask(mask=mask)
            arr = {"model": aa.Array2D(values=pack(case["model"], (h, w)), mask=mask)}
            use_mask = False if feed.get("use_mask_kw", "explicit") == "explicit" else None
        bgq = Fraction(case["background"])
        dmk = feed.get("dm", "explicit" if bgq != 0 else "none")
        pass_dm = dmk != "omitted"
        if dmk in ("none", "omitted"):
            dm = None
        elif dmk == "default_obj":
            dm = aa.DatasetModel()
        elif dmk == "explicit_0.0":
            dm = aa.DatasetModel(background_sky_level=0.0)
        elif dmk == "explicit_0":
            dm = aa.DatasetModel(background_sky_level=0)
        elif dmk == "explicit_int" and bgq.denominator == 1:
            dm = aa.DatasetModel(background_sky_level=int(bgq))
        else:
            dm = aa.DatasetModel(background_sky_level=float(bgq))
        return aa, cl, mask, mb, dataset, arr["model"], use_mask, (dm, pass_dm)

    def _make_inversion(self, aa, cl, case, dataset, mask):
        inv = case.get("inversion")
        if inv is None:
            return None, None
        if inv["kind"] == "mock":
            t = {k: float(Fraction(v)) for k, v in inv["terms"].items()}
            return aa.m.MockInversion(linear_obj_list=[aa.m.MockMapper(regularization=aa.m.MockRegularization())],
                                      data_vector=1, **t), None

        def lin_objs(with_mm):
            out = []
            for o in inv["objs"]:
                reg = None
                if o["reg"] is not None:
                    rk = (case.get("feed") or {}).get("reg", "ndarray")
                    rm = [[float(Fraction(v)) for v in r] for r in o["reg"]]
                    if rk == "int_ndarray" and all(Fraction(v).denominator == 1 for r in o["reg"] for v in r):
                        rm = np.array([[int(Fraction(v)) for v in r] for r in o["reg"]], dtype=np.int64)
                    elif rk != "list":
                        rm = np.array(rm)
                    reg = aa.m.MockRegularization(regularization_matrix=rm)
                mm = None
                if with_mm:
                    mm = np.array([[float(Fraction(v)) for v in r] for r in o["mapping_matrix"]])
                if o["cls"] == "mapper":
                    out.append(aa.m.MockMapper(parameters=o["params"], regularization=reg,
                                               mapping_matrix=mm, edge_pixel_list=[]))
                elif with_mm:
                    out.append(aa.m.MockLinearObjFuncList(parameters=o["params"], regularization=reg,
                                                          mapping_matrix=mm,
                                                          grid=aa.Grid2D.from_mask(mask=mask)))
                else:
                    out.append(aa.m.MockLinearObj(parameters=o["params"], regularization=reg))
            return out

        if inv["kind"] == "abstract":
            F = [[float(Fraction(v)) for v in r] for r in inv["F"]]
            s = [float(Fraction(v)) for v in inv["s"]]
            return cl["Inv"](lin_objs(False), F, s), None
        # real: InversionImagingMapping on a dataset without blurring
        from autoarray.inversion.inversion.dataset_interface import DatasetInterface

        psf = aa.Kernel2D.no_mask(values=[[1.0]], pixel_scales=(1.0, 1.0))
        ds = DatasetInterface(data=dataset.data, noise_map=dataset.noise_map,
                              convolver=aa.Convolver(mask=mask, kernel=psf))
        mk = lambda: aa.Inversion(dataset=ds, linear_obj_list=lin_objs(True),
                                  settings=aa.SettingsInversion(use_w_tilde=False))
        return mk(), mk

    def run_impl(self, case):
        aa, cl, mask, mb, dataset, model, use_mask, dm = self._build(case)
        inversion, remake = self._make_inversion(aa, cl, case, dataset, mask)
        inv = case.get("inversion")
        extra = {}
        if inv is not None and inv["kind"] == "real":
            # the genuine pipeline: the model image is what the inversion reconstructs; F and s are
            # read off a twin inversion (curvature_reg_matrix adds H into the cached F in place)
            twin = remake()
            extra["F"] = qmat(np.array(twin.curvature_matrix))
            extra["s"] = qlist(np.array(inversion.reconstruction))
            model = aa.Array2D(values=np.array(inversion.mapped_reconstructed_data), mask=mask)
            extra["model"] = qlist(np.array(model))
        dm, pass_dm = dm
        feed = case.get("feed") or {}
        if feed.get("wrapper") == "mock" and case["fit_cls"] == "imaging":
            # the library's own thin subclass (aa.m.MockFitImaging) instead of the harness one
            kw = {"dataset": dataset, "model_data": model, "inversion": inversion}
            if use_mask is not None:
                kw["use_mask_in_fit"] = use_mask
            if pass_dm:
                kw["dataset_model"] = dm
            fit = aa.m.MockFitImaging(**kw)
        else:
            Fit = cl["FitI"] if case["fit_cls"] == "imaging" else cl["FitD"]
            fit = Fit(dataset, use_mask, model, dataset_model=dm, inversion=inversion, pass_dm=pass_dm)
        obs = {}
        for k in MAP_KEYS:
            obs[k] = qlist(np.asarray(getattr(fit, k), dtype=float).ravel())
        no_pixels = "0" not in case["mask"]["bits"]
        for k in ("chi_squared", "reduced_chi_squared", "noise_normalization", "log_likelihood",
                  "figure_of_merit", "log_evidence", "log_likelihood_with_regularization"):
            if k == "reduced_chi_squared" and no_pixels:
                obs[k] = None      # chi_squared / 0 pixels: undefined, not part of the property
                continue
            v = getattr(fit, k)
            obs[k] = None if v is None else q(float(v))
        if use_mask:
            obs["util_chi_squared_with_mask_fast"] = q(float(aa.util.fit.chi_squared_with_mask_fast_from(
                data=np.asarray(fit.data), mask=mb, model_data=np.asarray(model),
                noise_map=np.asarray(fit.noise_map))))
        if inversion is None:
            obs["inversion"] = None
        else:
            io = {"regularization_term": q(float(inversion.regularization_term)),
                  "log_det_curvature_reg_matrix_term": q(float(inversion.log_det_curvature_reg_matrix_term)),
                  "log_det_regularization_matrix_term": q(float(inversion.log_det_regularization_matrix_term))}
            if inv["kind"] != "mock":
                io["no_regularization_index_list"] = [int(i) for i in inversion.no_regularization_index_list]
                io["regularization_matrix"] = qmat(np.array(inversion.regularization_matrix))
                io["regularization_matrix_reduced"] = qmat(np.array(inversion.regularization_matrix_reduced))
                io["curvature_reg_matrix"] = qmat(np.array(inversion.curvature_reg_matrix))
                io["curvature_reg_matrix_reduced"] = qmat(np.array(inversion.curvature_reg_matrix_reduced))
                io["reconstruction_reduced"] = qlist(np.array(inversion.reconstruction_reduced))
            obs["inversion"] = io
        obs.update({"_" + k: v for k, v in extra.items()})
        return obs

    # ------------------------------------------------------------------ model
    def _slim(self, case, key, obs=None):
        bits = case["mask"]["bits"]
        return [v for v, b in zip(case[key], bits) if b == "0"]

    def model_requests(self, case, impl_obs):
        native = case["mode"] == "native"
        inv = case.get("inversion")
        model = case["model"] if native else self._slim(case, "model")
        ij = None
        if inv is not None:
            if inv["kind"] == "mock":
                ij = {"terms": inv["terms"]}
            elif inv["kind"] == "abstract":
                ij = {"objs": [{"params": o["params"], "reg": o["reg"]} for o in inv["objs"]],
                      "F": inv["F"], "s": inv["s"]}
            else:
                if "_F" not in impl_obs:
                    return []
                ij = {"objs": [{"params": o["params"], "reg": o["reg"]} for o in inv["objs"]],
                      "F": impl_obs["_F"], "s": impl_obs["_s"]}
                model = impl_obs["_model"]
        return [{
            "op": "c08.fit", "use_mask": native, "imaging": case["fit_cls"] == "imaging",
            "bits": case["mask"]["bits"],
            "data": case["data"] if native else self._slim(case, "data"),
            "noise": case["noise"] if native else self._slim(case, "noise"),
            "model": model, "background": case["background"], "inversion": ij,
        }]

    def model_obs(self, case, responses):
        r = responses[0]
        if "ok" not in r:
            return {"err": r.get("err")}
        o = r["ok"]
        if case["mode"] == "native":
            o["util_chi_squared_with_mask_fast"] = o["chi_squared"]
        if "0" not in case["mask"]["bits"]:
            o["reduced_chi_squared"] = None
        return o

    def compare(self, case, impl_obs, model_obs, cmp):
        a = {k: v for k, v in impl_obs.items() if not k.startswith("_")} if isinstance(impl_obs, dict) else impl_obs
        return cmp.diff(a, model_obs)

    # ------------------------------------------------------------------ oracle
    def oracle(self, case, obs):
        if "err" in obs:
            return False, f"implementation raised {obs['err']}: {obs.get('msg', '')}"
        bits = case["mask"]["bits"]
        native = case["mode"] == "native"
        un = [i for i, b in enumerate(bits) if b == "0"]
        pos = un if native else list(range(len(un)))      # where pixel k sits in the reported maps
        bg = _fr(case["background"]) if case["fit_cls"] == "imaging" else Fraction(0)
        data = [_fr(case["data"][i]) - bg for i in un]
        noise = [_fr(case["noise"][i]) for i in un]
        inv = case.get("inversion")
        if inv is not None and inv["kind"] == "real":
            model = [_fr(v) for v in obs["_model"]]
        else:
            model = [_fr(case["model"][i]) for i in un]
        res = [d - m for d, m in zip(data, model)]
        exp_maps = {
            "data": data,
            "residual_map": res,
            "normalized_residual_map": [r / n for r, n in zip(res, noise)],
            "chi_squared_map": [(r / n) ** 2 for r, n in zip(res, noise)],
            "residual_flux_fraction_map": [r / d for r, d in zip(res, data)],
            "signal_to_noise_map": [max(d / n, Fraction(0)) for d, n in zip(data, noise)],
        }
        nmap = len(bits) if native else len(un)
        for k, exp in exp_maps.items():
            got = obs[k]
            if len(got) != nmap:
                return False, f"{k}: {len(got)} entries reported, expected {nmap}"
            for j, p in enumerate(pos):
                if not _close(Fraction(got[p]), exp[j]):
                    return False, (f"{k}[pixel {un[j]}] = {float(Fraction(got[p]))!r}, definition gives "
                                   f"{float(exp[j])!r}")
        chi = sum(exp_maps["chi_squared_map"], Fraction(0))
        norm = sum(math.log(2.0 * math.pi * float(n) ** 2) for n in noise)
        scal = {
            "chi_squared": float(chi),
            **({"reduced_chi_squared": float(chi / len(un))} if un else {}),
            "noise_normalization": norm,
            "log_likelihood": -0.5 * (float(chi) + norm),
        }
        for k, e in scal.items():
            if not _close(Fraction(obs[k]), e):
                return False, (f"{k} = {float(Fraction(obs[k]))!r}, definition over the unmasked pixels "
                               f"gives {e!r}")
        if inv is None:
            for k in ("log_evidence", "log_likelihood_with_regularization"):
                if obs[k] is not None:
                    return False, f"{k} reported without an inversion"
            if not _close(Fraction(obs["figure_of_merit"]), scal["log_likelihood"]):
                return False, "figure_of_merit is not the log likelihood although no inversion is present"
            return True, ""
        io = obs["inversion"]
        if inv["kind"] == "mock":
            reg, lcr, lr = (float(Fraction(inv["terms"][k])) for k in
                            ("regularization_term", "log_det_curvature_reg_matrix_term",
                             "log_det_regularization_matrix_term"))
        else:
            objs = inv["objs"]
            F = inv["F"] if inv["kind"] == "abstract" else obs["_F"]
            s = inv["s"] if inv["kind"] == "abstract" else obs["_s"]
            F = [[_fr(v) for v in r] for r in F]
            s = [_fr(v) for v in s]
            # regularized parameter positions, object by object
            keep, off, reg_q = [], 0, Fraction(0)
            blocks = []
            for o in objs:
                p = o["params"]
                if o["reg"] is not None:
                    H = [[_fr(v) for v in r] for r in o["reg"]]
                    so = s[off:off + p]
                    reg_q += sum(so[a] * H[a][b] * so[b] for a in range(p) for b in range(p))
                    blocks.append((len(keep), H))
                    keep += list(range(off, off + p))
                off += p
            if not keep:
                reg, lcr, lr = 0.0, 0.0, 0.0
            else:
                nk = len(keep)
                Hr = [[Fraction(0)] * nk for _ in range(nk)]
                for st, H in blocks:
                    for a in range(len(H)):
                        for b in range(len(H)):
                            Hr[st + a][st + b] = H[a][b]
                FH = np.array([[float(F[keep[a]][keep[b]] + Hr[a][b]) for b in range(nk)] for a in range(nk)])
                sg1, ld1 = np.linalg.slogdet(FH)
                sg2, ld2 = np.linalg.slogdet(np.array([[float(v) for v in r] for r in Hr]))
                if sg1 <= 0 or sg2 <= 0:
                    return True, "matrices not positive definite: outside the property's domain"
                reg, lcr, lr = float(reg_q), float(ld1), float(ld2)
                # exact rational log-determinants of the same principal sub-matrices
                FHq = [[F[keep[a]][keep[b]] + Hr[a][b] for b in range(nk)] for a in range(nk)]
                e1, e2 = _exact_logdet(FHq), _exact_logdet(Hr)
                if e1 is not None and e2 is not None:
                    lcr, lr = e1, e2
                # the factorisation contracts the Lean theorems assume, on the matrices the
                # implementation itself handed to numpy / SuperLU
                why = _factorisation_contracts(
                    np.array([[_f(v) for v in r] for r in io["curvature_reg_matrix_reduced"]]).reshape(nk, nk),
                    np.array([[_f(v) for v in r] for r in io["regularization_matrix_reduced"]]).reshape(nk, nk))
                if why:
                    return False, "factorisation contract (trusted base) not met: " + why
        for k, e in (("regularization_term", reg), ("log_det_curvature_reg_matrix_term", lcr),
                     ("log_det_regularization_matrix_term", lr)):
            if not _close(Fraction(io[k]), e):
                return False, (f"inversion.{k} = {float(Fraction(io[k]))!r}; restricted to the regularized "
                               f"parameters the definition gives {e!r}")
        chi_f = scal["chi_squared"]
        ev = -0.5 * (chi_f + reg + lcr - lr + norm)
        llr = -0.5 * (chi_f + reg + norm)
        if obs["log_evidence"] is None or not _close(Fraction(obs["log_evidence"]), ev):
            return False, f"log_evidence = {obs['log_evidence']}, definition gives {ev!r}"
        if obs["log_likelihood_with_regularization"] is None or not _close(
                Fraction(obs["log_likelihood_with_regularization"]), llr):
            return False, "log_likelihood_with_regularization does not follow its definition"
        if not _close(Fraction(obs["figure_of_merit"]), ev):
            return False, "figure_of_merit is not the log evidence although an inversion is present"
        return True, ""

    # ------------------------------------------------------------------ misc
    def nontrivial(self, case, obs):
        bits = case["mask"]["bits"]
        return ("0" in bits and "1" in bits) or case.get("inversion") is not None

    def shrink(self, case):
        if case.get("inversion") is not None and case["inversion"]["kind"] != "real":
            yield {**case, "inversion": None}
        if Fraction(case["background"]) != 0:
            yield {**case, "background": "0"}
        mj = case["mask"]
        bits = mj["bits"]
        if case.get("inversion") is None or case["inversion"]["kind"] != "real":
            for i, c in enumerate(bits):
                if c == "0" and bits.count("0") > 1:
                    yield {**case, "mask": {**mj, "bits": bits[:i] + "1" + bits[i + 1:]}}

    def theorems_for(self, case):
        native = case["mode"] == "native"
        t = ["C08.a_background_offset", "C08.a_maps_masked" if native else "C08.a_maps_slim",
             "C08.a_signal_to_noise_clipped", "C08.a_reduced_chi_squared",
             "C08.b_masked_sums_over_unmasked" if native else "C08.b_slim_sums",
             "C08.b_masked_native_eq_slim", "C08.b_masked_values_irrelevant", "C08.b_select_is_slim",
             "C08.c_log_likelihood", "C08.c_figure_of_merit"]
        if case.get("inversion") is not None:
            t += ["C08.c_log_evidence", "C08.c_unregularized_inversion_gives_likelihood",
                  "C08.c_log_det_via_cholesky", "C08.c_log_det_via_lu",
                  "C08.c_log_evidence_with_determinants",
                  "C08.d_no_regularization_index_list", "C08.d_no_regularization_index_list_sorted",
                  "C08.d_regularization_matrix_unregularized_zero", "C08.d_regularization_term_reduced",
                  "C08.d_reduced_matrices", "C08.d_all_regularized_nothing_removed"]
        return t

    def sample_view(self, case):
        return {k: v for k, v in case.items() if not k.startswith("_")}


CHECK = C08()
