"""C08 — fit statistics and evidence follow their definitions on unmasked pixels only."""
from __future__ import annotations

import json
import math
import os
from fractions import Fraction

# one BLAS thread: the large-inversion cases (hundreds to ~2000 parameters) call LAPACK, and a multi-threaded
# OpenBLAS on a loaded machine is 100-1000x slower than a single thread at these sizes
for _v in ("OPENBLAS_NUM_THREADS", "OMP_NUM_THREADS", "MKL_NUM_THREADS"):
    os.environ.setdefault(_v, "1")

import numpy as np

try:
    import threadpoolctl as _tpc

    _BLAS_LIMIT = _tpc.threadpool_limits(limits=1)
except Exception:  # pragma: no cover
    _BLAS_LIMIT = None

import gen
from common import PropertyCheck, load_autoarray, mask_json, q, qlist, qmat

TOL = 1e-9
MAP_KEYS = ["data", "residual_map", "normalized_residual_map", "chi_squared_map",
            "residual_flux_fraction_map", "signal_to_noise_map"]

_classes = {}


class _UserFault(RuntimeError):
    """raised by the harness' own user-side model_data (history stream)."""


def _fit_classes(aa):
    """user-side subclasses exactly as the library intends: the fit supplies model data / inversion."""
    if _classes:
        return _classes
    from autoconf import cached_property
    from autoarray.inversion.inversion.abstract import AbstractInversion
    from autoarray.inversion.inversion.dataset_interface import DatasetInterface

    def _kw(use_mask_in_fit, dataset_model, pass_dm):
        kw = {}
        if use_mask_in_fit is not None:        # None = leave the keyword to its default (False)
            kw["use_mask_in_fit"] = use_mask_in_fit
        if pass_dm:
            kw["dataset_model"] = dataset_model
        return kw

    class FitI(aa.FitImaging):
        def __init__(self, dataset, use_mask_in_fit, model_data, dataset_model=None, inversion=None,
                     pass_dm=True, **extra):
            super().__init__(dataset=dataset, **_kw(use_mask_in_fit, dataset_model, pass_dm), **extra)
            self._model_data = model_data
            self._inversion = inversion

        @property
        def model_data(self):
            return self._model_data

        @property
        def inversion(self):
            return self._inversion

    class FitD(aa.FitDataset):
        def __init__(self, dataset, use_mask_in_fit, model_data, dataset_model=None, inversion=None,
                     pass_dm=True, **extra):
            super().__init__(dataset=dataset, **_kw(use_mask_in_fit, dataset_model, pass_dm), **extra)
            self._model_data = model_data
            self._inversion = inversion

        @property
        def model_data(self):
            return self._model_data

        @property
        def inversion(self):
            return self._inversion

    class Inv(AbstractInversion):
        """an inversion whose curvature matrix F and reconstruction s are given; everything the
        property is about (H by block_diag, F+H, the reduced matrices, the three evidence terms) is
        computed by the real AbstractInversion code."""

        def __init__(self, linear_obj_list, F, s, **kw):
            # kw: the remaining constructor options of AbstractInversion (settings / preloads / run_time_dict),
            # passed only when a case sets them
            super().__init__(dataset=DatasetInterface(data=None, noise_map=None),
                             linear_obj_list=linear_obj_list, **kw)
            self._F = np.array(F, dtype=float)
            self._s = np.array(s, dtype=float)

        @cached_property
        def curvature_matrix(self):
            return np.array(self._F)

        @property
        def reconstruction(self):
            return self._s

    class FitFault(FitI):
        """a user fit whose model_data raises on its k-th access (history stream: fault, then reuse)."""
        _raise_at = 0
        _reads = 0

        @property
        def model_data(self):
            self._reads += 1
            if self._reads == self._raise_at:
                raise _UserFault("model_data unavailable")
            return self._model_data

    _classes.update(FitI=FitI, FitD=FitD, Inv=Inv, FitFault=FitFault)
    return _classes


def _fr(x):
    return Fraction(x)


def _f(x):
    return float(Fraction(x))


def _flt(x):
    """float of an observation entry ("p/q" string, "inf" / "-inf" / "nan", number)."""
    if isinstance(x, str) and x in ("inf", "-inf", "nan"):
        return float(x)
    return float(Fraction(x))


def _close(a, b, tol=TOL, scale=0.0):
    """|a-b| <= 1e-9 max(1,|a|,|b|); `scale` (large-case oracle only): magnitude of the terms a composite
    quantity is a signed sum of, so cancellation between exactly-defined terms is not held against the code."""
    a, b = float(a), float(b)
    if a != a or b != b or abs(a) == float("inf") or abs(b) == float("inf"):
        return False
    return abs(a - b) <= tol * max(1.0, abs(a), abs(b), abs(float(scale)))


def _digest(got, want, pos=None):
    """vectorised element-wise check of a large reported array against its definition: None when every entry
    (at positions `pos` of `got`) is within 1e-9 max(1,|.|) of `want`, else [index, got, want] of the first
    offender.  Keeps large observations small."""
    got = np.asarray(got, dtype=float).ravel()
    want = np.asarray(want, dtype=float).ravel()
    if pos is not None:
        if got.size and len(pos) and int(np.max(pos)) >= got.size:
            return [-1, f"{got.size} entries", f">{int(np.max(pos))} expected"]
        got = got[pos]
    if got.shape != want.shape:
        return [-1, f"{got.size} entries", f"{want.size} entries"]
    with np.errstate(all="ignore"):
        tol = TOL * np.maximum(1.0, np.maximum(np.abs(got), np.abs(want)))
        bad = ~(np.abs(got - want) <= tol)      # NaN / inf compare False -> bad
    if not bad.any():
        return None
    i = int(np.argmax(bad))
    return [i, repr(float(got[i])), repr(float(want[i]))]


def _exact_logdet(M):
    """log det of a symmetric positive-definite matrix of Fractions: exact rational elimination
    (LDL^T pivots), logs of the exact pivots.  None when a pivot is not positive."""
    n = len(M)
    a = [row[:] for row in M]
    acc = 0.0
    for k in range(n):
        p = a[k][k]
        if p <= 0:
            return None
        acc += math.log(p.numerator) - math.log(p.denominator)
        for i in range(k + 1, n):
            f = a[i][k] / p
            if f:
                for j in range(k, n):
                    a[i][j] -= f * a[k][j]
    return acc


def _factorisation_contracts(FH, H):
    """the contracts under which C08.c_log_det_via_cholesky / c_log_det_via_lu hold, checked on the
    factorisations numpy / SuperLU actually return for these matrices.  '' when met."""
    from scipy.sparse import csc_matrix
    from scipy.sparse.linalg import splu

    n = FH.shape[0]
    L = np.linalg.cholesky(FH)
    sc = max(1.0, float(np.max(np.abs(FH))))
    if np.any(np.triu(L, 1) != 0) or np.any(np.diag(L) <= 0):
        return "numpy.linalg.cholesky: factor not lower-triangular with positive diagonal"
    if np.max(np.abs(L @ L.T - FH)) > TOL * sc:
        return "numpy.linalg.cholesky: L L^T does not reconstruct the matrix to 1e-9"
    lu = splu(csc_matrix(H))
    Lm, Um = lu.L.toarray(), lu.U.toarray()
    if np.any(np.triu(Lm, 1) != 0) or np.any(np.tril(Um, -1) != 0):
        return "splu: L / U not triangular"
    Pr = np.zeros((n, n))
    Pr[lu.perm_r, np.arange(n)] = 1.0
    Pc = np.zeros((n, n))
    Pc[np.arange(n), lu.perm_c] = 1.0
    sc2 = max(1.0, float(np.max(np.abs(H))))
    if np.max(np.abs(Pr @ H @ Pc - Lm @ Um)) > TOL * sc2:
        return "splu: Pr A Pc != L U to 1e-9"
    return ""


def _layout(a, kind):
    """an array EQUAL in value to `a` in another memory layout / container (R5-C): Fortran order, a transposed
    view, a non-contiguous strided slice of a larger buffer, a read-only array, a (nested) python list."""
    a = np.array(a)
    if kind in (None, "C"):
        return a
    if kind == "F":
        return np.asfortranarray(a)
    if kind == "T":                     # a transposed VIEW of the contiguous transpose (F-ordered, not owning)
        return np.ascontiguousarray(a.T).T
    if kind == "strided":               # every second element of a buffer twice as large, the gaps hold junk
        big = np.full(tuple(2 * n for n in a.shape), -12345, dtype=a.dtype)
        sl = tuple(slice(None, None, 2) for _ in a.shape)
        big[sl] = a
        return big[sl]
    if kind == "ro":
        b = a.copy()
        b.setflags(write=False)
        return b
    if kind == "list":
        return a.tolist()
    raise ValueError(kind)


def _buffer(o):
    """the ndarray buffer behind an object the API returned / accepted (autoarray structure, ndarray), or None."""
    if isinstance(o, np.ndarray):
        return o
    inner = getattr(o, "_array", None)
    if isinstance(inner, np.ndarray):
        return inner
    return None


def _scribble(objs, how):
    """the caller edits, in place, arrays it was handed or handed in (R5-B).  Never raises."""
    n = 0
    for o in objs:
        b = _buffer(o)
        if b is None or b.size == 0 or not b.flags.writeable:
            continue
        try:
            if b.dtype == bool:
                b[...] = ~b if how == "inc" else True
            elif how == "nan" and b.dtype.kind == "f":
                b[...] = np.nan
            elif how == "inc":
                b += 1
            elif how == "zero":
                b[...] = 0
            else:
                b[...] = -7
            n += 1
        except Exception:
            pass
    return n


def _is_double(x):
    """is the rational x exactly a finite IEEE double?"""
    try:
        return Fraction(float(x)) == x
    except (OverflowError, ValueError):
        return False


def _rclose(got, want, floor=0, tol=TOL):
    """scale-free comparison (decades stream): |got - want| <= 1e-9 (max(|got|, |want|) + floor).  `floor` is the
    magnitude of what the quantity was computed FROM when that computation can cancel, so only rounding that
    IEEE arithmetic forces is forgiven; there is no absolute floor."""
    try:
        g, w = Fraction(got), Fraction(want)
    except (ValueError, TypeError):
        return False
    return abs(g - w) <= Fraction(tol) * (max(abs(g), abs(w)) + abs(Fraction(floor)))


def _spd_int(rng, n, lo=-2, hi=2, ridge=1):
    a = [[rng.randint(lo, hi) for _ in range(n)] for _ in range(n)]
    return [[sum(a[k][i] * a[k][j] for k in range(n)) + (ridge if i == j else 0) for j in range(n)]
            for i in range(n)]


class _conf_guard:
    """context manager (R5-D): item assignments on the live autoconf configuration (`general.<section>.<key>`),
    all restored on exit — also on exceptions — and verified restored."""

    def __enter__(self):
        from autoconf import conf

        self.inst = conf.instance
        self.saved = {}
        return self

    def set(self, section, key, value):
        sec = self.inst["general"][section]
        if (section, key) not in self.saved:
            self.saved[(section, key)] = sec[key]
        sec[key] = value

    def __exit__(self, *exc_info):
        for (section, key), v in self.saved.items():
            self.inst["general"][section][key] = v
        for (section, key), v in self.saved.items():
            if self.inst["general"][section][key] != v:
                raise RuntimeError(f"harness: configuration value general.{section}.{key} not restored")
        return False


class C08(PropertyCheck):
    pid = "C08"
    loop_tie_modules = ["VecFit", "LoopsFit2"]  # fit_util + FitDataset/FitImaging glue (translate_vec), noise-map replacement loop
    title = "fit statistics and evidence"
    rtol = Fraction(1, 10 ** 9)
    nontrivial_rule = (
        "a case is non-trivial when its mask has both masked and unmasked pixels or it carries an "
        "inversion; distinct = distinct (mask, arrays, mode, fit class, background, inversion); every large-scale "
        "recipe and every history (>= 2 steps on reused objects) counts as non-trivial"
    )
    exhaustive_note = {
        "quick": "every mask with >=1 unmasked pixel for every shape with H*W <= 6, in the masked-native and the slim mode",
        "thorough": "every mask with >=1 unmasked pixel for every shape with H*W <= 9, in the masked-native and the slim mode",
    }
    trusted_extra = [
        "numpy.linalg.cholesky and scipy splu are parameters of the model under their contracts (L lower-triangular, positive diagonal, L L^T = A; Pr A Pc = L U with triangular L, U): under these C08.c_log_det_via_cholesky / c_log_det_via_lu prove the reported terms equal log det; the contracts are checked on every inversion case on the factorisations actually returned (1e-9) and the reported terms are compared with exact rational LDL^T log-determinants; the driver instantiates the parameters with a Float Cholesky / Doolittle LU",
        "libm log; 2*pi as the double 6.283185307179586",
        "numpy library semantics modelled, not verified: boolean-mask indexing, np.delete, scipy.linalg.block_diag, np.matmul, ufunc out=/where=",
    ]
    modelled_functions = [
        "autoarray/fit/fit_util.py:residual_map_from",
        "autoarray/fit/fit_util.py:normalized_residual_map_from",
        "autoarray/fit/fit_util.py:chi_squared_map_from",
        "autoarray/fit/fit_util.py:chi_squared_from",
        "autoarray/fit/fit_util.py:noise_normalization_from",
        "autoarray/fit/fit_util.py:residual_map_with_mask_from",
        "autoarray/fit/fit_util.py:normalized_residual_map_with_mask_from",
        "autoarray/fit/fit_util.py:chi_squared_map_with_mask_from",
        "autoarray/fit/fit_util.py:chi_squared_with_mask_from",
        "autoarray/fit/fit_util.py:chi_squared_with_mask_fast_from",
        "autoarray/fit/fit_util.py:noise_normalization_with_mask_from",
        "autoarray/fit/fit_util.py:log_likelihood_from",
        "autoarray/fit/fit_util.py:log_likelihood_with_regularization_from",
        "autoarray/fit/fit_util.py:log_evidence_from",
        "autoarray/fit/fit_util.py:residual_flux_fraction_map_from",
        "autoarray/fit/fit_util.py:residual_flux_fraction_map_with_mask_from",
        "autoarray/fit/fit_util.py:to_new_array",
        "autoarray/fit/fit_dataset.py:AbstractFit.signal_to_noise_map",
        "autoarray/fit/fit_dataset.py:AbstractFit.residual_map",
        "autoarray/fit/fit_dataset.py:AbstractFit.normalized_residual_map",
        "autoarray/fit/fit_dataset.py:AbstractFit.chi_squared_map",
        "autoarray/fit/fit_dataset.py:AbstractFit.chi_squared",
        "autoarray/fit/fit_dataset.py:AbstractFit.noise_normalization",
        "autoarray/fit/fit_dataset.py:AbstractFit.log_likelihood",
        "autoarray/fit/fit_dataset.py:FitDataset.data",
        "autoarray/fit/fit_dataset.py:FitDataset.noise_map",
        "autoarray/fit/fit_dataset.py:FitDataset.residual_map",
        "autoarray/fit/fit_dataset.py:FitDataset.normalized_residual_map",
        "autoarray/fit/fit_dataset.py:FitDataset.chi_squared_map",
        "autoarray/fit/fit_dataset.py:FitDataset.chi_squared",
        "autoarray/fit/fit_dataset.py:FitDataset.noise_normalization",
        "autoarray/fit/fit_dataset.py:FitDataset.log_likelihood_with_regularization",
        "autoarray/fit/fit_dataset.py:FitDataset.log_evidence",
        "autoarray/fit/fit_dataset.py:FitDataset.figure_of_merit",
        "autoarray/fit/fit_dataset.py:FitDataset.residual_flux_fraction_map",
        "autoarray/fit/fit_dataset.py:FitDataset.reduced_chi_squared",
        "autoarray/fit/fit_imaging.py:FitImaging.data",
        "autoarray/inversion/inversion/abstract.py:AbstractInversion.has",
        "autoarray/inversion/inversion/abstract.py:AbstractInversion.param_range_list_from",
        "autoarray/inversion/inversion/abstract.py:AbstractInversion.regularization_list",
        "autoarray/inversion/inversion/abstract.py:AbstractInversion.all_linear_obj_have_regularization",
        "autoarray/inversion/inversion/abstract.py:AbstractInversion.no_regularization_index_list",
        "autoarray/inversion/inversion/abstract.py:AbstractInversion.regularization_matrix",
        "autoarray/inversion/inversion/abstract.py:AbstractInversion.regularization_matrix_reduced",
        "autoarray/inversion/inversion/abstract.py:AbstractInversion.curvature_reg_matrix",
        "autoarray/inversion/inversion/abstract.py:AbstractInversion.curvature_reg_matrix_reduced",
        "autoarray/inversion/inversion/abstract.py:AbstractInversion.reconstruction_reduced",
        "autoarray/inversion/inversion/abstract.py:AbstractInversion.regularization_term",
        "autoarray/inversion/inversion/abstract.py:AbstractInversion.log_det_curvature_reg_matrix_term",
        "autoarray/inversion/inversion/abstract.py:AbstractInversion.log_det_regularization_matrix_term",
        "autoarray/inversion/linear_obj/linear_obj.py:LinearObj.regularization_matrix",
        "autoarray/util/misc_util.py:has",
    ]
    assumptions = [
        "noise-map entries at unmasked pixels are positive; (data - background) is non-zero wherever residual/data is evaluated",
        "no noise covariance matrix in the dataset (outside the property's quantifier)",
        "F + H and H restricted to the regularized parameters are symmetric positive definite (otherwise the code raises)",
    ]

    # ------------------------------------------------------------------ generation
    def _arrays(self, rng, m, exact_noise=False, ints=False):
        h, w = len(m), len(m[0])
        n = h * w
        data, noise, model = [], [], []
        for i in range(n):
            masked = m[i // w][i % w]
            if ints:
                d = Fraction(rng.randint(-9, 9))
                mo = Fraction(rng.randint(-9, 9))
                no = Fraction(rng.choice([1, 2, 4, 8]) if exact_noise else rng.randint(1, 7))
            else:
                d = gen.dyadic(rng, -8, 8, 3)
                mo = gen.dyadic(rng, -8, 8, 3)
                if exact_noise:
                    no = Fraction(rng.choice([1, 2, 4, 8]), rng.choice([1, 2, 4]))
                else:
                    no = gen.pos_dyadic(rng, 1, 6, 2)
            if masked:
                # junk in masked cells: huge / negative / zero data, negative noise (never zero: the
                # un-masked signal-to-noise division runs over every stored cell)
                r = rng.random()
                if r < 0.3:
                    d = Fraction(rng.choice([-1, 1]) * rng.randint(1000, 100000))
                elif r < 0.4:
                    d = Fraction(0)
                if rng.random() < 0.4:
                    no = -no
                if rng.random() < 0.2:
                    no = no * 1000
                if rng.random() < 0.3:
                    mo = Fraction(rng.randint(-10 ** 6, 10 ** 6))
            data.append(d)
            noise.append(no)
            model.append(mo)
        return data, noise, model

    def _background(self, rng, data, m, ints=False):
        """a (signed) background level that leaves (data - bg) non-zero at every unmasked pixel."""
        w = len(m[0])
        for _ in range(20):
            bg = Fraction(rng.randint(-4, 4)) if ints else gen.dyadic(rng, -4, 4, 4)
            if bg != 0 and all(d != bg for i, d in enumerate(data) if not m[i // w][i % w]):
                return bg
        return Fraction(1, 32)

    def _fix_zero_data(self, data, m, bg, ints=False):
        w = len(m[0])
        return [d if (m[i // w][i % w] or d - bg != 0) else d + (Fraction(1) if ints else Fraction(1, 8))
                for i, d in enumerate(data)]

    def _feed(self, rng, ints, mode, bg, inv):
        """how the numbers reach the public API (round-3 hardening): dtype and container of every
        array argument, "set but falsy" / explicit-default option values, thin wrappers."""
        feed = {
            # dtype of data / noise / model arrays: integer dtypes only when every value is an integer
            "dtype": rng.choice(["int64", "pyint", "float"]) if ints else "float",
            # ndarray vs nested python lists handed to Array2D
            "container": rng.choice(["ndarray", "list"]),   # (Array2D documents list / ndarray; tuples are rejected)
            # zero sky level: no dataset model / keyword omitted / default object / explicit 0.0 / explicit 0
            "dm": (rng.choice(["none", "omitted", "default_obj", "explicit_0.0", "explicit_0"])
                   if bg == 0 else ("explicit_int" if (ints and rng.random() < 0.7) else "explicit")),
            # use_mask_in_fit=False passed explicitly or left to its default
            "use_mask_kw": "explicit" if mode == "native" else rng.choice(["explicit", "default"]),
            # the library's own thin FitImaging subclass instead of the harness one
            "wrapper": "mock" if rng.random() < 0.2 else "harness",
            # regularization blocks as ndarray or nested lists; integer dtype where integral
            "reg": rng.choice(["ndarray", "list", "int_ndarray"]),
        }
        return feed

    def _inversion(self, rng, style=None):
        style = style or rng.choice(["all_reg", "partial", "partial", "none_reg", "mock"])
        if style == "mock":
            return {"kind": "mock", "terms": {
                "regularization_term": q(gen.dyadic(rng, -4, 12, 3)),
                "log_det_curvature_reg_matrix_term": q(gen.dyadic(rng, -6, 20, 3)),
                "log_det_regularization_matrix_term": q(gen.dyadic(rng, -20, 6, 3))}}
        k = rng.randint(1, 3)
        if style == "all_reg":
            flags = [True] * k
        elif style == "none_reg":
            flags = [False] * k
        else:
            k = max(k, 2)
            flags = [rng.random() < 0.5 for _ in range(k)]
            if all(flags):
                flags[rng.randrange(k)] = False
            if not any(flags):
                flags[rng.randrange(k)] = True
        objs = []
        for fl in flags:
            p = rng.randint(1, 3)
            objs.append({"params": p, "cls": rng.choice(["mapper", "linear"]),
                         "reg": qmat(_spd_int(rng, p)) if fl else None})
        tot = sum(o["params"] for o in objs)
        F = _spd_int(rng, tot, ridge=rng.randint(1, 3))
        s = [gen.dyadic(rng, -4, 4, 2) for _ in range(tot)]
        return {"kind": "abstract", "style": style, "objs": objs, "F": qmat(F), "s": qlist(s)}

    def _case(self, rng, m, tag, mode, fit_cls, with_bg, inv, exact_noise=False, ints=None):
        if ints is None:
            ints = rng.random() < 0.22
        data, noise, model = self._arrays(rng, m, exact_noise, ints)
        bg = Fraction(0)
        if with_bg:
            bg = self._background(rng, data, m, ints)
        eff_bg = bg if fit_cls == "imaging" else Fraction(0)
        data = self._fix_zero_data(data, m, eff_bg, ints)
        if mode == "slim_applied":
            # the un-masked dataset is validated by Imaging only where check_noise_map is on; keep
            # the noise map positive everywhere so both constructions are legal
            noise = [abs(v) for v in noise]
        return {"tag": tag + ("_int" if ints else ""), "kind": "fit", "mask": mask_json(m), "mode": mode,
                "fit_cls": fit_cls,
                "data": qlist(data), "noise": qlist(noise), "model": qlist(model),
                "background": q(bg), "inversion": inv, "feed": self._feed(rng, ints, mode, bg, inv)}

    def generate(self, tier, rng):
        if tier != "quick":
            # round-4 streams first: escalated quick runs and the failing-input search cut the thorough
            # generator by time
            yield from self._big_stream(tier, rng)
            yield from self._hist_stream(tier, rng)
            yield from self._r56_stream(tier, rng)
        yield from self._generate_small(tier, rng)
        if tier == "quick":
            yield from self._r56_stream(tier, rng)
            yield from self._big_stream(tier, rng)
            yield from self._hist_stream(tier, rng)

    def _r56_stream(self, tier, rng):
        """round-5/6 single-call streams: decades (scale-free comparison), container / layout variants, options
        crossed pairwise."""
        quick = tier == "quick"
        for i in range(126 if quick else 1500):
            c = self._gen_dec(rng, i)
            if c is not None:
                yield c
        for i in range(40 if quick else 450):
            c = self._gen_dec(rng, i, extreme=True)
            if c is not None:
                yield c
        for i in range(84 if quick else 1050):
            yield self._gen_layout(rng, i)
        yield from self._gen_opts(rng, 70 if quick else None)

    def _generate_small(self, tier, rng):
        cells = 6 if tier == "quick" else 9
        # 1. exhaustive masks, both evaluation modes, no inversion
        for (h, w) in gen.shapes_upto(cells):
            for m in gen.all_masks(h, w):
                for mode in ("native", "slim"):
                    yield self._case(rng, m, f"exh_{mode}", mode,
                                     "imaging" if rng.random() < 0.7 else "dataset",
                                     rng.random() < 0.5, None, exact_noise=rng.random() < 0.5)
        # 1b. degenerate: no unmasked pixel at all (sums over nothing), every frame shape of the box
        for (h, w) in gen.shapes_upto(4):
            for mode in ("native", "slim"):
                yield self._case(rng, gen.full(h, w), f"zero_unmasked_{mode}", mode, "imaging",
                                 rng.random() < 0.5, None)
        # 2. structured random masks × mode × background × inversion styles
        n = 300 if tier == "quick" else 2500
        styles = [None, "all_reg", "partial", "none_reg", "mock"]
        for i in range(n):
            h, w = rng.randint(2, 9), rng.randint(2, 9)
            m, kind = gen.random_mask(rng, h, w)
            for mode in ("native", "slim", "slim_applied"):
                st = styles[(i + ("native", "slim", "slim_applied").index(mode)) % len(styles)]
                inv = self._inversion(rng, st) if st else None
                fit_cls = "dataset" if (rng.random() < 0.25 and mode != "slim_applied") else "imaging"
                yield self._case(rng, m, f"rnd_{mode}_{st or 'noinv'}", mode, fit_cls,
                                 rng.random() < 0.6, inv, exact_noise=rng.random() < 0.3)
        # 3. real inversion pipeline (InversionImagingMapping: real F, real solver, model data from it)
        n_real = 30 if tier == "quick" else 200
        for i in range(n_real):
            h, w = rng.randint(3, 6), rng.randint(3, 6)
            m, kind = gen.random_mask(rng, h, w, kind=rng.choice(["block", "blocks", "bernoulli", "all", "cross"]))
            yield self._real_case(rng, m, i)

    def _real_case(self, rng, m, i):
        h, w = len(m), len(m[0])
        npix = sum(1 for r in m for b in r if not b)
        style = ["all_reg", "partial", "partial_first"][i % 3]
        objs = []
        k = 1 if style == "all_reg" and rng.random() < 0.5 else 2
        for j in range(k):
            p = rng.randint(1, 3)
            if style == "all_reg":
                reg = True
            elif style == "partial":
                reg = j == 0
            else:
                reg = j == 1
            mm = [[gen.pos_dyadic(rng, 0, 2, 2) if rng.random() < 0.7 else Fraction(0)
                   for _ in range(p)] for _ in range(npix)]
            for c in range(p):  # no empty column
                if all(row[c] == 0 for row in mm):
                    mm[rng.randrange(npix)][c] = Fraction(1)
            objs.append({"params": p, "cls": "mapper" if reg else "linear",
                         "reg": qmat(_spd_int(rng, p, ridge=2)) if reg else None,
                         "mapping_matrix": qmat(mm)})
        case = self._case(rng, m, f"real_{style}", "slim", "imaging", rng.random() < 0.5, None, ints=False)
        # real pipeline: positive data so the positive-only solver has something to fit
        bg = Fraction(case["background"])
        case["data"] = qlist(self._fix_zero_data([abs(Fraction(v)) + 1 for v in case["data"]], m, bg))
        case["inversion"] = {"kind": "real", "style": style, "objs": objs}
        return case

    # ---- generators of the large / extreme-scale stream
    @staticmethod
    def _frame_for(npix):
        """a non-square frame with exactly npix pixels (largest divisor <= sqrt; 1 x npix for primes)."""
        d = int(math.isqrt(npix))
        while d > 1 and npix % d:
            d -= 1
        if d * d == npix and d > 2:            # perfect square: prefer a non-square factorisation if any
            for e in range(d - 1, 1, -1):
                if npix % e == 0:
                    d = e
                    break
        return (d, npix // d)

    def _big_case(self, rng, tag, h, w, mode, unmasked=None, inv=None, noise_exp=0, data_exp=0, bg=None,
                  fit_cls="imaging", noise_mixed=False):
        n = h * w
        if unmasked is None or unmasked >= n:
            mk = {"kind": "all"}
            unmasked = n
        else:
            mk = self._run_mask_recipe(n, unmasked, start_frac=rng.choice([0.0, 0.37, 0.5, 1.0]))
        if bg is None:
            bg = Fraction(rng.randint(-32, 32), 8) * Fraction(2) ** data_exp if rng.random() < 0.6 else Fraction(0)
        return {"tag": tag, "kind": "big", "h": h, "w": w, "mask": mk, "seed": rng.randrange(1 << 30), "mode": mode,
                "fit_cls": fit_cls, "background": q(bg), "noise_exp": noise_exp, "data_exp": data_exp,
                # mixed-sign log terms only where the summation-order effect stays far inside 1e-9
                "noise_mixed": bool(noise_mixed and unmasked <= 4096 and noise_exp == 0), "inv": inv}

    def _big_inv(self, rng, n_reg, style, f_exp=0, h_exp=0, s_exp=0, n_objs=None):
        """inversion recipe with n_reg regularized parameters.  style: single | two | partial_first |
        partial_mid | partial_last | many (n_objs objects)."""
        if style == "single":
            params, flags = [n_reg], [True]
        elif style == "two":
            a = max(1, n_reg // 3)
            params, flags = [a, n_reg - a], [True, True]
        elif style in ("partial_first", "partial_mid", "partial_last"):
            a = max(1, n_reg // 2)
            u = rng.randint(1, 4)
            blocks = [(a, True), (max(1, n_reg - a), True)] if n_reg > 1 else [(1, True)]
            pos = {"partial_first": 0, "partial_mid": 1, "partial_last": len(blocks)}[style]
            blocks.insert(pos, (u, False))
            params, flags = [b[0] for b in blocks], [b[1] for b in blocks]
        else:  # many objects, 1..3 parameters each, ~1/4 unregularized
            k = n_objs or max(2, n_reg // 2)
            params, flags, left = [], [], n_reg
            for j in range(k):
                rem = k - j
                p = left if rem == 1 else max(1, min(left - (rem - 1), rng.randint(1, 3)))
                params.append(p)
                flags.append(True)
                left -= p
            for _ in range(max(1, k // 4)):
                i = rng.randrange(len(params) + 1)
                params.insert(i, rng.randint(1, 2))
                flags.insert(i, False)
        return {"params": params, "reg": flags, "f_exp": f_exp, "h_exp": h_exp, "s_exp": s_exp,
                "rank": rng.randint(3, 8), "ridge": rng.randint(1, 3)}

    BIG_FRAMES = [(64, 48), (61, 67), (7, 600), (1, 4099), (181, 183), (257, 256), (300, 233), (4, 9)]
    BIG_EXPS = [(0, 0), (12, 12), (-12, -12), (40, 40), (-40, -40), (20, -20), (-20, 20)]
    BIG_NREG = [48, 130, 300, 700, 1100]
    BIG_STYLES = ["single", "two", "partial_first", "partial_mid", "partial_last", "many"]

    def _big_stream(self, tier, rng):
        """always-on part (no size hint needed): frames from 36 to ~70 000 pixels (beyond the int16 / uint16
        limits), noise / data magnitudes 2^-40..2^40, inversions with 48..1100 regularized parameters and
        F, H magnitudes 2^-40..2^40 in every object layout."""
        modes = ["native", "slim", "slim_applied"]
        nexps = [0, -12, 12, -40, 40]
        reps = 1 if tier == "quick" else 3
        k = 0
        for rep in range(reps):
            for (h, w) in self.BIG_FRAMES:
                n = h * w
                mode = modes[k % 3]
                if mode == "slim_applied" and n > 20000:
                    mode = "slim"          # apply_mask on very large frames is slow in pure Python
                un = None if k % 4 == 3 else n - max(2, n // rng.choice([3, 5, 11]))
                inv = None
                if k % 2 == 1:
                    inv = self._big_inv(rng, rng.choice([5, 23, 60]), rng.choice(self.BIG_STYLES),
                                        *rng.choice(self.BIG_EXPS))
                yield self._big_case(rng, f"big_frame_{mode}", h, w, mode, un, inv, noise_exp=nexps[k % 5],
                                     data_exp=[0, 20, -20][k % 3], noise_mixed=(k % 5 == 0),
                                     fit_cls="dataset" if k % 7 == 6 else "imaging")
                k += 1
        combos = [(n, e) for n in self.BIG_NREG for e in self.BIG_EXPS]
        if tier == "quick":
            # every size and every magnitude pair at least twice; 700 parameters with every pair, 1100 with the
            # five equal-magnitude pairs (the two mixed pairs cost ~0.3 s each there and occur at 700)
            pick = [c for i, c in enumerate(combos)
                    if (c[0] == 700 or (c[0] > 700 and c[1][0] == c[1][1])) or (c[0] < 700 and i % 3 == rng.randrange(3))
                    or c[1] == (0, 0)]
        else:
            pick = combos * 2
        for j, (n_reg, (fe, he)) in enumerate(pick):
            style = self.BIG_STYLES[(j + n_reg) % len(self.BIG_STYLES)]
            inv = self._big_inv(rng, n_reg, style, fe, he, s_exp=rng.choice([0, 0, 10, -10]))
            h, w = rng.choice([(5, 4), (3, 7), (6, 6)])
            yield self._big_case(rng, f"big_inv_{style}", h, w, rng.choice(["native", "slim"]),
                                 h * w - rng.randint(1, 5), inv, noise_exp=rng.choice([0, -12, 12]),
                                 noise_mixed=True)

    def generate_large(self, hints, rng):
        """constant-directed cases: for every new integer constant c of the anchored source, every size the
        property's code runs over — frame pixels H*W (exact, non-square), unmasked pixels, masked pixels,
        total / regularized parameters (one object = the in-place path, several objects, with unregularized
        objects), number of linear objects — at c-1, c, c+1, c + c//3 + 1 and 2c+1."""
        for c in sorted(set(int(x) for x in hints)):
            sizes = [c - 1, c, c + 1, c + c // 3 + 1, 2 * c + 1]
            for s in sizes:
                if s < 2:
                    continue
                ne = rng.choice([0, 0, -12, 12])
                if s <= self.BIG_MAX_PIXELS:
                    h, w = self._frame_for(s)
                    # frame pixels = s: masked-native with a mask, and everything unmasked (unmasked = s too)
                    yield self._big_case(rng, "large_frame_native", h, w, "native", s - max(1, s // 5), None, ne)
                    yield self._big_case(rng, "large_frame_all", h, w, rng.choice(["native", "slim"]), None, None, ne)
                    # unmasked pixels = s inside a larger, non-square frame (slim arrays have s entries)
                    h2, w2 = self._frame_for(s + max(7, s // 4) + (1 if (s + max(7, s // 4)) % 2 else 0))
                    yield self._big_case(rng, "large_unmasked_slim", h2, w2, "slim", s, None, ne,
                                         data_exp=rng.choice([0, 20]))
                    yield self._big_case(rng, "large_unmasked_native", h2, w2, "native", s, None, ne,
                                         fit_cls=rng.choice(["imaging", "dataset"]))
                    # masked pixels = s (sum over the mask), few unmasked
                    h3, w3 = self._frame_for(s + 36)
                    yield self._big_case(rng, "large_masked_native", h3, w3, "native", 36, None, ne)
                if s <= self.BIG_MAX_PARAMS:
                    fe, he = rng.choice(self.BIG_EXPS[:3])
                    fr = rng.choice([(5, 4), (3, 7)])
                    # regularized parameters = s: one object (in-place F+H path), two objects, with unregularized ones
                    for style in (["single", "two", "partial_mid"] if s <= 1200 else
                                  ["single", "partial_last"] if s <= 2200 else ["single"]):
                        inv = self._big_inv(rng, s, style, fe, he)
                        yield self._big_case(rng, f"large_reg_{style}", fr[0], fr[1], "slim", None, inv, ne)
                    # total parameters = s with some unregularized (reduced matrices are smaller)
                    if 6 < s <= 2200:
                        inv = self._big_inv(rng, s - 3, "single", fe, he)
                        inv["params"] = [2] + inv["params"] + [1]
                        inv["reg"] = [False] + inv["reg"] + [False]
                        yield self._big_case(rng, "large_total_params", fr[0], fr[1], "native", fr[0] * fr[1] - 3, inv, ne)
                if s <= self.BIG_MAX_OBJS:
                    # number of linear objects = s (about a quarter of them unregularized)
                    nr = s - max(1, s // 4)
                    inv = self._big_inv(rng, 2 * nr, "many", n_objs=nr)
                    while len(inv["params"]) < s:
                        inv["params"].append(1)
                        inv["reg"].append(False)
                    inv["params"], inv["reg"] = inv["params"][:s], inv["reg"][:s]
                    if not any(inv["reg"]):
                        inv["reg"][0] = True
                    yield self._big_case(rng, "large_objects", 4, 5, "slim", None, inv, 0)

    # ------------------------------------------------------------------ implementation
    def _build(self, case, mask_obj=None, sink=None):
        """`sink` (ownership histories): list collecting every array object handed INTO the library."""
        aa = load_autoarray()
        cl = _fit_classes(aa)
        mj = case["mask"]
        h, w = mj["h"], mj["w"]
        mb = np.array([c == "1" for c in mj["bits"]], dtype=bool).reshape(h, w)
        feed = case.get("feed") or {}
        # (history stream: a mask object of an earlier world with the same content is reused)
        if mask_obj is not None:
            mask = mask_obj
        else:
            mf = feed.get("mask_feed", "ndarray")       # R5-C: how the mask reaches Mask2D
            if mf == "from_mask":                       # a Mask2D built from a Mask2D, explicit (0.0, 0.0) origin
                m_in = aa.Mask2D(mask=mb, pixel_scales=(1.0, 1.0))
                mask = aa.Mask2D(mask=m_in, pixel_scales=(1.0, 1.0), origin=(0.0, 0.0))
            else:
                m_in = {"ndarray": lambda: mb, "list": lambda: mb.tolist(), "int": lambda: mb.astype(int),
                        "F": lambda: _layout(mb, "F"), "T": lambda: _layout(mb, "T"),
                        "strided": lambda: _layout(mb, "strided"), "ro": lambda: _layout(mb, "ro")}[mf]()
                mask = aa.Mask2D(mask=m_in, pixel_scales=(1.0, 1.0))
            if sink is not None:
                sink.append(m_in)
        dtype, cont = feed.get("dtype", "float"), feed.get("container", "ndarray")
        layout = feed.get("layout")

        def num(v):
            f = Fraction(v)
            return int(f) if dtype in ("int64", "pyint") else float(f)

        def pack(vals, shape=None):
            """the values as the chosen container / dtype (native: h×w nested; slim: flat)."""
            vals = [num(v) for v in vals]
            if shape is not None:
                vals = [vals[r * shape[1]:(r + 1) * shape[1]] for r in range(shape[0])]
            if cont == "list" or (dtype == "pyint" and cont == "ndarray"):
                return vals
            if cont == "tuple":
                return tuple(tuple(r) for r in vals) if shape is not None else tuple(vals)
            a = np.array(vals, dtype=np.int64 if dtype == "int64" else float)
            a = a.reshape(shape) if shape is not None else a
            if layout:
                a = _layout(a, layout)
            if sink is not None:
                sink.append(a)
            return a

        un = [i for i, c in enumerate(mj["bits"]) if c == "0"]
        mode = case["mode"]
        if mode == "native":
            arr = {k: aa.Array2D(values=pack(case[k], (h, w)), mask=mask, store_native=True,
                                 skip_mask=True) for k in ("data", "noise", "model")}
            dataset = aa.Imaging(data=arr["data"], noise_map=arr["noise"])
            use_mask = True
        elif mode == "slim":
            arr = {k: aa.Array2D(values=pack([case[k][i] for i in un]), mask=mask)
                   for k in ("data", "noise", "model")}
            dataset = aa.Imaging(data=arr["data"], noise_map=arr["noise"])
            use_mask = False if feed.get("use_mask_kw", "explicit") == "explicit" else None
        else:  # slim_applied: the usual route, an un-masked dataset with the mask applied
            full = aa.Imaging(
                data=aa.Array2D.no_mask(values=pack(case["data"], (h, w)), pixel_scales=(1.0, 1.0)),
                noise_map=aa.Array2D.no_mask(values=pack(case["noise"], (h, w)), pixel_scales=(1.0, 1.0)),
                check_noise_map=False)
            dataset = full.apply_mask(mask=mask)
            arr = {"model": aa.Array2D(values=pack(case["model"], (h, w)), mask=mask)}
            use_mask = False if feed.get("use_mask_kw", "explicit") == "explicit" else None
        bgq = Fraction(case["background"])
        dmk = feed.get("dm", "explicit" if bgq != 0 else "none")
        pass_dm = dmk != "omitted"
        if dmk in ("none", "omitted"):
            dm = None
        elif dmk == "default_obj":
            dm = aa.DatasetModel()
        elif dmk == "explicit_0.0":
            dm = aa.DatasetModel(background_sky_level=0.0)
        elif dmk == "explicit_0":
            dm = aa.DatasetModel(background_sky_level=0)
        elif dmk == "explicit_int" and bgq.denominator == 1:
            dm = aa.DatasetModel(background_sky_level=int(bgq))
        else:
            # R5-C / R5-F: the level as another scalar container, "set but falsy" zero levels, the other
            # constructor option of DatasetModel (grid_offset: irrelevant to every fit quantity)
            lvl = {"np64": lambda: np.float64(float(bgq)), "np0d": lambda: np.array(float(bgq)),
                   "np32": lambda: np.float32(float(bgq)), "neg0": lambda: -0.0, "false": lambda: False,
                   }.get(dmk, lambda: float(bgq))()
            kw = {}
            if "grid_offset" in (feed.get("opts") or {}):
                go = feed["opts"]["grid_offset"]
                kw["grid_offset"] = tuple(go) if isinstance(go, list) and feed["opts"].get("grid_offset_tuple", True) else go
            dm = aa.DatasetModel(background_sky_level=lvl, **kw)
        model = arr["model"]
        if feed.get("model_feed") == "bare":        # the user's model_data is a bare ndarray, not an Array2D
            model = np.array(np.asarray(model))
            if sink is not None:
                sink.append(model)
        return aa, cl, mask, mb, dataset, model, use_mask, (dm, pass_dm)

    def _make_inversion(self, aa, cl, case, dataset, mask, lin_objs_pre=None, preloads=None, settings=None,
                        inv_kw=None, sink=None):
        """-> (inversion, remake).  History stream: `lin_objs_pre` = linear objects of an earlier world that
        are reused as they are; `preloads` / `settings` = shared Preloads / SettingsInversion objects."""
        inv = case.get("inversion")
        if inv is None:
            return None, None
        if inv["kind"] == "mock":
            t = {k: float(Fraction(v)) for k, v in inv["terms"].items()}
            return aa.m.MockInversion(linear_obj_list=[aa.m.MockMapper(regularization=aa.m.MockRegularization())],
                                      data_vector=1, **t), None

        def lin_objs(with_mm):
            if lin_objs_pre is not None:
                return lin_objs_pre
            out = []
            for o in inv["objs"]:
                reg = None
                if o["reg"] is not None:
                    rk = (case.get("feed") or {}).get("reg", "ndarray")
                    rm = [[float(Fraction(v)) for v in r] for r in o["reg"]]
                    if rk == "int_ndarray" and all(Fraction(v).denominator == 1 for r in o["reg"] for v in r):
                        rm = np.array([[int(Fraction(v)) for v in r] for r in o["reg"]], dtype=np.int64)
                    elif rk != "list":
                        rm = np.array(rm)
                    rl = (case.get("feed") or {}).get("reg_layout")
                    if rl and isinstance(rm, np.ndarray):
                        rm = _layout(rm, rl)
                    if sink is not None:
                        sink.append(rm)
                    reg = aa.m.MockRegularization(regularization_matrix=rm)
                mm = None
                if with_mm:
                    mm = np.array([[float(Fraction(v)) for v in r] for r in o["mapping_matrix"]])
                if o["cls"] == "mapper":
                    out.append(aa.m.MockMapper(parameters=o["params"], regularization=reg,
                                               mapping_matrix=mm, edge_pixel_list=[]))
                elif with_mm:
                    out.append(aa.m.MockLinearObjFuncList(parameters=o["params"], regularization=reg,
                                                          mapping_matrix=mm,
                                                          grid=aa.Grid2D.from_mask(mask=mask)))
                else:
                    out.append(aa.m.MockLinearObj(parameters=o["params"], regularization=reg))
            return out

        if inv["kind"] == "abstract":
            F = [[float(Fraction(v)) for v in r] for r in inv["F"]]
            s = [float(Fraction(v)) for v in inv["s"]]
            lay = (case.get("feed") or {}).get("inv_layout")
            if lay:                     # equal-valued F / s in another memory layout / container (R5-C)
                F, s = _layout(np.array(F, dtype=float), lay), _layout(np.array(s, dtype=float), lay)
            los = lin_objs(False)
            kw = {}
            if preloads is not None:
                kw["preloads"] = preloads
            if settings is not None:
                kw["settings"] = settings
            if inv_kw:
                kw.update(inv_kw)
            inversion = cl["Inv"](los, F, s, **kw)
            inversion._verif_lin_objs = los
            if sink is not None:
                sink += [inversion._F, inversion._s]
            return inversion, None
        # real: InversionImagingMapping on a dataset without blurring
        from autoarray.inversion.inversion.dataset_interface import DatasetInterface

        psf = aa.Kernel2D.no_mask(values=[[1.0]], pixel_scales=(1.0, 1.0))
        ds = DatasetInterface(data=dataset.data, noise_map=dataset.noise_map,
                              convolver=aa.Convolver(mask=mask, kernel=psf))
        def mk():
            los = lin_objs(True)
            kw = {} if preloads is None else {"preloads": preloads}
            if inv_kw:
                kw.update(inv_kw)
            inversion = aa.Inversion(dataset=ds, linear_obj_list=los,
                                     settings=settings or aa.SettingsInversion(use_w_tilde=False), **kw)
            inversion._verif_lin_objs = los
            return inversion

        return mk(), mk

    def _mk_fit(self, aa, cl, case, dataset, model, use_mask, dm, pass_dm, inversion, fit_class=None):
        feed = case.get("feed") or {}
        if fit_class is None and feed.get("wrapper") == "mock" and case["fit_cls"] == "imaging":
            # the library's own thin subclass (aa.m.MockFitImaging) instead of the harness one
            kw = {"dataset": dataset, "model_data": model, "inversion": inversion}
            if use_mask is not None:
                kw["use_mask_in_fit"] = use_mask
            if pass_dm:
                kw["dataset_model"] = dm
            return aa.m.MockFitImaging(**kw)
        Fit = fit_class or (cl["FitI"] if case["fit_cls"] == "imaging" else cl["FitD"])
        opts = feed.get("opts") or {}
        extra = {}
        if "fit_run_time_dict" in opts:     # `run_time_dict` constructor option ({}: set but falsy; profiling on)
            extra["run_time_dict"] = dict(opts["fit_run_time_dict"])
        return Fit(dataset, use_mask, model, dataset_model=dm, inversion=inversion, pass_dm=pass_dm, **extra)

    def _observe(self, aa, case, fit, inversion, model, mb, use_mask, extra=None, order=None, sink=None):
        """every observable the property names, read off `fit` / `inversion`.  `order` (history stream): a
        seed permuting the order in which the quantities are read.  `sink` (ownership histories): list
        collecting every array object the API returned."""
        def keep(v):
            if sink is not None:
                sink.append(v)
            return v
        inv = case.get("inversion")
        map_keys = list(MAP_KEYS)
        scal_keys = ["chi_squared", "reduced_chi_squared", "noise_normalization", "log_likelihood",
                     "figure_of_merit", "log_evidence", "log_likelihood_with_regularization"]
        term_keys = ["regularization_term", "log_det_curvature_reg_matrix_term",
                     "log_det_regularization_matrix_term"]
        groups = ["maps", "scalars", "inversion"]
        if order is not None:
            import random as _random

            r = _random.Random(order)
            r.shuffle(map_keys)
            r.shuffle(scal_keys)
            r.shuffle(term_keys)
            r.shuffle(groups)
        obs = {}
        no_pixels = "0" not in case["mask"]["bits"]
        for g in groups:
            if g == "maps":
                for k in map_keys:
                    obs[k] = qlist(np.asarray(keep(getattr(fit, k)), dtype=float).ravel())
            elif g == "scalars":
                for k in scal_keys:
                    if k == "reduced_chi_squared" and no_pixels:
                        obs[k] = None      # chi_squared / 0 pixels: undefined, not part of the property
                        continue
                    v = getattr(fit, k)
                    obs[k] = None if v is None else q(float(v))
                if use_mask:
                    obs["util_chi_squared_with_mask_fast"] = q(float(aa.util.fit.chi_squared_with_mask_fast_from(
                        data=np.asarray(fit.data), mask=mb, model_data=np.asarray(model),
                        noise_map=np.asarray(fit.noise_map))))
            elif inversion is None:
                obs["inversion"] = None
            else:
                io = {k: q(float(getattr(inversion, k))) for k in term_keys}
                if inv["kind"] != "mock":
                    io["no_regularization_index_list"] = [int(i) for i in inversion.no_regularization_index_list]
                    io["regularization_matrix"] = qmat(np.array(keep(inversion.regularization_matrix)))
                    io["regularization_matrix_reduced"] = qmat(np.array(keep(inversion.regularization_matrix_reduced)))
                    io["curvature_reg_matrix"] = qmat(np.array(keep(inversion.curvature_reg_matrix)))
                    io["curvature_reg_matrix_reduced"] = qmat(np.array(keep(inversion.curvature_reg_matrix_reduced)))
                    io["reconstruction_reduced"] = qlist(np.array(keep(inversion.reconstruction_reduced)))
                obs["inversion"] = io
        ul = (case.get("feed") or {}).get("util")
        if ul and (inv is None or inv["kind"] != "real"):
            obs["util"] = self._util_obs(aa, case, ul, keep)
        obs.update({"_" + k: v for k, v in (extra or {}).items()})
        return obs

    UTIL_KEYS = ["residual_map", "normalized_residual_map", "chi_squared_map", "residual_flux_fraction_map",
                 "chi_squared", "noise_normalization", "log_likelihood"]

    def _util_obs(self, aa, case, layout, keep):
        """the anchored fit_util functions called directly on bare ndarrays (native h x w arrays + mask in the
        masked mode, 1-D slim arrays otherwise) in the memory layout `layout` (R5-C)."""
        fu = aa.util.fit
        mj = case["mask"]
        h, w = mj["h"], mj["w"]
        bits = mj["bits"]
        bg = Fraction(case["background"]) if case["fit_cls"] == "imaging" else Fraction(0)
        native = case["mode"] == "native"
        idx = list(range(h * w)) if native else [i for i, b in enumerate(bits) if b == "0"]
        shape = (h, w) if native else (len(idx),)

        def arr(key, sub=Fraction(0)):
            a = np.array([float(Fraction(case[key][i]) - sub) for i in idx], dtype=float).reshape(shape)
            return keep(_layout(a, layout))

        d, n, m = arr("data", bg), arr("noise"), arr("model")
        out = {}
        if native:
            mk = keep(_layout(np.array([b == "1" for b in bits], dtype=bool).reshape(h, w), layout))
            r = keep(fu.residual_map_with_mask_from(data=d, mask=mk, model_data=m))
            out["normalized_residual_map"] = keep(fu.normalized_residual_map_with_mask_from(
                residual_map=r, noise_map=n, mask=mk))
            cm = keep(fu.chi_squared_map_with_mask_from(residual_map=r, noise_map=n, mask=mk))
            out["residual_flux_fraction_map"] = keep(fu.residual_flux_fraction_map_with_mask_from(
                residual_map=r, data=d, mask=mk))
            chi = fu.chi_squared_with_mask_from(chi_squared_map=cm, mask=mk)
            nn = fu.noise_normalization_with_mask_from(noise_map=n, mask=mk)
        else:
            r = keep(fu.residual_map_from(data=d, model_data=m))
            out["normalized_residual_map"] = keep(fu.normalized_residual_map_from(residual_map=r, noise_map=n))
            cm = keep(fu.chi_squared_map_from(residual_map=r, noise_map=n))
            out["residual_flux_fraction_map"] = keep(fu.residual_flux_fraction_map_from(residual_map=r, data=d))
            chi = fu.chi_squared_from(chi_squared_map=cm)
            nn = fu.noise_normalization_from(noise_map=n)
        out["residual_map"], out["chi_squared_map"] = r, cm
        res = {k: qlist(np.asarray(v, dtype=float).ravel()) for k, v in out.items()}    # C-order read-out
        res["chi_squared"] = q(float(chi))
        res["noise_normalization"] = q(float(nn))
        res["log_likelihood"] = q(float(fu.log_likelihood_from(chi_squared=chi, noise_normalization=nn)))
        return res

    def _inv_options(self, aa, case):
        """R5-F: the SettingsInversion / Preloads / AbstractInversion constructor options a case sets
        (`inv_opts`), as objects.  Preload slots get the value that is true of the case's world."""
        io = case.get("inv_opts")
        if not io:
            return None, None, None
        skw, pkw, ikw = {"use_w_tilde": False}, {}, {}
        for key, v in io.items():
            owner, name = key.split(".", 1)
            if owner == "settings":
                skw[name] = float(Fraction(v)) if name == "no_regularization_add_to_curvature_diag_value" else v
            elif owner == "inv":
                ikw[name] = dict(v) if isinstance(v, dict) else v
            elif owner == "preloads":
                if v == "world":
                    if name in self.UPRE_SLOTS:
                        v = self._upre_values(case, [name])[name]
                    elif name == "operated_mapping_matrix":
                        v = np.hstack([np.array([[float(Fraction(x)) for x in r] for r in o["mapping_matrix"]])
                                       for o in case["inversion"]["objs"]])
                pkw[name] = v
        return aa.SettingsInversion(**skw), (aa.Preloads(**pkw) if pkw else None), (ikw or None)

    def _run_fit(self, case):
        aa, cl, mask, mb, dataset, model, use_mask, dm = self._build(case)
        settings, preloads, inv_kw = self._inv_options(aa, case)
        inversion, remake = self._make_inversion(aa, cl, case, dataset, mask, settings=settings, preloads=preloads,
                                                 inv_kw=inv_kw)
        inv = case.get("inversion")
        extra = {}
        if inv is not None and inv["kind"] == "real" and case.get("inv_opts") is not None:
            # options crossing: F from its definition (exact), never read back from an inversion
            extra["F"] = self._exact_F(case, add=case.get("diag_add"))
            extra["s"] = qlist(np.array(inversion.reconstruction))
            model = aa.Array2D(values=np.array(inversion.mapped_reconstructed_data), mask=mask)
            extra["model"] = qlist(np.array(model))
        elif inv is not None and inv["kind"] == "real":
            # the genuine pipeline: the model image is what the inversion reconstructs; F and s are
            # read off a twin inversion (curvature_reg_matrix adds H into the cached F in place)
            twin = remake()
            extra["F"] = qmat(np.array(twin.curvature_matrix))
            extra["s"] = qlist(np.array(inversion.reconstruction))
            model = aa.Array2D(values=np.array(inversion.mapped_reconstructed_data), mask=mask)
            extra["model"] = qlist(np.array(model))
        dm, pass_dm = dm
        fit = self._mk_fit(aa, cl, case, dataset, model, use_mask, dm, pass_dm, inversion)
        return self._observe(aa, case, fit, inversion, model, mb, use_mask, extra)

    def run_impl(self, case):
        kind = case.get("kind", "fit")
        if kind == "big":
            return self._run_big(case)
        if kind == "hist":
            return self._run_hist(case)
        return self._run_fit(case)

    # ------------------------------------------------------------------ large / extreme-scale stream (round 4)
    # A "big" case is a compact RECIPE (shape, mask recipe, seed, binary exponents, inversion block sizes); the
    # arrays are derived from it deterministically with numpy (exact doubles).  No model comparison: the
    # vectorised oracle alone judges it (`_big_expect` states every clause with numpy on the recipe's arrays,
    # never calling the code under test).
    BIG_MAX_PIXELS = 300000
    BIG_MAX_PARAMS = 2700
    BIG_MAX_OBJS = 400

    @staticmethod
    def _big_mask(case):
        h, w = case["h"], case["w"]
        mk = case["mask"]
        flat = np.ones(h * w, dtype=bool)
        if mk["kind"] == "all":
            flat[:] = False
        else:  # "run": a row-major run (off-origin, wraps rows, leaves the frame edge free or not) with holes
            off, L, k = mk["start"], mk["len"], mk["holes"]
            flat[off:off + L] = False
            if k:
                step = max(1, (L - 2) // k)
                flat[off + 1 + step * np.arange(k)] = True
        return flat.reshape(h, w)

    @staticmethod
    def _run_mask_recipe(n, s, start_frac=0.37):
        """recipe of a mask of a frame with n pixels that has exactly s unmasked pixels (n >= s + 2)."""
        k = min(max(0, (n - s) // 3), max(0, s // 7), 40)
        L = s + k
        if L > n:
            k, L = 0, s
        off = int((n - L) * start_frac)
        return {"kind": "run", "start": off, "len": L, "holes": k}

    def _big_world(self, case):
        g = np.random.default_rng(case["seed"])
        h, w = case["h"], case["w"]
        n = h * w
        mb = self._big_mask(case)
        un = np.flatnonzero(~mb.ravel())
        de, ne = case.get("data_exp", 0), case.get("noise_exp", 0)
        data = g.integers(-64, 65, n) / 8.0 * 2.0 ** de
        model = g.integers(-64, 65, n) / 8.0 * 2.0 ** de
        noise = g.integers(4, 25, n) / 4.0 * 2.0 ** ne
        if case.get("noise_mixed"):
            noise = noise * 2.0 ** g.integers(-3, 4, n)
        bg = float(Fraction(case.get("background", "0")))
        eff_bg = bg if case.get("fit_cls", "imaging") == "imaging" else 0.0
        z = (data - eff_bg) == 0.0
        data[z] += 2.0 ** de / 8.0
        if case["mode"] == "native":
            # junk under the mask: huge / zero data, negative or x1000 noise, huge model values
            m = mb.ravel()
            r = g.random(n)
            data = np.where(m & (r < 0.3), np.sign(data + 0.5) * 1.0e5 * (1 + (r * 977) % 7), data)
            data = np.where(m & (r >= 0.3) & (r < 0.4), 0.0, data)
            noise = np.where(m & (g.random(n) < 0.4), -noise, noise)
            noise = np.where(m & (g.random(n) < 0.2), noise * 1000.0, noise)
            model = np.where(m & (g.random(n) < 0.3), np.round((g.random(n) - 0.5) * 2.0e6), model)
        W = {"mb": mb, "un": un, "data": data, "noise": noise, "model": model, "bg": bg, "eff_bg": eff_bg}
        iv = case.get("inv")
        if iv:
            params, flags = iv["params"], iv["reg"]
            tot = int(sum(params))
            fe, he, se = iv.get("f_exp", 0), iv.get("h_exp", 0), iv.get("s_exp", 0)
            B = g.integers(-2, 3, (iv.get("rank", 6), tot)).astype(float)
            F = (B.T @ B + float(iv.get("ridge", 1)) * np.eye(tot)) * 2.0 ** fe
            regs = []
            for p, fl in zip(params, flags):
                if not fl:
                    regs.append(None)
                    continue
                d = g.integers(10, 17, p) / 4.0
                o = -g.integers(0, 5, max(p - 1, 0)) / 4.0 * g.choice([1.0, 1.0, -1.0], max(p - 1, 0))
                Hm = np.diag(d)
                if p > 1:
                    Hm += np.diag(o, 1) + np.diag(o, -1)
                regs.append(Hm * 2.0 ** he)
            sv = g.integers(-16, 17, tot) / 4.0 * 2.0 ** se
            W["inv"] = {"F": F, "s": sv, "regs": regs, "params": params, "flags": flags, "tot": tot}
        return W

    _big_cache = (None, None)

    def _big_expect(self, case, W=None):
        """the property's clauses stated with numpy on the recipe's arrays (float64; sums with math.fsum;
        log-determinants with LU-based slogdet of the principal sub-matrices on the regularized parameters)."""
        key = json.dumps({k: v for k, v in case.items() if not k.startswith("_")}, sort_keys=True, default=str)
        if self._big_cache[0] == key:
            return self._big_cache[1]
        W = W or self._big_world(case)
        un = W["un"]
        d = W["data"][un] - W["eff_bg"]
        no = W["noise"][un]
        mo = W["model"][un]
        with np.errstate(all="ignore"):
            res = d - mo
            nres = res / no
            maps = {"data": d, "residual_map": res, "normalized_residual_map": nres,
                    "chi_squared_map": nres ** 2, "residual_flux_fraction_map": res / d,
                    "signal_to_noise_map": np.maximum(d / no, 0.0)}
            chi = math.fsum(maps["chi_squared_map"].tolist())
            norm = math.fsum(np.log(2.0 * np.pi * no ** 2).tolist())
        E = {"maps": maps, "chi_squared": chi, "noise_normalization": norm,
             "reduced_chi_squared": chi / len(un) if len(un) else None,
             "log_likelihood": -0.5 * (chi + norm), "inv": None}
        if "inv" in W:
            I = W["inv"]
            keep, off = [], 0
            H = np.zeros((I["tot"], I["tot"]))
            for p, Hm in zip(I["params"], I["regs"]):
                if Hm is not None:
                    H[off:off + p, off:off + p] = Hm
                    keep += list(range(off, off + p))
                off += p
            keep = np.array(keep, dtype=int)
            no_reg = sorted(set(range(I["tot"])) - set(keep.tolist()))
            ex = {"no_regularization_index_list": no_reg, "keep": keep, "H": H}
            if len(keep) == 0:
                ex.update(reg=0.0, lcr=0.0, lr=0.0, ok=True)
            else:
                Hr = H[np.ix_(keep, keep)]
                FHr = I["F"][np.ix_(keep, keep)] + Hr
                sr = I["s"][keep]
                sg1, ld1 = np.linalg.slogdet(FHr)
                sg2, ld2 = np.linalg.slogdet(Hr)
                ex.update(reg=float(sr @ (Hr @ sr)), lcr=float(ld1), lr=float(ld2), ok=bool(sg1 > 0 and sg2 > 0),
                          Hr=Hr, FHr=FHr, sr=sr)
            E["inv"] = ex
            E["log_evidence"] = -0.5 * (chi + ex["reg"] + ex["lcr"] - ex["lr"] + norm)
            E["log_likelihood_with_regularization"] = -0.5 * (chi + ex["reg"] + norm)
        type(self)._big_cache = (key, E)
        return E

    def _run_big(self, case):
        aa = load_autoarray()
        cl = _fit_classes(aa)
        W = self._big_world(case)
        h, w = case["h"], case["w"]
        mb, un = W["mb"], W["un"]
        mask = aa.Mask2D(mask=mb, pixel_scales=(1.0, 1.0))
        mode = case["mode"]
        if mode == "native":
            arr = {k: aa.Array2D(values=W[k].reshape(h, w), mask=mask, store_native=True, skip_mask=True)
                   for k in ("data", "noise", "model")}
            dataset = aa.Imaging(data=arr["data"], noise_map=arr["noise"])
            use_mask, pos = True, un
        elif mode == "slim":
            arr = {k: aa.Array2D(values=W[k][un], mask=mask) for k in ("data", "noise", "model")}
            dataset = aa.Imaging(data=arr["data"], noise_map=arr["noise"])
            use_mask, pos = False, None
        else:
            full = aa.Imaging(
                data=aa.Array2D.no_mask(values=W["data"].reshape(h, w), pixel_scales=(1.0, 1.0)),
                noise_map=aa.Array2D.no_mask(values=np.abs(W["noise"]).reshape(h, w), pixel_scales=(1.0, 1.0)),
                check_noise_map=False)
            dataset = full.apply_mask(mask=mask)
            arr = {"model": aa.Array2D(values=W["model"].reshape(h, w), mask=mask)}
            use_mask, pos = False, None
        dm = aa.DatasetModel(background_sky_level=W["bg"]) if W["bg"] != 0 else None
        inversion = None
        if "inv" in W:
            I = W["inv"]
            los = []
            for p, Hm in zip(I["params"], I["regs"]):
                if Hm is not None:
                    los.append(aa.m.MockMapper(parameters=p, mapping_matrix=None, edge_pixel_list=[],
                                               regularization=aa.m.MockRegularization(regularization_matrix=Hm)))
                else:
                    los.append(aa.m.MockLinearObj(parameters=p, regularization=None))
            inversion = cl["Inv"](los, I["F"], I["s"])
        Fit = cl["FitI"] if case.get("fit_cls", "imaging") == "imaging" else cl["FitD"]
        fit = Fit(dataset, use_mask, arr["model"], dataset_model=dm, inversion=inversion, pass_dm=dm is not None)
        E = self._big_expect(case, W)
        obs = {"pixels": int(h * w), "unmasked": int(len(un)), "maps": {}}
        for k in MAP_KEYS:
            got = np.asarray(getattr(fit, k), dtype=float).ravel()
            bad = _digest(got, E["maps"][k], pos)
            if bad is None and got.size != (h * w if mode == "native" else len(un)):
                bad = [-1, f"{got.size} entries", "wrong length"]
            obs["maps"][k] = {"n": int(got.size), "bad": bad}
        for k in ("chi_squared", "reduced_chi_squared", "noise_normalization", "log_likelihood",
                  "figure_of_merit", "log_evidence", "log_likelihood_with_regularization"):
            v = getattr(fit, k)
            obs[k] = None if v is None else q(float(v))
        if use_mask:
            obs["util_chi_squared_with_mask_fast"] = q(float(aa.util.fit.chi_squared_with_mask_fast_from(
                data=np.asarray(fit.data), mask=mb, model_data=np.asarray(arr["model"]),
                noise_map=np.asarray(fit.noise_map))))
        if inversion is None:
            obs["inversion"] = None
        else:
            ex = E["inv"]
            io = {k: q(float(getattr(inversion, k))) for k in
                  ("regularization_term", "log_det_curvature_reg_matrix_term", "log_det_regularization_matrix_term")}
            io["total_params"] = int(W["inv"]["tot"])
            io["no_regularization_index_list_ok"] = (
                [int(i) for i in inversion.no_regularization_index_list] == ex["no_regularization_index_list"])
            io["regularization_matrix"] = _digest(inversion.regularization_matrix, ex["H"])
            if len(ex["keep"]):
                io["regularization_matrix_reduced"] = _digest(inversion.regularization_matrix_reduced, ex["Hr"])
                io["curvature_reg_matrix_reduced"] = _digest(inversion.curvature_reg_matrix_reduced, ex["FHr"])
                io["reconstruction_reduced"] = _digest(inversion.reconstruction_reduced, ex["sr"])
                io["curvature_reg_matrix"] = _digest(inversion.curvature_reg_matrix, W["inv"]["F"] + ex["H"])
            obs["inversion"] = io
        return obs

    def _oracle_big(self, case, obs):
        E = self._big_expect(case)
        where = f"[{case['h']}x{case['w']} frame, {obs.get('unmasked')} unmasked pixels, mode {case['mode']}]"
        for k in MAP_KEYS:
            b = obs["maps"][k]["bad"]
            if b is not None:
                return False, f"{k}[unmasked pixel #{b[0]}] = {b[1]}, definition gives {b[2]} {where}"
        big = max(abs(E["chi_squared"]), abs(E["noise_normalization"]))
        for k in ("chi_squared", "reduced_chi_squared", "noise_normalization", "log_likelihood"):
            if E[k] is None:
                continue
            if obs[k] is None or not _close(_flt(obs[k]), E[k], scale=big if k == "log_likelihood" else 0.0):
                return False, f"{k} = {obs[k] and _flt(obs[k])!r}, definition over the unmasked pixels gives {E[k]!r} {where}"
        if "util_chi_squared_with_mask_fast" in obs and not _close(_flt(obs["util_chi_squared_with_mask_fast"]),
                                                                   E["chi_squared"]):
            return False, f"fit_util.chi_squared_with_mask_fast_from disagrees with the chi-squared definition {where}"
        ex = E["inv"]
        if ex is None:
            for k in ("log_evidence", "log_likelihood_with_regularization"):
                if obs[k] is not None:
                    return False, f"{k} reported without an inversion"
            if not _close(_flt(obs["figure_of_merit"]), E["log_likelihood"], scale=big):
                return False, f"figure_of_merit is not the log likelihood although no inversion is present {where}"
            return True, ""
        if not ex["ok"]:
            return True, "matrices not positive definite: outside the property's domain"
        io = obs["inversion"]
        iv = case["inv"]
        wh = (f"[{sum(iv['params'])} parameters in {len(iv['params'])} linear objects, "
              f"{len(ex['keep'])} regularized, F~2^{iv.get('f_exp', 0)}, H~2^{iv.get('h_exp', 0)}]")
        if not io["no_regularization_index_list_ok"]:
            return False, f"no_regularization_index_list is not the list of unregularized parameters {wh}"
        for k in ("regularization_matrix", "regularization_matrix_reduced", "curvature_reg_matrix_reduced",
                  "reconstruction_reduced", "curvature_reg_matrix"):
            if io.get(k) is not None:
                b = io[k]
                return False, f"inversion.{k}[flat #{b[0]}] = {b[1]}, definition gives {b[2]} {wh}"
        for k, e in (("regularization_term", ex["reg"]), ("log_det_curvature_reg_matrix_term", ex["lcr"]),
                     ("log_det_regularization_matrix_term", ex["lr"])):
            if not _close(_flt(io[k]), e):
                return False, (f"inversion.{k} = {_flt(io[k])!r}; restricted to the regularized parameters the "
                               f"definition gives {e!r} {wh}")
        big2 = max(big, abs(ex["reg"]), abs(ex["lcr"]), abs(ex["lr"]))
        for k in ("log_evidence", "log_likelihood_with_regularization"):
            if obs[k] is None or not _close(_flt(obs[k]), E[k], scale=big2):
                return False, f"{k} = {obs[k] and _flt(obs[k])!r}, definition gives {E[k]!r} {wh}"
        if not _close(_flt(obs["figure_of_merit"]), E["log_evidence"], scale=big2):
            return False, f"figure_of_merit is not the log evidence although an inversion is present {wh}"
        return True, ""

    # ------------------------------------------------------------------ history stream (round 4)
    # A "hist" case runs a short typed history on REAL reused objects.  Every observing step has a *state*: an
    # ordinary fit case describing the world at that moment (`_hist_states`, a pure function of the case); the
    # step's observation is compared with the Lean model's value for that state and judged by the ordinary
    # oracle on that state, i.e. with what a freshly built fit in that state must report.
    FIT_ATTRS = MAP_KEYS + ["chi_squared", "reduced_chi_squared", "noise_normalization", "log_likelihood",
                            "figure_of_merit", "log_evidence", "log_likelihood_with_regularization",
                            "mask", "inversion", "noise_map", "model_data", "dataset", "dataset_model"]
    INV_ATTRS = ["curvature_reg_matrix", "curvature_matrix", "regularization_matrix",
                 "regularization_matrix_reduced", "curvature_reg_matrix_reduced", "reconstruction_reduced",
                 "reconstruction", "no_regularization_index_list", "total_params", "regularization_list",
                 "all_linear_obj_have_regularization", "total_regularizations", "mapper_edge_pixel_list",
                 "reconstruction_dict", "regularization_term", "log_det_curvature_reg_matrix_term",
                 "log_det_regularization_matrix_term", "mask", "data", "noise_map"]
    INV_ATTRS_REAL = ["mapping_matrix", "operated_mapping_matrix", "data_vector", "mapped_reconstructed_data",
                      "mapped_reconstructed_image", "mapped_reconstructed_data_dict", "data_subtracted_dict",
                      "mapper_zero_pixel_list"]
    PRELOAD_SETTERS = ["set_curvature_matrix", "set_regularization_matrix_and_term",
                       "set_operated_mapping_matrix_with_preloads"]

    @staticmethod
    def _valid_state(st):
        """the property's domain: positive noise and non-zero (data - background) at every unmasked pixel."""
        bg = Fraction(st["background"]) if st["fit_cls"] == "imaging" else Fraction(0)
        for i, b in enumerate(st["mask"]["bits"]):
            if b == "0" and (Fraction(st["noise"][i]) <= 0 or Fraction(st["data"][i]) - bg == 0):
                return False
        return True

    @staticmethod
    def _apply_edits(st, edits):
        st = json.loads(json.dumps(st))
        for e in edits:
            t = e["target"]
            if t in ("data", "noise", "model"):
                st[t][e["pixel"]] = e["value"]
            elif t == "background":
                st["background"] = e["value"]
            elif t == "mask":
                bits = st["mask"]["bits"]
                st["mask"]["bits"] = bits[:e["pixel"]] + ("1" if e["value"] else "0") + bits[e["pixel"] + 1:]
        return st

    def _exact_F(self, st, add=None):
        """curvature matrix of a 'real' state from its definition, exactly: F_ab = sum_i f_ia f_ib / sigma_i^2 over
        the unmasked pixels (the PSF of these cases is the 1x1 unit kernel), independent of the inversion.
        `add`: the diagonal value in force for unregularized objects when it is not the configured default."""
        un = [i for i, b in enumerate(st["mask"]["bits"]) if b == "0"]
        cols = []
        for o in st["inversion"]["objs"]:
            mm = [[Fraction(v) for v in r] for r in o["mapping_matrix"]]
            for c in range(o["params"]):
                cols.append([mm[k][c] for k in range(len(un))])
        w = [1 / Fraction(st["noise"][i]) ** 2 for i in un]
        F = [[sum(a[k] * b[k] * w[k] for k in range(len(un))) for b in cols] for a in cols]
        # documented configuration (general.yaml inversion.no_regularization_add_to_curvature_diag_value): the
        # library adds this value to the diagonal entries of parameters of unregularized linear objects
        if add is None:
            add = Fraction(str(load_autoarray().SettingsInversion(use_w_tilde=False).no_regularization_add_to_curvature_diag_value))
        else:
            add = Fraction(add)
        off = 0
        for o in st["inversion"]["objs"]:
            if o["reg"] is None:
                for j in range(off, off + o["params"]):
                    F[j][j] += add
            off += o["params"]
        return qmat(F)

    def _hist_states(self, case):
        sc = case["scenario"]
        if sc == "edit":
            st, out = case["base"], [case["base"]]
            for edits in case["rounds"]:
                st = self._apply_edits(st, edits)
                out.append(st)
            return out
        if sc == "worlds":
            return [case["worlds"][i] for i in case["order"]]
        if sc == "fault":
            return [None, case["base"]]
        if sc == "decoy":
            st = dict(case["base"])
            inv = st.get("inversion")
            if inv is not None and inv["kind"] == "abstract":
                st["curvature_matrix_after"] = inv["F"]
            elif inv is not None and inv["kind"] == "real":
                st["curvature_matrix_after"] = self._exact_F(st)
            return [st, st]
        if sc == "preloads":
            b2 = case.get("base2") or case["base"]
            return [case["base"], case["base"], b2, b2]
        if sc == "upre":
            return list(case["states"])
        if sc == "own":
            return [case["base"]] * int(case["rounds"])
        if sc == "conf":
            out = []
            for stp in case["steps"]:
                st = dict(case["base"])
                st["diag_add"] = stp["expect_add"]
                st["curvature_matrix_after"] = self._exact_F(st, add=stp["expect_add"])
                out.append(st)
            return out
        raise ValueError(sc)

    # ---- impl side
    def _world(self, aa, cl, c, prevs=(), preloads=None, settings=None, fit_class=None, inversion_case=None,
               sink=None, new_inversion=False, inv_kw=None):
        """objects of one ordinary case; every component whose description equals that of an earlier world in
        `prevs` IS that earlier object (mask, dataset, model array, dataset model, linear objects, inversion —
        the inversion only when `new_inversion` is off).  `sink` collects every array handed into the library."""
        fd = lambda cc: (cc.get("feed") or {})
        mask_obj = next((p["mask"] for p in prevs if p["case"]["mask"] == c["mask"]), None)
        aa, cl, mask, mb, dataset, model, use_mask, (dm, pass_dm) = self._build(c, mask_obj, sink=sink)
        los_pre, inversion = None, None
        for p in prevs:
            pc = p["case"]
            same_feed = all(fd(pc).get(k) == fd(c).get(k) for k in ("dtype", "container"))
            if p["mask"] is mask and pc["mode"] == c["mode"] and same_feed:
                if pc["data"] == c["data"] and pc["noise"] == c["noise"]:
                    dataset = p["dataset"]
                if pc["model"] == c["model"]:
                    model = p["model"]
            if (p["dm"] is not None and dm is not None and pc["background"] == c["background"]
                    and fd(pc).get("dm") == fd(c).get("dm")):
                dm = p["dm"]
            pi, ci = pc.get("inversion"), c.get("inversion")
            if pi is not None and ci is not None and pi["kind"] == ci["kind"] and pi["kind"] != "real" \
                    and fd(pc).get("reg") == fd(c).get("reg"):
                if pi == ci and not new_inversion:
                    inversion = p["inversion"]          # one inversion object serving two fits
                elif pi["kind"] == "abstract" and pi["objs"] == ci["objs"]:
                    los_pre = p["inversion"]._verif_lin_objs
        remake = None
        ic = inversion_case or c
        if inversion is None:
            inversion, remake = self._make_inversion(aa, cl, ic, dataset, mask, lin_objs_pre=los_pre,
                                                     preloads=preloads, settings=settings, inv_kw=inv_kw, sink=sink)
        extra = {}
        if ic.get("inversion") is not None and ic["inversion"]["kind"] == "real":
            model = aa.Array2D(values=np.array(inversion.mapped_reconstructed_data), mask=mask)
            extra = {"F": self._exact_F(c, add=c.get("diag_add")), "s": qlist(np.array(inversion.reconstruction)),
                     "model": qlist(np.array(model))}
        fit = self._mk_fit(aa, cl, c, dataset, model, use_mask, dm, pass_dm, inversion, fit_class=fit_class)
        return {"case": c, "mask": mask, "mb": mb, "dataset": dataset, "model": model, "use_mask": use_mask,
                "dm": dm, "pass_dm": pass_dm, "inversion": inversion, "fit": fit, "extra": extra}

    def _obs_world(self, aa, W, state=None, order=None, sink=None):
        st = state or W["case"]
        mb = np.array([c == "1" for c in st["mask"]["bits"]], dtype=bool).reshape(st["mask"]["h"], st["mask"]["w"])
        return self._observe(aa, st, W["fit"], W["inversion"], W["model"], mb, W["use_mask"], W["extra"], order,
                             sink=sink)

    @staticmethod
    def _decoy_reads(obj, names, seed):
        import random as _random

        names = list(names)
        _random.Random(seed).shuffle(names)
        for nme in names:
            try:
                getattr(obj, nme)
            except Exception:
                pass            # a sibling quantity that is not defined for this object: not an observation

    def _run_hist(self, case):
        aa = load_autoarray()
        cl = _fit_classes(aa)
        sc = case["scenario"]
        steps, labels = [], []
        if sc == "edit":
            base = case["base"]
            W = self._world(aa, cl, base)
            steps.append(self._obs_world(aa, W, order=case.get("read_order")))
            labels.append("first read")
            st = base
            ints = (base.get("feed") or {}).get("dtype", "float") != "float"
            num = (lambda v: int(Fraction(v))) if ints else (lambda v: float(Fraction(v)))
            w = base["mask"]["w"]
            for r, edits in enumerate(case["rounds"]):
                for e in edits:
                    y, x = divmod(e["pixel"], w) if "pixel" in e else (0, 0)
                    if base["mode"] == "native":
                        key = (y, x)
                    else:
                        key = st["mask"]["bits"][:e.get("pixel", 0)].count("0")
                    t = e["target"]
                    if t == "data":
                        W["dataset"].data[key] = num(e["value"])           # the library's __setitem__
                    elif t == "noise":
                        W["dataset"].noise_map[key] = num(e["value"])
                    elif t == "model":
                        W["fit"].model_data[key] = num(e["value"])
                    elif t == "background":
                        f = Fraction(e["value"])
                        W["fit"].dataset_model.background_sky_level = int(f) if (ints and f.denominator == 1) else float(f)
                    elif t == "mask":
                        W["fit"].mask[y, x] = bool(e["value"])
                st = self._apply_edits(st, edits)
                steps.append(self._obs_world(aa, W, state=st, order=case.get("read_order")))
                labels.append(f"same fit object re-read after in-place edit round {r + 1}: "
                              + ", ".join(f"{e['target']}[{e.get('pixel', '')}]={e['value']}" for e in edits))
        elif sc == "worlds":
            built = {}
            for i in case["order"]:
                if i not in built:
                    built[i] = self._world(aa, cl, case["worlds"][i], prevs=list(built.values()))
                steps.append(self._obs_world(aa, built[i], order=case.get("read_order")))
                labels.append(f"world {i} ({'re-read' if sum(1 for l in labels if l.startswith(f'world {i} ')) else 'first read'}; "
                              f"shares every equal component with the other world)")
        elif sc == "fault":
            base, fk = case["base"], case["fault"]
            if fk["kind"] == "bad_inversion":
                tot = len(base["inversion"]["s"])
                bad = json.loads(json.dumps(base))
                bad["inversion"]["F"] = [[("-1000" if a == b else "0") for b in range(tot)] for a in range(tot)]
                Wb = self._world(aa, cl, bad)
                try:
                    Wb["fit"].figure_of_merit
                    steps.append({"fault": None})
                except Exception as e:
                    steps.append({"fault": type(e).__name__})
                W = self._world(aa, cl, base, prevs=[Wb])
            elif fk["kind"] == "bad_model_length":
                W0 = self._world(aa, cl, base)
                n = len(np.asarray(W0["model"]).ravel())
                fb = self._mk_fit(aa, cl, base, W0["dataset"], np.ones(n + fk["k"]), W0["use_mask"], W0["dm"],
                                  W0["pass_dm"], W0["inversion"])
                try:
                    fb.chi_squared
                    fb.figure_of_merit
                    steps.append({"fault": None})
                except Exception as e:
                    steps.append({"fault": type(e).__name__})
                W = self._world(aa, cl, base, prevs=[W0])
            else:  # the user's model_data raises on its k-th access; the same fit object is used afterwards
                W = self._world(aa, cl, base, fit_class=cl["FitFault"])
                W["fit"]._raise_at = fk["k"]
                seen = None
                for nme in self.FIT_ATTRS:
                    try:
                        getattr(W["fit"], nme)
                    except _UserFault as e:
                        seen = type(e).__name__
                steps.append({"fault": seen})
            labels.append(f"fault injected: {fk['kind']}")
            steps.append(self._obs_world(aa, W, order=case.get("read_order")))
            labels.append("same objects used after the fault")
        elif sc == "decoy":
            base = case["base"]
            W = self._world(aa, cl, base)
            inv = base.get("inversion")
            inames = [] if inv is None or inv["kind"] == "mock" else \
                self.INV_ATTRS + (self.INV_ATTRS_REAL if inv["kind"] == "real" else [])
            for half in (0, 1):
                self._decoy_reads(W["fit"], self.FIT_ATTRS[half::2], case["decoys"] + half)
                if W["inversion"] is not None:
                    self._decoy_reads(W["inversion"], inames[half::2], case["decoys"] + 7 + half)
                ob = self._obs_world(aa, W, order=case.get("read_order"))
                if inames:
                    ob["curvature_matrix_after"] = qmat(np.array(W["inversion"].curvature_matrix))
                steps.append(ob)
                labels.append(f"observed after decoy reads of sibling quantities (part {half + 1})")
        elif sc == "preloads":
            base, b2 = case["base"], case.get("base2") or case["base"]
            settings = aa.SettingsInversion(use_w_tilde=False) if case.get("shared_settings") else None
            W0 = self._world(aa, cl, base, settings=settings)
            W1 = self._world(aa, cl, base, prevs=[W0], settings=settings)
            # W1 shares mask / dataset with W0 but is a separately built, equal model (its own linear objects)
            for W in (W0, W1):
                steps.append(self._obs_world(aa, W, order=case.get("read_order")))
                labels.append("evaluated fit handed to Preloads.set_*")
            pre = aa.Preloads()
            for nme in case["setters"]:
                try:
                    getattr(pre, nme)(fit_0=W0["fit"], fit_1=W1["fit"])
                except Exception:
                    pass        # (documented oddity: some setters raise for mapper + func-list models; slot stays empty)
            for k in range(2):
                W = self._world(aa, cl, b2, prevs=[W0], preloads=pre, settings=settings)
                steps.append(self._obs_world(aa, W, order=case.get("read_order")))
                labels.append(f"new fit #{k + 1} built with the preloads the library derived from the evaluated fits "
                              f"({', '.join(case['setters'])})")
        elif sc == "upre":
            # R5-F / shared helper object: ONE user-built Preloads object serves successive inversions; between
            # them the user re-assigns its slots (to the values that are true of the next world, or to None).
            # The user only ever touches the slots they manage themselves: a slot is assigned when it is in this
            # step's subset, re-assigned None when the user had set it earlier and it is not; never otherwise.
            pre, built, touched = None, [], set()
            for k, (st, slots) in enumerate(zip(case["states"], case["slots"])):
                vals = {n: v for n, v in self._upre_values(st, slots).items() if v is not None}
                if pre is None and case.get("ctor"):
                    pre = aa.Preloads(**vals)
                else:
                    pre = pre if pre is not None else aa.Preloads()
                    for n in touched - set(vals):
                        setattr(pre, n, None)
                    for n, v in vals.items():
                        setattr(pre, n, v)
                touched |= set(vals)
                W = self._world(aa, cl, st, prevs=built if case.get("share_objs") else (), preloads=pre,
                                new_inversion=True)
                built.append(W)
                if case.get("decoys") is not None and W["inversion"] is not None:
                    self._decoy_reads(W["inversion"], self.INV_ATTRS, case["decoys"] + k)
                steps.append(self._obs_world(aa, W, order=case.get("read_order")))
                labels.append(f"inversion #{k + 1} built with the user's shared Preloads object, slots set for this "
                              f"world: {', '.join(slots) or 'none'}")
        elif sc == "own":
            # R5-B: observe -> the caller scribbles over every array it was handed or handed in -> the same world is
            # rebuilt from fresh equal inputs -> observe again
            base = case["base"]
            for r in range(int(case["rounds"])):
                ins, outs = [], []
                W = self._world(aa, cl, base, sink=ins)
                steps.append(self._obs_world(aa, W, order=case.get("read_order"), sink=outs))
                labels.append("fresh world from fresh equal inputs" if r == 0 else
                              f"the same world rebuilt from fresh equal inputs after the caller edited in place every "
                              f"array the API returned or accepted in round {r}")
                extra_objs = [W["mb"], W["model"], W["dataset"].data, W["dataset"].noise_map, W["fit"].mask]
                if W["inversion"] is not None and (base.get("inversion") or {}).get("kind") != "mock":
                    for nme in ("curvature_matrix", "reconstruction"):
                        try:
                            extra_objs.append(getattr(W["inversion"], nme))
                        except Exception:
                            pass
                _scribble(outs + ins + extra_objs, case["scribble"][r % len(case["scribble"])])
        elif sc == "conf":
            # R5-D: configuration values the anchored code reads are flipped BETWEEN calls; every step builds a fresh
            # inversion + fit (re-using one SettingsInversion object made before the first flip when `shared`)
            base = case["base"]
            shared = None
            with _conf_guard() as cg:
                if case.get("shared"):
                    shared = aa.SettingsInversion(use_w_tilde=False)
                    shared.no_regularization_add_to_curvature_diag_value    # (read once before any flip)
                built = []
                for k, stp in enumerate(case["steps"]):
                    for sec, key, val in stp["set"]:
                        cg.set(sec, key, val)
                    if stp.get("explicit") is not None:
                        settings = aa.SettingsInversion(
                            use_w_tilde=False, no_regularization_add_to_curvature_diag_value=float(Fraction(stp["explicit"])))
                    else:
                        settings = shared
                    st = dict(base)
                    st["diag_add"] = stp["expect_add"]
                    W = self._world(aa, cl, st, prevs=built, settings=settings, new_inversion=True)
                    built.append(W)
                    ob = self._obs_world(aa, W, order=case.get("read_order"))
                    ob["curvature_matrix_after"] = qmat(np.array(W["inversion"].curvature_matrix))
                    steps.append(ob)
                    labels.append(f"fresh inversion after the configuration was set to {stp['set']} "
                                  f"(explicit setting: {stp.get('explicit')})")
        else:
            raise ValueError(sc)
        return {"steps": steps, "labels": labels}

    UPRE_SLOTS = ["regularization_matrix", "log_det_regularization_matrix_term", "curvature_matrix"]

    def _upre_values(self, st, slots):
        """the values a user who knows world `st` puts into the Preloads slots named in `slots` (all other slots of
        UPRE_SLOTS are re-assigned None): H = block-diagonal regularization matrix of the linear objects, its log
        determinant on the regularized parameters, the curvature matrix F — each from its definition."""
        inv = st["inversion"]
        vals = {n: None for n in self.UPRE_SLOTS}
        tot = sum(o["params"] for o in inv["objs"])
        H = [[Fraction(0)] * tot for _ in range(tot)]
        keep, off = [], 0
        for o in inv["objs"]:
            if o["reg"] is not None:
                for a in range(o["params"]):
                    for b in range(o["params"]):
                        H[off + a][off + b] = Fraction(o["reg"][a][b])
                keep += list(range(off, off + o["params"]))
            off += o["params"]
        if "regularization_matrix" in slots:
            vals["regularization_matrix"] = np.array([[float(v) for v in r] for r in H])
        if "log_det_regularization_matrix_term" in slots and keep:
            ld = _exact_logdet([[H[a][b] for b in keep] for a in keep])
            vals["log_det_regularization_matrix_term"] = ld
        if "curvature_matrix" in slots and inv["kind"] == "real":
            vals["curvature_matrix"] = np.array([[float(Fraction(v)) for v in r]
                                                 for r in self._exact_F(st, add=st.get("diag_add"))])
        return vals

    # ---- generators
    def _hist_base(self, rng, tag, mode=None, style="any", ints=None, fit_cls=None, hw=None):
        h, w = hw or (rng.randint(2, 6), rng.randint(2, 6))
        m, _ = gen.random_mask(rng, h, w)
        if sum(1 for r in m for b in r if not b) == 0:
            m[rng.randrange(h)][rng.randrange(w)] = False
        mode = mode or rng.choice(["native", "slim", "slim_applied"])
        if style == "any":
            style = rng.choice([None, "all_reg", "partial", "none_reg", "mock", "single"])
        inv = None
        if style == "single":
            inv = self._inversion(rng, "all_reg")
            while len(inv["objs"]) != 1:
                inv = self._inversion(rng, "all_reg")
        elif style:
            inv = self._inversion(rng, style)
        if fit_cls is None:
            fit_cls = "dataset" if (rng.random() < 0.2 and mode != "slim_applied") else "imaging"
        return self._case(rng, m, tag, mode, fit_cls, rng.random() < 0.6, inv, ints=ints)

    def _gen_edit(self, rng):
        for _ in range(20):
            base = self._hist_base(rng, "hist_edit")
            ints = (base["feed"]["dtype"] != "float")
            w = base["mask"]["w"]
            st, rounds = base, []
            targets = ["data", "noise", "model", "background"] + (["mask", "mask"] if base["mode"] == "native" else [])
            for r in range(rng.randint(1, 2)):
                edits = []
                for t in rng.sample(targets, rng.randint(1, 2)):
                    bits = st["mask"]["bits"]
                    un = [i for i, b in enumerate(bits) if b == "0"]
                    if t == "background":
                        data = [Fraction(v) for v in st["data"]]
                        m = [[bits[y * w + x] == "1" for x in range(w)] for y in range(len(bits) // w)]
                        edits.append({"target": t, "value": q(self._background(rng, data, m, ints))})
                    elif t == "mask":
                        ms = [i for i, b in enumerate(bits) if b == "1"]
                        if ms and (len(un) < 2 or rng.random() < 0.5):
                            p = rng.choice(ms)          # un-mask a masked pixel: its values become live
                            base["noise"][p] = q(abs(Fraction(base["noise"][p])))
                            edits.append({"target": t, "pixel": p, "value": False})
                        elif len(un) >= 2:
                            edits.append({"target": t, "pixel": rng.choice(un), "value": True})
                    else:
                        p = rng.choice(un)
                        if t == "noise":
                            v = Fraction(rng.randint(1, 7)) if ints else gen.pos_dyadic(rng, 1, 6, 2)
                        else:
                            v = Fraction(rng.randint(-9, 9)) if ints else gen.dyadic(rng, -8, 8, 3)
                        edits.append({"target": t, "pixel": p, "value": q(v)})
                    st = self._apply_edits(st, edits[-1:]) if edits else st
                if edits:
                    rounds.append(edits)
            case = {"tag": "hist_edit_" + "+".join(sorted({e["target"] for r in rounds for e in r})),
                    "kind": "hist", "scenario": "edit", "base": base, "rounds": rounds,
                    "read_order": rng.choice([None, rng.randrange(1 << 16)])}
            # (the un-mask edits above adjusted base: recompute the states and keep only histories that stay
            # inside the property's domain at every step)
            if rounds and all(self._valid_state(s) for s in self._hist_states(case)):
                return case
        return None

    @staticmethod
    def _scale_q(v, f):
        return q(Fraction(v) * f)

    def _gen_twin(self, rng):
        """near-duplicate twin: one ingredient perturbed by 2^-20 or 2^-17 relative (inside np.allclose's default
        tolerance, three orders of magnitude outside the property's 1e-9)."""
        f = 1 + Fraction(1, 2 ** rng.choice([20, 17]))
        for _ in range(20):
            a = self._hist_base(rng, "hist_twin", ints=False,
                                style=rng.choice([None, "all_reg", "partial", "mock", "single", "single"]))
            b = json.loads(json.dumps(a))
            inv = a.get("inversion")
            whats = ["model", "data", "noise", "background"]
            if inv is not None and inv["kind"] == "abstract":
                whats += ["F", "s", "reg", "F", "reg"]
            elif inv is not None:
                whats += ["terms"]
            what = rng.choice(whats)
            un = [i for i, c in enumerate(a["mask"]["bits"]) if c == "0"]
            if what in ("model", "data", "noise"):
                for i in (un if rng.random() < 0.5 else rng.sample(un, max(1, len(un) // 2))):
                    b[what][i] = self._scale_q(b[what][i], f)
            elif what == "background":
                if Fraction(a["background"]) == 0:
                    continue
                b["background"] = self._scale_q(b["background"], f)
                b["feed"]["dm"] = a["feed"]["dm"] = "explicit"
            elif what == "F":
                b["inversion"]["F"] = [[self._scale_q(v, f) for v in r] for r in inv["F"]]
            elif what == "s":
                b["inversion"]["s"] = [self._scale_q(v, f) for v in inv["s"]]
            elif what == "reg":
                regd = [j for j, o in enumerate(inv["objs"]) if o["reg"] is not None]
                if not regd:
                    continue
                j = rng.choice(regd)
                b["inversion"]["objs"][j]["reg"] = [[self._scale_q(v, f) for v in r] for r in inv["objs"][j]["reg"]]
                b["feed"]["reg"] = a["feed"]["reg"] = rng.choice(["ndarray", "list"])
            else:
                k = rng.choice(sorted(inv["terms"]))
                b["inversion"]["terms"][k] = self._scale_q(inv["terms"][k], f)
            if a == b or not (self._valid_state(a) and self._valid_state(b)):
                continue
            return {"tag": f"hist_twin_{what}", "kind": "hist", "scenario": "worlds", "worlds": [a, b],
                    "order": rng.choice([[0, 1, 0], [1, 0, 1], [0, 1], [0, 1, 1, 0]]),
                    "read_order": rng.choice([None, rng.randrange(1 << 16)])}
        return None

    def _gen_shared(self, rng):
        """two DIFFERENT worlds that share helper objects: the dataset (different model / sky level), the dataset
        model object, the linear objects + regularizations (different F, s), or the whole inversion (different
        data), observed in both orders."""
        share = rng.choice(["dataset", "dm", "objs", "inversion", "mask_only"])
        style = {"objs": rng.choice(["all_reg", "partial", "single"]),
                 "inversion": rng.choice(["all_reg", "partial", "mock", "single"])}.get(
            share, rng.choice([None, "all_reg", "mock"]))
        ints = rng.random() < 0.2
        a = self._hist_base(rng, "hist_shared", style=style, ints=ints)
        h, w = a["mask"]["h"], a["mask"]["w"]
        m = [[a["mask"]["bits"][y * w + x] == "1" for x in range(w)] for y in range(h)]
        inv_b = None
        if a.get("inversion") is not None:
            inv_b = self._inversion(rng, style if style != "single" else "all_reg")
        b = self._case(rng, m, "hist_shared", a["mode"], a["fit_cls"], True, inv_b, ints=ints)
        b["feed"] = dict(a["feed"])
        if Fraction(b["background"]) != 0 and b["feed"]["dm"] not in ("explicit", "explicit_int"):
            b["feed"]["dm"] = "explicit"
        if share == "dataset":
            b["data"], b["noise"] = a["data"], a["noise"]
        elif share == "dm":
            b["background"] = a["background"]
            b["feed"]["dm"] = a["feed"]["dm"]
        elif share == "inversion":
            b["inversion"] = a["inversion"]
        elif share == "objs" and a["inversion"]["kind"] == "abstract":
            tot = sum(o["params"] for o in a["inversion"]["objs"])
            b["inversion"] = {**a["inversion"], "F": qmat(_spd_int(rng, tot, ridge=rng.randint(1, 3))),
                              "s": qlist([gen.dyadic(rng, -4, 4, 2) for _ in range(tot)])}
        # keep both worlds inside the domain (data - background != 0 at unmasked pixels)
        for c in (a, b):
            bg = Fraction(c["background"]) if c["fit_cls"] == "imaging" else Fraction(0)
            c["data"] = qlist(self._fix_zero_data([Fraction(v) for v in c["data"]], m, bg, ints))
        if share == "dataset":
            b["data"] = a["data"]
        if not (self._valid_state(a) and self._valid_state(b)):
            return None
        return {"tag": f"hist_shared_{share}", "kind": "hist", "scenario": "worlds", "worlds": [a, b],
                "order": rng.choice([[0, 1, 0], [1, 0, 1], [0, 1, 0, 1]]),
                "read_order": rng.choice([None, rng.randrange(1 << 16)])}

    def _gen_fault(self, rng):
        kind = rng.choice(["bad_inversion", "bad_model_length", "model_raises", "model_raises"])
        style = rng.choice(["all_reg", "partial", "single"]) if kind == "bad_inversion" else "any"
        base = self._hist_base(rng, "hist_fault", style=style)
        if kind == "model_raises":
            # the raising model_data lives in a harness subclass of FitImaging
            base = self._hist_base(rng, "hist_fault", style=style, fit_cls="imaging")
            base["feed"]["wrapper"] = "harness"
        return {"tag": f"hist_fault_{kind}", "kind": "hist", "scenario": "fault", "base": base,
                "fault": {"kind": kind, "k": rng.randint(1, 9)},
                "read_order": rng.choice([None, rng.randrange(1 << 16)])}

    def _gen_decoy(self, rng, real_i=None):
        if real_i is not None:
            h, w = rng.randint(3, 5), rng.randint(3, 5)
            m, _ = gen.random_mask(rng, h, w, kind=rng.choice(["block", "blocks", "bernoulli", "all", "cross"]))
            if sum(1 for r in m for b in r if not b) < 2:
                m = gen.full(h, w, False)
            base = self._real_case(rng, m, real_i)
        else:
            base = self._hist_base(rng, "hist_decoy", style=rng.choice(["all_reg", "partial", "single", "single",
                                                                        "none_reg", "mock", None]))
        return {"tag": "hist_decoy" + ("_real" if real_i is not None else ""), "kind": "hist", "scenario": "decoy",
                "base": base, "decoys": rng.randrange(1 << 16),
                "read_order": rng.choice([None, rng.randrange(1 << 16)])}

    def _gen_preloads(self, rng, i):
        h, w = rng.randint(3, 5), rng.randint(3, 5)
        m, _ = gen.random_mask(rng, h, w, kind=rng.choice(["block", "blocks", "bernoulli", "all", "cross"]))
        if sum(1 for r in m for b in r if not b) < 2:
            m = gen.full(h, w, False)
        base = self._real_case(rng, m, [0, 0, 1, 2][i % 4])      # all_reg (one or two objects) twice as often
        case = {"tag": f"hist_preloads_{base['inversion']['style']}_{len(base['inversion']['objs'])}obj",
                "kind": "hist", "scenario": "preloads", "base": base, "shared_settings": rng.random() < 0.5,
                "read_order": rng.choice([None, rng.randrange(1 << 16)])}
        if i % 2 == 0:
            case["setters"] = rng.sample(self.PRELOAD_SETTERS, rng.randint(1, 3))
            if "set_curvature_matrix" not in case["setters"] and rng.random() < 0.7:
                case["setters"].insert(0, "set_curvature_matrix")
        else:
            # the new model has another regularization: only what does not depend on it is preloaded
            f = rng.choice([Fraction(3, 2), Fraction(1, 2), 1 + Fraction(1, 2 ** 17)])
            b2 = json.loads(json.dumps(base))
            for o in b2["inversion"]["objs"]:
                if o["reg"] is not None:
                    o["reg"] = [[self._scale_q(v, f) for v in r] for r in o["reg"]]
            case["base2"] = b2
            case["setters"] = ["set_curvature_matrix"] + (["set_operated_mapping_matrix_with_preloads"]
                                                          if rng.random() < 0.5 else [])
        return case

    # ---- round-5/6 generators: user-built shared Preloads, ownership, configuration histories
    def _rescale_regs(self, st, f):
        st = json.loads(json.dumps(st))
        for o in st["inversion"]["objs"]:
            if o["reg"] is not None:
                o["reg"] = [[self._scale_q(v, f) for v in r] for r in o["reg"]]
        return st

    def _gen_upre(self, rng, i):
        """one user-built Preloads object shared by 2-3 successive inversions; every subset of the slots the
        anchored code reads, re-assigned between the inversions as the world (regularization, F, s) changes."""
        real = i % 3 == 2
        if real:
            h, w = rng.randint(3, 5), rng.randint(3, 5)
            m, _ = gen.random_mask(rng, h, w, kind=rng.choice(["block", "blocks", "bernoulli", "all", "cross"]))
            if sum(1 for r in m for b in r if not b) < 2:
                m = gen.full(h, w, False)
            st = self._real_case(rng, m, rng.choice([0, 0, 1, 2]))
        else:
            st = self._hist_base(rng, "hist_upre", style=rng.choice(["all_reg", "partial", "single", "single"]),
                                 ints=False)
            st["feed"]["reg"] = rng.choice(["ndarray", "list"])
        st["tag"] = "hist_upre"
        names = self.UPRE_SLOTS if real else self.UPRE_SLOTS[:2]
        subsets = [[n for j, n in enumerate(names) if (b >> j) & 1] for b in range(1 << len(names))]
        n_steps = rng.choice([2, 2, 3])
        states, slots = [st], [subsets[(i // 3) % len(subsets)] if rng.random() < 0.7 else rng.choice(subsets)]
        for k in range(1, n_steps):
            how = rng.choice(["scale", "scale", "scale", "fresh", "same"]) if not real else rng.choice(["scale", "scale", "same"])
            prev = states[-1]
            if how == "scale":
                nxt = self._rescale_regs(prev, rng.choice([Fraction(25), Fraction(3, 2), Fraction(1, 2),
                                                           1 + Fraction(1, 2 ** 17), Fraction(1, 16)]))
            elif how == "fresh":
                nxt = json.loads(json.dumps(prev))
                for o in nxt["inversion"]["objs"]:
                    if o["reg"] is not None:
                        o["reg"] = qmat(_spd_int(rng, o["params"]))
                if rng.random() < 0.5:
                    tot = sum(o["params"] for o in nxt["inversion"]["objs"])
                    nxt["inversion"]["F"] = qmat(_spd_int(rng, tot, ridge=rng.randint(1, 3)))
                    nxt["inversion"]["s"] = qlist([gen.dyadic(rng, -4, 4, 2) for _ in range(tot)])
            else:
                nxt = json.loads(json.dumps(prev))
            states.append(nxt)
            slots.append(rng.choice(subsets))
        sig = "|".join("".join(n[0] for n in sl) or "-" for sl in slots)       # r = reg. matrix, l = log det, c = F
        return {"tag": f"hist_upre_{'real' if real else 'abstract'}_{sig}", "kind": "hist", "scenario": "upre",
                "states": states, "slots": slots, "ctor": rng.random() < 0.5, "share_objs": rng.random() < 0.6,
                "decoys": rng.choice([None, rng.randrange(1 << 16)]),
                "read_order": rng.choice([None, rng.randrange(1 << 16)])}

    def _gen_own(self, rng, i):
        kind = i % 4
        if kind == 3:
            h, w = rng.randint(3, 5), rng.randint(3, 5)
            m, _ = gen.random_mask(rng, h, w, kind=rng.choice(["block", "blocks", "bernoulli", "all", "cross"]))
            if sum(1 for r in m for b in r if not b) < 2:
                m = gen.full(h, w, False)
            base = self._real_case(rng, m, rng.randrange(3))
        else:
            base = self._hist_base(rng, "hist_own", style=[None, "all_reg", "partial", "single", "mock", "none_reg"][i % 6])
        base["feed"]["container"] = "ndarray" if rng.random() < 0.8 else base["feed"]["container"]
        if base["feed"]["dtype"] == "float" and (base.get("inversion") or {}).get("kind") != "real":
            base["feed"]["util"] = rng.choice(["C", "F", "strided"])     # the fit_util functions on bare ndarrays too
        hows = ["nan", "inc", "zero", "neg"]
        rng.shuffle(hows)
        return {"tag": "hist_own" + ("_real" if kind == 3 else ""), "kind": "hist", "scenario": "own", "base": base,
                "rounds": 3, "scribble": hows[:3], "read_order": rng.choice([None, rng.randrange(1 << 16)])}

    def _gen_conf(self, rng, i):
        h, w = rng.randint(3, 5), rng.randint(3, 5)
        m, _ = gen.random_mask(rng, h, w, kind=rng.choice(["block", "blocks", "bernoulli", "all", "cross"]))
        if sum(1 for r in m for b in r if not b) < 2:
            m = gen.full(h, w, False)
        base = self._real_case(rng, m, 1 + i % 2)          # partially regularized: the diagonal value is in force
        base["tag"] = "hist_conf"
        default = "1/1000"
        vals = ["1/1000", "1/64", "1/4", "1/1024", "3/8"]
        steps = []
        for k in range(rng.choice([2, 3])):
            v = default if (k == 0 and rng.random() < 0.5) else rng.choice(vals)
            sets = [["inversion", "no_regularization_add_to_curvature_diag_value", float(Fraction(v))]]
            if rng.random() < 0.4:
                sets.append(["inversion", "positive_only_uses_p_initial", rng.random() < 0.5])
            if rng.random() < 0.3:
                sets.append(["profiling", "repeats", rng.choice([1, 2])])
            explicit = None
            if rng.random() < 0.3:
                explicit = rng.choice([x for x in vals if x != v])
            steps.append({"set": sets, "explicit": explicit, "expect_add": explicit or v})
        if rng.random() < 0.3:
            base["feed"].setdefault("opts", {})["fit_run_time_dict"] = {}
            base["feed"]["wrapper"] = "harness"
        return {"tag": "hist_conf", "kind": "hist", "scenario": "conf", "base": base, "steps": steps,
                "shared": rng.random() < 0.7, "read_order": rng.choice([None, rng.randrange(1 << 16)])}

    # ---- decades stream (R5-A / R5-E): kind "fit" + "rel": compared scale-free
    DEC_VARIANTS = ["world", "noise", "signal", "near_uniform_noise", "near_equal_model", "near_zero_model",
                    "near_zero_signal", "bg", "far_bg", "inv_world", "inv_F", "inv_H", "inv_s", "inv_near_diag",
                    "mock_terms", "world", "inv_s", "inv_world"]

    def _gen_dec(self, rng, i, extreme=False):
        """an ordinary small case with the whole world, or one ingredient, scaled by 2^k (dyadic inputs stay exact
        doubles), or with one ingredient nearly uniform / nearly equal to another / nearly zero (relative
        difference 2^-20 .. 2^-40 or 2^-30 .. 2^-60 of the scale): far outside 1e-9, inside np.allclose /
        np.isclose defaults.  `extreme`: exponents out to 2^+-498 (1e+-150) while every square / product the
        definitions form stays inside the float64 range."""
        variant = self.DEC_VARIANTS[i % len(self.DEC_VARIANTS)]
        if extreme and variant in ("near_uniform_noise", "near_equal_model", "near_zero_model", "near_zero_signal",
                                   "bg", "far_bg", "inv_near_diag"):
            variant = ["world", "noise", "signal", "inv_world", "inv_s"][i % 5]
        for _ in range(30):
            h, w = rng.randint(1, 4), rng.randint(1, 5)
            m, _k = gen.random_mask(rng, h, w)
            if sum(1 for r in m for b in r if not b) == 0:
                m[rng.randrange(h)][rng.randrange(w)] = False
            mode = rng.choice(["native", "slim", "slim_applied"])
            if variant.startswith("inv_"):
                inv = self._inversion(rng, rng.choice(["all_reg", "partial", "all_reg"]))
            elif variant == "mock_terms":
                inv = self._inversion(rng, "mock")
            else:
                inv = self._inversion(rng, rng.choice(["all_reg", "partial", "mock"])) if rng.random() < 0.35 else None
            fit_cls = "dataset" if (rng.random() < 0.2 and mode != "slim_applied") else "imaging"
            c = self._case(rng, m, "dec", mode, fit_cls, variant in ("bg", "far_bg") or rng.random() < 0.5, inv,
                           ints=False)
            c["feed"]["dtype"], c["feed"]["reg"] = "float", "ndarray"
            if c["feed"]["dm"] == "explicit_int":
                c["feed"]["dm"] = "explicit"
            bits = c["mask"]["bits"]
            un = [k for k, b in enumerate(bits) if b == "0"]
            two = Fraction(2)
            ex = (lambda: rng.choice([-1, 1]) * rng.choice([100, 200, 300, 400, 470, 498])) if extreme \
                else (lambda: rng.choice([-1, 1]) * rng.randint(8, 45))
            kd = kn = 0
            if variant in ("world", "inv_world"):
                kd = kn = ex()
                if rng.random() < 0.5:          # signal and noise at different decades
                    kd = max(-498, min(498, kn + rng.choice([-1, 1]) * rng.randint(5, 60 if not extreme else 470)))
            elif variant in ("noise", "near_uniform_noise"):
                kn = ex() if variant == "noise" else rng.choice([-45, -30, -20, 0, 0, 20, 45])
                if extreme:
                    kn = max(-470, min(470, kn))
            elif variant == "signal":
                kd = ex()
                if extreme:
                    kd = max(-470, min(470, kd))
            elif variant in ("near_equal_model", "near_zero_model", "near_zero_signal"):
                kd = kn = rng.choice([-40, -20, 0, 0, 20, 40])
            if abs(kd - kn) > 470:
                kd = kn + (470 if kd > kn else -470)
            sc = lambda key, k: [q(Fraction(v) * two ** k) for v in c[key]]
            if variant == "near_uniform_noise":
                n0, t = gen.pos_dyadic(rng, 1, 6, 2), rng.choice([20, 27, 33, 40])
                js = [rng.randint(-3, 3) for _ in bits]
                if len(set(js[k] for k in un)) == 1 and len(un) > 1:
                    js[un[0]] += 1
                c["noise"] = [q((-1 if Fraction(v) < 0 else 1) * n0 * (1 + Fraction(j, 2 ** t)))
                              for v, j in zip(c["noise"], js)]
            bg = Fraction(c["background"])
            if variant == "bg" and bg != 0:
                c["background"] = q(bg * two ** rng.choice([-40, -30, -20, -10, 5, 12, 30]))
            elif variant == "far_bg":
                bg = Fraction(rng.choice([-1, 1]) * rng.randint(1, 7)) * two ** rng.randint(17, 40)
                c["data"] = [q(Fraction(v) + bg) for v in c["data"]]
                c["background"] = q(bg)
                c["fit_cls"] = "imaging"
                c["feed"]["dm"] = "explicit"
            bg = Fraction(c["background"]) if c["fit_cls"] == "imaging" else Fraction(0)
            if variant == "near_equal_model":
                t = rng.choice([20, 27, 33, 40])
                for k in un:
                    c["model"][k] = q((Fraction(c["data"][k]) - bg) * (1 + Fraction(rng.choice([-3, -2, -1, 1, 2, 3]), 2 ** t)))
            elif variant == "near_zero_model":
                t = rng.choice([30, 40, 50, 60])
                for k in un:
                    c["model"][k] = q(Fraction(rng.randint(-7, 7), 2 ** t))
            elif variant == "near_zero_signal":
                t = rng.choice([30, 36, 42])
                for k in un:
                    c["data"][k] = q(bg + Fraction(rng.choice([-5, -3, -1, 1, 2, 7]), 2 ** t))
            for key, k in (("data", kd), ("model", kd), ("noise", kn)):
                c[key] = sc(key, k)
            c["background"] = q(Fraction(c["background"]) * two ** kd)
            inv = c.get("inversion")
            if inv is not None and inv["kind"] == "abstract":
                kf = kh = ks = 0
                lim = (lambda: rng.choice([-1, 1]) * rng.choice([100, 200, 300])) if extreme else ex
                if extreme and variant in ("inv_s", "inv_world") and rng.random() < 0.6:
                    # quantities that get multiplied (R5-E): |s| ~ 1e+-150 while s^T H s, F + H stay representable
                    # (|s| up to 4 * 2^510 = 2^512: its square leaves the float64 range, s^T (H s) does not)
                    ks = rng.choice([-480, -400, -300, 300, 400, 480, 510, 510])
                    kf = kh = -2 * ks + (rng.randint(0, 12) if ks > 0 else -rng.randint(0, 12))
                elif variant == "inv_world":
                    kf = kh = lim()
                    ks = rng.choice([0, lim() // 2])
                elif variant == "inv_F":
                    kf = lim()
                elif variant == "inv_H":
                    kh = lim()
                elif variant == "inv_s":
                    ks = lim() // (2 if extreme else 1)
                elif variant.startswith("inv_") or rng.random() < 0.5:
                    kf, kh, ks = rng.randint(-45, 45), rng.randint(-45, 45), rng.randint(-20, 20)
                if abs(kh + 2 * ks) > 900 or abs(kh + ks) > 900:
                    ks = 0
                inv["F"] = [[q(Fraction(v) * two ** kf) for v in r] for r in inv["F"]]
                inv["s"] = [q(Fraction(v) * two ** ks) for v in inv["s"]]
                for o in inv["objs"]:
                    if o["reg"] is not None:
                        t = rng.choice([10, 20, 30]) if variant == "inv_near_diag" else 0
                        o["reg"] = [[q(Fraction(v) * two ** kh * (1 if a == b else Fraction(1, 2 ** t)))
                                     for b, v in enumerate(r)] for a, r in enumerate(o["reg"])]
            elif inv is not None and inv["kind"] == "mock" and (variant == "mock_terms" or rng.random() < 0.5):
                for k in inv["terms"]:
                    inv["terms"][k] = q(Fraction(inv["terms"][k]) * two ** rng.randint(-45, 45))
            # the property's domain + every input an exact double + the first subtraction exact
            if not self._valid_state(c):
                continue
            nums = c["data"] + c["noise"] + c["model"] + [c["background"]]
            if inv is not None and inv["kind"] == "abstract":
                nums += [v for r in inv["F"] for v in r] + inv["s"] + [v for o in inv["objs"] if o["reg"] for r in o["reg"] for v in r]
            if not all(_is_double(Fraction(v)) for v in nums):
                continue
            if variant != "bg" and not all(_is_double(Fraction(c["data"][k]) - bg * two ** kd) for k in un):
                continue
            c["rel"] = True
            c["tag"] = f"dec_{'x_' if extreme else ''}{variant}"
            c["exps"] = [kd, kn]
            return c
        return None

    # ---- container / layout variants (R5-C)
    def _gen_layout(self, rng, i):
        mode = ["native", "slim", "slim_applied"][i % 3]
        h, w = rng.randint(1, 5), rng.randint(1, 5)
        m, _k = gen.random_mask(rng, h, w)
        if sum(1 for r in m for b in r if not b) == 0:
            m[rng.randrange(h)][rng.randrange(w)] = False
        st = [None, "all_reg", "partial", "none_reg", "mock"][(i // 3) % 5]
        inv = self._inversion(rng, st) if st else None
        fit_cls = "dataset" if (rng.random() < 0.2 and mode != "slim_applied") else "imaging"
        c = self._case(rng, m, "lay", mode, fit_cls, rng.random() < 0.6, inv)
        f = c["feed"]
        f["container"] = "ndarray"
        if f["dtype"] == "pyint":
            f["dtype"] = "int64"
        what = ["arrays", "mask", "inversion", "level", "model", "util", "arrays+mask"][i % 7]
        lay = lambda: rng.choice(["F", "T", "strided", "ro"])
        if "arrays" in what:
            f["layout"] = lay()
        if "mask" in what:
            f["mask_feed"] = rng.choice(["F", "T", "strided", "ro", "list", "int", "from_mask", "from_mask"])
        if what == "inversion" and inv is not None and inv["kind"] == "abstract":
            f["inv_layout"] = rng.choice(["F", "T", "strided", "ro", "list"])
            if f["reg"] != "list":
                f["reg_layout"] = lay()
        if what == "level":
            bg = Fraction(c["background"])
            if bg == 0:
                f["dm"] = rng.choice(["neg0", "false", "np64", "np0d", "explicit_0", "explicit_0.0"])
            else:
                f["dm"] = rng.choice(["np64", "np0d", "np32"])
        if what == "model":
            f["model_feed"] = "bare"
            f["wrapper"] = "harness"
        if what == "util" and f["dtype"] == "float":
            f["util"] = rng.choice(["F", "T", "strided", "ro", "C"])
        c["tag"] = f"lay_{what}_{mode}"
        return c

    # ---- rarely combined options (R5-F): constructor options introspected, crossed pairwise
    OPTION_VALUES = {
        # SettingsInversion (mapping formalism; `use_w_tilde` stays False: the cases' dataset carries no w-tilde)
        "settings.use_positive_only_solver": [False, True],
        "settings.positive_only_uses_p_initial": [False, True],
        "settings.use_border_relocator": [False, True],
        "settings.force_edge_pixels_to_zeros": [False],
        "settings.image_pixels_source_zero": [[]],
        "settings.no_regularization_add_to_curvature_diag_value": ["1/64", "0"],
        "settings.use_w_tilde_numpy": [True],
        "settings.use_source_loop": [True],
        "settings.use_linear_operators": [True],
        "settings.image_mesh_min_mesh_pixels_per_pixel": [0],
        "settings.image_mesh_min_mesh_number": [0],
        "settings.image_mesh_adapt_background_percent_threshold": [0.0],
        "settings.image_mesh_adapt_background_percent_check": [0.0],
        "settings.tolerance": [0.0],
        "settings.maxiter": [0],
        # Preloads slots whose consistent value is defined by the world (the others stay None)
        "preloads.regularization_matrix": ["world"],
        "preloads.log_det_regularization_matrix_term": ["world"],
        "preloads.curvature_matrix": ["world"],
        "preloads.operated_mapping_matrix": ["world"],
        "preloads.use_w_tilde": [False],
        # fit / dataset model / inversion constructors
        "fit.use_mask_in_fit": [False],
        "fit.run_time_dict": [{}],
        "dm.background_sky_level": ["nonzero", 0.0, 0, "neg0", False],
        "dm.grid_offset": [[0.0, 0.0], [1.5, -2.0], [0, 0]],
        "inv.run_time_dict": [{}],
    }
    OPTION_SKIP = {"self", "dataset", "linear_obj_list", "settings", "preloads", "dataset_model", "use_w_tilde",
                   "w_tilde", "force_edge_image_pixels_to_zeros"}

    def _option_space(self):
        """(name, value) for every non-default / set-but-falsy value of every constructor option of the classes
        the property names, from their signatures; an option this table does not know gets values from the
        type of its default (bool -> flipped, number -> 0 and twice the default)."""
        import inspect

        aa = load_autoarray()
        from autoarray.inversion.inversion.abstract import AbstractInversion

        out = []
        for owner, cls in (("settings", aa.SettingsInversion), ("preloads", aa.Preloads), ("fit", aa.FitImaging),
                           ("dm", aa.DatasetModel), ("inv", AbstractInversion)):
            for name, prm in inspect.signature(cls.__init__).parameters.items():
                key = f"{owner}.{name}"
                if key in self.OPTION_VALUES:
                    out += [(key, v) for v in self.OPTION_VALUES[key]]
                elif name in self.OPTION_SKIP or owner == "preloads":
                    continue
                elif isinstance(prm.default, bool):
                    out.append((key, not prm.default))
                elif isinstance(prm.default, (int, float)):
                    out += [(key, 0), (key, prm.default * 2)]
        return out

    def _gen_opts(self, rng, n=None):
        space = self._option_space()
        pairs = [(a, b) for x, a in enumerate(space) for b in space[x + 1:] if a[0] != b[0]]
        rng.shuffle(pairs)
        if n is not None:
            # a covering sample: every value of every option occurs in at least three of the sampled pairs
            seen, pick = {}, []
            for rnd in range(3):
                for v in space:
                    kv = json.dumps(v, sort_keys=True)
                    if seen.get(kv, 0) > rnd:
                        continue
                    for pr in pairs:
                        if v in pr and pr not in pick:
                            pick.append(pr)
                            for u in pr:
                                ku = json.dumps(u, sort_keys=True)
                                seen[ku] = seen.get(ku, 0) + 1
                            break
            pairs = (pick + [pr for pr in pairs if pr not in pick])[:max(n, len(pick))]
        for j, (a, b) in enumerate(pairs):
            h, w = rng.randint(3, 5), rng.randint(3, 5)
            m, _k = gen.random_mask(rng, h, w, kind=rng.choice(["block", "blocks", "bernoulli", "all", "cross"]))
            if sum(1 for r in m for bb in r if not bb) < 3:
                m = gen.full(h, w, False)
            c = self._real_case(rng, m, j % 3)
            opts = {}
            for key, v in (a, b):
                opts[key] = v
            f = c["feed"]
            f["wrapper"] = "harness"
            lvl = opts.get("dm.background_sky_level")
            if lvl is not None:
                if lvl == "nonzero":
                    if Fraction(c["background"]) == 0:
                        c["background"] = "3/8"
                    f["dm"] = "explicit"
                else:
                    c["background"] = "0"
                    f["dm"] = {"0.0": "explicit_0.0", "0": "explicit_0", "neg0": "neg0", "False": "false"}[str(lvl)]
                bg = Fraction(c["background"])
                c["data"] = qlist(self._fix_zero_data([Fraction(v) for v in c["data"]], m, bg))
            if "dm.grid_offset" in opts:
                if f["dm"] in ("none", "omitted", "default_obj", "explicit_0.0", "explicit_0"):
                    f["dm"] = "explicit"
                f.setdefault("opts", {})["grid_offset"] = opts["dm.grid_offset"]
                f["opts"]["grid_offset_tuple"] = rng.random() < 0.7
            if "fit.run_time_dict" in opts:
                f.setdefault("opts", {})["fit_run_time_dict"] = {}
            if "fit.use_mask_in_fit" in opts:
                f["use_mask_kw"] = "explicit"
            c["inv_opts"] = {k: v for k, v in opts.items() if k.split(".")[0] in ("settings", "preloads", "inv")}
            if opts.get("settings.use_positive_only_solver") is False:
                # the positive-negative solver documents an InversionException for a MAPPER whose reconstructed values
                # are all equal (always so with one parameter): regularized linear function lists instead
                for o in c["inversion"]["objs"]:
                    o["cls"] = "linear"
            add = c["inv_opts"].get("settings.no_regularization_add_to_curvature_diag_value")
            if add is not None:
                if Fraction(add) == 0:
                    # "set but falsy": legal only when F is positive definite without the diagonal value
                    Fq = [[Fraction(v) for v in r] for r in self._exact_F(c, add=0)]
                    if _exact_logdet(Fq) is None:
                        add = c["inv_opts"]["settings.no_regularization_add_to_curvature_diag_value"] = "1/64"
                c["diag_add"] = add
            c["tag"] = "opt_" + "+".join(sorted(k.split(".")[0] for k in opts))
            yield c

    def _hist_stream(self, tier, rng):
        k = 3 if tier == "quick" else 10
        # round-5/6 streams first (see the design note): shared user-built Preloads, ownership, configuration
        for i in range(30 * k):
            yield self._gen_upre(rng, i)
        for i in range(16 * k):
            yield self._gen_own(rng, i)
        for i in range(6 * k):
            yield self._gen_conf(rng, i)
        plan = [(self._gen_edit, 70 * k), (self._gen_twin, 60 * k), (self._gen_shared, 50 * k),
                (self._gen_fault, 30 * k), (self._gen_decoy, 40 * k)]
        # the library-derived preloads first: a stale quantity there is a wrong log evidence, the most direct
        # statement of the property
        for i in range(24 * k):
            yield self._gen_preloads(rng, i)
        for fn, n in plan:
            for _ in range(n):
                c = fn(rng)
                if c is not None:
                    yield c
        for i in range(12 * k):
            yield self._gen_decoy(rng, real_i=i)

    # ------------------------------------------------------------------ model
    def _slim(self, case, key, obs=None):
        bits = case["mask"]["bits"]
        return [v for v, b in zip(case[key], bits) if b == "0"]

    def model_requests(self, case, impl_obs):
        kind = case.get("kind", "fit")
        if kind == "big":
            return []           # judged by the vectorised oracle alone (sizes beyond the exact driver)
        if kind == "hist":
            if not isinstance(impl_obs, dict) or "steps" not in impl_obs:
                return []
            reqs = []
            for st, ob in zip(self._hist_states(case), impl_obs["steps"]):
                if st is not None:
                    reqs += self._fit_requests(st, ob)
            return reqs
        return self._fit_requests(case, impl_obs)

    def _fit_requests(self, case, impl_obs):
        native = case["mode"] == "native"
        inv = case.get("inversion")
        model = case["model"] if native else self._slim(case, "model")
        ij = None
        if inv is not None:
            if inv["kind"] == "mock":
                ij = {"terms": inv["terms"]}
            elif inv["kind"] == "abstract":
                ij = {"objs": [{"params": o["params"], "reg": o["reg"]} for o in inv["objs"]],
                      "F": inv["F"], "s": inv["s"]}
            else:
                if "_F" not in impl_obs:
                    return []
                ij = {"objs": [{"params": o["params"], "reg": o["reg"]} for o in inv["objs"]],
                      "F": impl_obs["_F"], "s": impl_obs["_s"]}
                model = impl_obs["_model"]
        return [{
            "op": "c08.fit", "use_mask": native, "imaging": case["fit_cls"] == "imaging",
            "bits": case["mask"]["bits"],
            "data": case["data"] if native else self._slim(case, "data"),
            "noise": case["noise"] if native else self._slim(case, "noise"),
            "model": model, "background": case["background"], "inversion": ij,
        }]

    def model_obs(self, case, responses):
        if case.get("kind") == "hist":
            out, k = [], 0
            for st in self._hist_states(case):
                if st is None:
                    out.append(None)
                    continue
                o = self._fit_model_obs(st, responses[k:k + 1])
                k += 1
                if "curvature_matrix_after" in st and isinstance(o, dict) and "err" not in o:
                    o["curvature_matrix_after"] = st["curvature_matrix_after"]
                out.append(o)
            return {"steps": out}
        return self._fit_model_obs(case, responses)

    def _fit_model_obs(self, case, responses):
        r = responses[0]
        if "ok" not in r:
            return {"err": r.get("err")}
        o = r["ok"]
        if case["mode"] == "native":
            o["util_chi_squared_with_mask_fast"] = o["chi_squared"]
        if "0" not in case["mask"]["bits"]:
            o["reduced_chi_squared"] = None
        inv = case.get("inversion")
        if (case.get("feed") or {}).get("util") and (inv is None or inv["kind"] != "real"):
            o["util"] = {k: o[k] for k in self.UTIL_KEYS}
        return o

    def compare(self, case, impl_obs, model_obs, cmp):
        strip = lambda o: {k: v for k, v in o.items() if not k.startswith("_")} if isinstance(o, dict) else o
        if case.get("kind") == "hist" and isinstance(impl_obs, dict) and "steps" in impl_obs:
            states = self._hist_states(case)
            for k, (a, b) in enumerate(zip(impl_obs["steps"], model_obs["steps"])):
                if b is None:
                    continue        # a step that is not an observation (the injected fault itself)
                d = self._cmp_fit(states[k] if k < len(states) else None, strip(a), b, cmp, f"$.steps[{k}]")
                if d:
                    return d
            return None
        return self._cmp_fit(case, strip(impl_obs), model_obs, cmp)

    # ------------------------------------------------------------------ oracle
    def oracle(self, case, obs):
        if "err" in obs:
            return False, f"implementation raised {obs['err']}: {obs.get('msg', '')}"
        kind = case.get("kind", "fit")
        if kind == "big":
            return self._oracle_big(case, obs)
        if kind == "hist":
            labels = obs.get("labels") or []
            for k, (st, ob) in enumerate(zip(self._hist_states(case), obs["steps"])):
                if st is None:
                    continue
                lab = labels[k] if k < len(labels) else ""
                if isinstance(ob, dict) and "err" in ob:
                    return False, f"history step {k} ({lab}): implementation raised {ob['err']}: {ob.get('msg', '')}"
                ok, why = self._oracle_fit(st, ob)
                if ok and "curvature_matrix_after" in st:
                    got = ob.get("curvature_matrix_after")
                    want = st["curvature_matrix_after"]
                    bad = got is None or len(got) != len(want) or any(
                        not _close(Fraction(g), Fraction(x)) for rg, rw in zip(got, want) for g, x in zip(rg, rw))
                    if bad:
                        ok, why = False, ("inversion.curvature_matrix read after the evidence terms is not the "
                                          "curvature matrix F of this inversion")
                if not ok:
                    return False, f"history step {k} ({lab}): {why} [expected = a freshly built fit in this state]"
            return True, ""
        return self._oracle_fit(case, obs)

    def _oracle_fit(self, case, obs):
        if "err" in obs:
            return False, f"implementation raised {obs['err']}: {obs.get('msg', '')}"
        bits = case["mask"]["bits"]
        native = case["mode"] == "native"
        un = [i for i, b in enumerate(bits) if b == "0"]
        pos = un if native else list(range(len(un)))      # where pixel k sits in the reported maps
        bg = _fr(case["background"]) if case["fit_cls"] == "imaging" else Fraction(0)
        data = [_fr(case["data"][i]) - bg for i in un]
        noise = [_fr(case["noise"][i]) for i in un]
        inv = case.get("inversion")
        if inv is not None and inv["kind"] == "real":
            model = [_fr(v) for v in obs["_model"]]
        else:
            model = [_fr(case["model"][i]) for i in un]
        res = [d - m for d, m in zip(data, model)]
        exp_maps = {
            "data": data,
            "residual_map": res,
            "normalized_residual_map": [r / n for r, n in zip(res, noise)],
            "chi_squared_map": [(r / n) ** 2 for r, n in zip(res, noise)],
            "residual_flux_fraction_map": [r / d for r, d in zip(res, data)],
            "signal_to_noise_map": [max(d / n, Fraction(0)) for d, n in zip(data, noise)],
        }
        nmap = len(bits) if native else len(un)
        # decades stream (`rel`): scale-free comparison, no absolute floor (see _rel_floors); otherwise the
        # ordinary 1e-9 max(1, |.|)
        fl = self._rel_floors(case) if case.get("rel") else None
        log_scale = 0.0

        def show(v):
            try:
                return repr(float(Fraction(v)))
            except (ValueError, OverflowError):
                return str(v)

        def check_maps(src, keys, label):
            for k in keys:
                exp, got = exp_maps[k], src[k]
                if len(got) != nmap:
                    return f"{label}{k}: {len(got)} entries reported, expected {nmap}"
                for j, p_ in enumerate(pos):
                    if got[p_] in ("nan", "inf", "-inf"):
                        return f"{label}{k}[pixel {un[j]}] = {got[p_]}, definition gives {float(exp[j])!r}"
                    good = _close(Fraction(got[p_]), exp[j]) if fl is None else _rclose(got[p_], exp[j], fl[k][p_])
                    if not good:
                        return f"{label}{k}[pixel {un[j]}] = {show(got[p_])}, definition gives {float(exp[j])!r}"
            return None

        bad = check_maps(obs, list(exp_maps), "")
        if bad:
            return False, bad
        chi = sum(exp_maps["chi_squared_map"], Fraction(0))
        logs = [math.log(2.0 * math.pi * float(n) ** 2) for n in noise]
        norm = math.fsum(logs) if fl is not None else sum(logs)
        scal = {
            "chi_squared": float(chi),
            **({"reduced_chi_squared": float(chi / len(un))} if un else {}),
            "noise_normalization": norm,
            "log_likelihood": -0.5 * (float(chi) + norm),
        }
        if fl is not None:
            log_scale = math.fsum(abs(v) for v in logs)

        def check_scalars(src, keys, label):
            for k in keys:
                e = scal[k]
                if src[k] in ("nan", "inf", "-inf"):
                    good = False
                elif fl is None:
                    good = _close(Fraction(src[k]), e)
                elif k in ("chi_squared", "reduced_chi_squared"):
                    good = _rclose(src[k], chi if k == "chi_squared" else chi / len(un), fl[k])
                else:
                    good = src[k] not in ("inf", "-inf", "nan") and _close(
                        Fraction(src[k]), e, scale=max(log_scale, float(chi) if k == "log_likelihood" else 0.0))
                if not good:
                    return f"{label}{k} = {show(src[k])}, definition over the unmasked pixels gives {e!r}"
            return None

        bad = check_scalars(obs, list(scal), "")
        if bad:
            return False, bad
        if "util" in obs:        # the fit_util functions called directly on bare arrays in another memory layout
            bad = (check_maps(obs["util"], [k for k in self.UTIL_KEYS if k in exp_maps], "fit_util (direct call) ")
                   or check_scalars(obs["util"], [k for k in self.UTIL_KEYS if k in scal], "fit_util (direct call) "))
            if bad:
                return False, bad
        if inv is None:
            for k in ("log_evidence", "log_likelihood_with_regularization"):
                if obs[k] is not None:
                    return False, f"{k} reported without an inversion"
            if obs["figure_of_merit"] in ("inf", "-inf", "nan") or not _close(
                    Fraction(obs["figure_of_merit"]), scal["log_likelihood"], scale=max(log_scale, float(chi)) if fl else 0.0):
                return False, "figure_of_merit is not the log likelihood although no inversion is present"
            return True, ""
        io = obs["inversion"]
        reg_floor = Fraction(0)
        for k, v in io.items():         # a non-finite entry anywhere in what the inversion reports
            flat = [x for r in v for x in (r if isinstance(r, list) else [r])] if isinstance(v, list) else [v]
            if any(x in ("nan", "inf", "-inf") for x in flat):
                return False, f"inversion.{k} contains a non-finite entry ({next(x for x in flat if x in ('nan', 'inf', '-inf'))})"
        for k in ("figure_of_merit", "log_evidence", "log_likelihood_with_regularization"):
            if obs.get(k) in ("nan", "inf", "-inf"):
                return False, f"{k} = {obs[k]}"
        if inv["kind"] == "mock":
            reg, lcr, lr = (float(Fraction(inv["terms"][k])) for k in
                            ("regularization_term", "log_det_curvature_reg_matrix_term",
                             "log_det_regularization_matrix_term"))
        else:
            objs = inv["objs"]
            F = inv["F"] if inv["kind"] == "abstract" else obs["_F"]
            s = inv["s"] if inv["kind"] == "abstract" else obs["_s"]
            F = [[_fr(v) for v in r] for r in F]
            s = [_fr(v) for v in s]
            # regularized parameter positions, object by object
            keep, off, reg_q = [], 0, Fraction(0)
            blocks = []
            for o in objs:
                p = o["params"]
                if o["reg"] is not None:
                    H = [[_fr(v) for v in r] for r in o["reg"]]
                    so = s[off:off + p]
                    reg_q += sum(so[a] * H[a][b] * so[b] for a in range(p) for b in range(p))
                    reg_floor += sum(abs(so[a] * H[a][b] * so[b]) for a in range(p) for b in range(p))
                    blocks.append((len(keep), H))
                    keep += list(range(off, off + p))
                off += p
            if not keep:
                reg, lcr, lr = 0.0, 0.0, 0.0
            else:
                nk = len(keep)
                Hr = [[Fraction(0)] * nk for _ in range(nk)]
                for st, H in blocks:
                    for a in range(len(H)):
                        for b in range(len(H)):
                            Hr[st + a][st + b] = H[a][b]
                FH = np.array([[float(F[keep[a]][keep[b]] + Hr[a][b]) for b in range(nk)] for a in range(nk)])
                sg1, ld1 = np.linalg.slogdet(FH)
                sg2, ld2 = np.linalg.slogdet(np.array([[float(v) for v in r] for r in Hr]))
                if sg1 <= 0 or sg2 <= 0:
                    return True, "matrices not positive definite: outside the property's domain"
                reg, lcr, lr = float(reg_q), float(ld1), float(ld2)
                # exact rational log-determinants of the same principal sub-matrices
                FHq = [[F[keep[a]][keep[b]] + Hr[a][b] for b in range(nk)] for a in range(nk)]
                e1, e2 = _exact_logdet(FHq), _exact_logdet(Hr)
                if e1 is not None and e2 is not None:
                    lcr, lr = e1, e2
                # the factorisation contracts the Lean theorems assume, on the matrices the
                # implementation itself handed to numpy / SuperLU
                why = _factorisation_contracts(
                    np.array([[_f(v) for v in r] for r in io["curvature_reg_matrix_reduced"]]).reshape(nk, nk),
                    np.array([[_f(v) for v in r] for r in io["regularization_matrix_reduced"]]).reshape(nk, nk))
                if why:
                    return False, "factorisation contract (trusted base) not met: " + why
                if fl is not None:
                    # decades stream: the matrices and the reduced reconstruction element-wise, scale-free
                    tot = len(F)
                    Hfull = [[Fraction(0)] * tot for _ in range(tot)]
                    for a in range(nk):
                        for b in range(nk):
                            Hfull[keep[a]][keep[b]] = Hr[a][b]
                    want = {
                        "regularization_matrix": Hfull, "regularization_matrix_reduced": Hr,
                        "curvature_reg_matrix": [[F[a][b] + Hfull[a][b] for b in range(tot)] for a in range(tot)],
                        "curvature_reg_matrix_reduced": FHq,
                        "reconstruction_reduced": [[s[a] for a in keep]],
                    }
                    for k, Wm in want.items():
                        G = io[k] if k != "reconstruction_reduced" else [io[k]]
                        if len(G) != len(Wm) or any(len(g) != len(x) for g, x in zip(G, Wm)):
                            return False, f"inversion.{k} has the wrong shape"
                        for a, (g, x) in enumerate(zip(G, Wm)):
                            for b, (gv, xv) in enumerate(zip(g, x)):
                                if not _rclose(gv, xv):
                                    return False, (f"inversion.{k}[{a}][{b}] = {show(gv)}, definition gives "
                                                   f"{float(xv)!r}")
        for k, e in (("regularization_term", reg), ("log_det_curvature_reg_matrix_term", lcr),
                     ("log_det_regularization_matrix_term", lr)):
            if fl is not None and io[k] in ("inf", "-inf", "nan"):
                good = False
            elif fl is not None and k == "regularization_term" and inv["kind"] != "mock":
                good = _rclose(io[k], reg_q, reg_floor)
            else:
                good = _close(Fraction(io[k]), e)
            if not good:
                return False, (f"inversion.{k} = {show(io[k])}; restricted to the regularized "
                               f"parameters the definition gives {e!r}")
        chi_f = scal["chi_squared"]
        ev = -0.5 * (chi_f + reg + lcr - lr + norm)
        llr = -0.5 * (chi_f + reg + norm)
        sc = max(log_scale, abs(chi_f), abs(reg), abs(lcr), abs(lr)) if fl is not None else 0.0
        for k in ("log_evidence", "log_likelihood_with_regularization", "figure_of_merit"):
            if fl is not None and obs[k] in ("inf", "-inf", "nan"):
                return False, f"{k} = {obs[k]}"
        if obs["log_evidence"] is None or not _close(Fraction(obs["log_evidence"]), ev, scale=sc):
            return False, f"log_evidence = {obs['log_evidence']}, definition gives {ev!r}"
        if obs["log_likelihood_with_regularization"] is None or not _close(
                Fraction(obs["log_likelihood_with_regularization"]), llr, scale=sc):
            return False, "log_likelihood_with_regularization does not follow its definition"
        if not _close(Fraction(obs["figure_of_merit"]), ev, scale=sc):
            return False, "figure_of_merit is not the log evidence although an inversion is present"
        return True, ""

    # ---- scale-free comparison of the decades stream
    REL_MAPS = ["data", "residual_map", "normalized_residual_map", "chi_squared_map", "residual_flux_fraction_map",
                "signal_to_noise_map"]
    REL_INV = ["regularization_matrix", "regularization_matrix_reduced", "curvature_reg_matrix",
               "curvature_reg_matrix_reduced", "reconstruction_reduced"]

    def _rel_floors(self, case):
        """`floor` of _rclose for every multiplicative quantity of a `rel` (decades) case, by position in the
        REPORTED arrays.  IEEE arithmetic rounds every single operation correctly, so data - background, a
        quotient, a square and a sum of non-negative terms are accurate RELATIVE to their own value: floor 0.  The
        one place where rounding is relative to something larger is the second subtraction, (data - background)
        - model: if data - background is not itself a double its rounding error (relative to |data - background|)
        survives into a possibly much smaller residual — there |data - background| is the floor (propagated to
        the quantities computed from the residual).  Generated cases keep data - background exact, so the floor
        is normally 0 everywhere."""
        bits = case["mask"]["bits"]
        native = case["mode"] == "native"
        bg = Fraction(case["background"]) if case["fit_cls"] == "imaging" else Fraction(0)
        cells = list(range(len(bits))) if native else [i for i, b in enumerate(bits) if b == "0"]
        zero = [Fraction(0)] * len(cells)
        fl = {k: list(zero) for k in self.REL_MAPS}
        chi_floor = Fraction(0)
        for p_, i in enumerate(cells):
            if bits[i] == "1":
                continue
            d = Fraction(case["data"][i]) - bg
            if _is_double(d):
                continue
            e, n, r = abs(d), abs(Fraction(case["noise"][i])), abs(d - Fraction(case["model"][i]))
            fl["residual_map"][p_] = e
            fl["normalized_residual_map"][p_] = e / n
            fl["chi_squared_map"][p_] = ((r + e) / n) ** 2 - (r / n) ** 2
            fl["residual_flux_fraction_map"][p_] = Fraction(1)
            chi_floor += fl["chi_squared_map"][p_]
        n_un = bits.count("0")
        fl["chi_squared"] = chi_floor
        fl["reduced_chi_squared"] = chi_floor / n_un if n_un else Fraction(0)
        return fl

    def _cmp_fit(self, st, a, b, cmp, path="$"):
        """model vs implementation for one fit state: exact / 1e-9 max(1, |.|) as everywhere (cmp.diff), except in
        the decades stream, where the multiplicative quantities are compared scale-free (_rclose)."""
        if not (isinstance(st, dict) and st.get("rel")) or not isinstance(a, dict) or not isinstance(b, dict) \
                or "err" in a or "err" in b:
            return cmp.diff(a, b, path)
        fl = self._rel_floors(st)
        a, b = dict(a), dict(b)

        def rel(x, y, floor, pth):
            if isinstance(x, list) and isinstance(y, list):
                if len(x) != len(y):
                    return f"{pth}: length impl={len(x)} model={len(y)}"
                for i, (u, v) in enumerate(zip(x, y)):
                    d = rel(u, v, floor[i] if isinstance(floor, list) else floor, f"{pth}[{i}]")
                    if d:
                        return d
                return None
            try:
                if Fraction(x) == Fraction(y):
                    cmp.exact += 1
                    return None
            except (ValueError, TypeError):
                return None if x == y else f"{pth}: impl={x!r} model={y!r}"
            if _rclose(x, y, floor):
                cmp.tolerant += 1
                return None
            return f"{pth}: impl={float(Fraction(x))!r} model={float(Fraction(y))!r} (scale-free comparison, floor {float(floor)!r})"

        for k in self.REL_MAPS + ["chi_squared", "reduced_chi_squared"]:
            if k in a and k in b and a[k] is not None and b[k] is not None:
                d = rel(a.pop(k), b.pop(k), fl[k], f"{path}.{k}")
                if d:
                    return d
        ia, ib = a.get("inversion"), b.get("inversion")
        if isinstance(ia, dict) and isinstance(ib, dict):
            ia, ib = dict(ia), dict(ib)
            for k in self.REL_INV:
                if k in ia and k in ib:
                    d = rel(ia.pop(k), ib.pop(k), Fraction(0), f"{path}.inversion.{k}")
                    if d:
                        return d
            inv = st.get("inversion") or {}
            if inv.get("kind") == "abstract" and "regularization_term" in ia and "regularization_term" in ib:
                sv = [Fraction(v) for v in inv["s"]]
                floor, off = Fraction(0), 0
                for o in inv["objs"]:
                    p_ = o["params"]
                    if o["reg"] is not None:
                        floor += sum(abs(sv[off + x] * Fraction(o["reg"][x][y]) * sv[off + y])
                                     for x in range(p_) for y in range(p_))
                    off += p_
                d = rel(ia.pop("regularization_term"), ib.pop("regularization_term"), floor,
                        f"{path}.inversion.regularization_term")
                if d:
                    return d
            a["inversion"], b["inversion"] = ia, ib
        return cmp.diff(a, b, path)

    # ------------------------------------------------------------------ misc
    def nontrivial(self, case, obs):
        if case.get("kind") in ("big", "hist"):
            return True
        bits = case["mask"]["bits"]
        return ("0" in bits and "1" in bits) or case.get("inversion") is not None

    def _shrink_fit(self, case):
        feed = case.get("feed") or {}
        for k in ("layout", "mask_feed", "inv_layout", "reg_layout", "model_feed", "util", "opts"):
            if k in feed:       # round-5/6 feeds: back to the plain container / layout / default options
                yield {**case, "feed": {kk: v for kk, v in feed.items() if kk != k}}
        io = case.get("inv_opts")
        if io:
            for k in io:
                if k != "settings.no_regularization_add_to_curvature_diag_value":
                    yield {**case, "inv_opts": {kk: v for kk, v in io.items() if kk != k}}
        if case.get("inversion") is not None and case["inversion"]["kind"] != "real":
            yield {**case, "inversion": None}
        if Fraction(case["background"]) != 0:
            yield {**case, "background": "0"}
        mj = case["mask"]
        bits = mj["bits"]
        if case.get("inversion") is None or case["inversion"]["kind"] != "real":
            for i, c in enumerate(bits):
                if c == "0" and bits.count("0") > 1:
                    yield {**case, "mask": {**mj, "bits": bits[:i] + "1" + bits[i + 1:]}}

    def _shrink_big(self, case):
        iv = case.get("inv")
        n = case["h"] * case["w"]
        un = n if case["mask"]["kind"] == "all" else case["mask"]["len"] - case["mask"]["holes"]

        def frame(h, w, u):
            u = max(1, min(u, h * w))
            mk = {"kind": "all"} if u >= h * w else self._run_mask_recipe(h * w, u)
            return {**case, "h": h, "w": w, "mask": mk}

        if iv:
            if n > 6:
                yield {**frame(2, 3, 5), "noise_exp": 0, "data_exp": 0, "background": "0", "noise_mixed": False}
            yield {**case, "inv": None}
            tot_reg = sum(p for p, f in zip(iv["params"], iv["reg"]) if f)
            if not all(iv["reg"]):
                keep = [(p, f) for p, f in zip(iv["params"], iv["reg"]) if f]
                if keep:
                    yield {**case, "inv": {**iv, "params": [p for p, _ in keep], "reg": [True] * len(keep)}}
            if len(iv["params"]) > 1 and all(iv["reg"]):
                yield {**case, "inv": {**iv, "params": [tot_reg], "reg": [True]}}
            for num, den in ((1, 2), (3, 4), (7, 8), (15, 16)):
                ps = [max(1, p * num // den) for p in iv["params"]]
                if ps != iv["params"]:
                    yield {**case, "inv": {**iv, "params": ps}}
            if len(iv["params"]) == 1 and iv["params"][0] > 1:
                yield {**case, "inv": {**iv, "params": [iv["params"][0] - 1]}}
            for k in ("f_exp", "h_exp", "s_exp"):
                if iv.get(k, 0):
                    yield {**case, "inv": {**iv, k: 0}}
                    if abs(iv[k]) > 1:
                        yield {**case, "inv": {**iv, k: int(iv[k] / 2)}}
            if iv.get("f_exp", 0) and iv.get("f_exp") == iv.get("h_exp"):
                yield {**case, "inv": {**iv, "f_exp": 0, "h_exp": 0}}
                yield {**case, "inv": {**iv, "f_exp": int(iv["f_exp"] / 2), "h_exp": int(iv["h_exp"] / 2)}}
        else:
            h, w = case["h"], case["w"]
            for num, den in ((1, 2), (3, 4), (7, 8), (15, 16)):
                if h > 1 and h * num // den >= 1 and h * num // den != h:
                    yield frame(h * num // den, w, un * num // den)
                if w > 1 and w * num // den >= 1 and w * num // den != w:
                    yield frame(h, w * num // den, un * num // den)
            if h > 1:
                yield frame(h - 1, w, un - w)
            if w > 1:
                yield frame(h, w - 1, un - h)
            if case["mask"]["kind"] != "all":
                yield {**case, "mask": {"kind": "all"}}
                if un > 1:
                    yield frame(h, w, un // 2)
                    yield frame(h, w, un - 1)
        if Fraction(case.get("background", "0")) != 0:
            yield {**case, "background": "0"}
        for k in ("noise_exp", "data_exp"):
            if case.get(k, 0):
                yield {**case, k: 0}
        if case.get("noise_mixed"):
            yield {**case, "noise_mixed": False}
        if case["mode"] != "slim":
            yield {**case, "mode": "slim"}

    def _shrink_hist(self, case):
        sc = case["scenario"]
        if case.get("read_order") is not None:
            yield {**case, "read_order": None}
        if sc == "edit":
            rounds = case["rounds"]
            if len(rounds) > 1:
                for i in range(len(rounds)):
                    yield {**case, "rounds": rounds[:i] + rounds[i + 1:]}
            for i, r in enumerate(rounds):
                if len(r) > 1:
                    for j in range(len(r)):
                        yield {**case, "rounds": rounds[:i] + [r[:j] + r[j + 1:]] + rounds[i + 1:]}
            used = {e.get("pixel") for r in rounds for e in r}
            has_bg = any(e["target"] == "background" for r in rounds for e in r)
            for b in self._shrink_fit(case["base"]):
                if b["mask"] != case["base"]["mask"]:
                    diff = [i for i, (x, y) in enumerate(zip(b["mask"]["bits"], case["base"]["mask"]["bits"])) if x != y]
                    if any(i in used for i in diff):
                        continue
                if b["background"] != case["base"]["background"] and has_bg:
                    continue
                c2 = {**case, "base": b}
                try:
                    if all(self._valid_state(s) for s in self._hist_states(c2)):
                        yield c2
                except Exception:
                    continue
        elif sc == "worlds":
            for o in ([0, 1, 0], [1, 0, 1], [0, 1], [1, 0]):
                if len(o) < len(case["order"]):
                    yield {**case, "order": o}
        elif sc == "preloads":
            if len(case["setters"]) > 1:
                for i in range(len(case["setters"])):
                    yield {**case, "setters": case["setters"][:i] + case["setters"][i + 1:]}
            if case.get("shared_settings"):
                yield {**case, "shared_settings": False}
        elif sc == "upre":
            n = len(case["states"])
            if n > 2:
                for i in range(n):
                    yield {**case, "states": case["states"][:i] + case["states"][i + 1:],
                           "slots": case["slots"][:i] + case["slots"][i + 1:]}
            if case.get("decoys") is not None:
                yield {**case, "decoys": None}
            if case.get("share_objs"):
                yield {**case, "share_objs": False}
            for i, sl in enumerate(case["slots"]):
                for j in range(len(sl)):
                    yield {**case, "slots": case["slots"][:i] + [sl[:j] + sl[j + 1:]] + case["slots"][i + 1:]}
        elif sc == "own":
            if int(case["rounds"]) > 2:
                yield {**case, "rounds": int(case["rounds"]) - 1}
            for b in self._shrink_fit(case["base"]):
                if self._valid_state(b):
                    yield {**case, "base": b}
        elif sc == "conf":
            if len(case["steps"]) > 1:
                for i in range(len(case["steps"])):
                    yield {**case, "steps": case["steps"][:i] + case["steps"][i + 1:]}
            for i, stp in enumerate(case["steps"]):
                if len(stp["set"]) > 1:
                    yield {**case, "steps": case["steps"][:i] + [{**stp, "set": stp["set"][:1]}] + case["steps"][i + 1:]}
            if case.get("shared"):
                yield {**case, "shared": False}
        elif sc in ("decoy", "fault"):
            inv = case["base"].get("inversion")
            keep_inv = (sc == "fault" and case["fault"]["kind"] == "bad_inversion") or (inv is not None and inv["kind"] == "real")
            for b in self._shrink_fit(case["base"]):
                if keep_inv and b.get("inversion") is None:
                    continue
                if self._valid_state(b):
                    yield {**case, "base": b}

    def shrink(self, case):
        kind = case.get("kind", "fit")
        if kind == "big":
            return self._shrink_big(case)
        if kind == "hist":
            return self._shrink_hist(case)
        return self._shrink_fit(case)

    def _theorems_fit(self, case):
        native = case["mode"] == "native"
        t = ["C08.a_background_offset", "C08.a_maps_masked" if native else "C08.a_maps_slim",
             "C08.a_signal_to_noise_clipped", "C08.a_reduced_chi_squared",
             "C08.b_masked_sums_over_unmasked" if native else "C08.b_slim_sums",
             "C08.b_masked_native_eq_slim", "C08.b_masked_values_irrelevant", "C08.b_select_is_slim",
             "C08.c_log_likelihood", "C08.c_figure_of_merit"]
        if case.get("inversion") is not None:
            t += ["C08.c_log_evidence", "C08.c_unregularized_inversion_gives_likelihood",
                  "C08.c_log_det_via_cholesky", "C08.c_log_det_via_lu",
                  "C08.c_log_evidence_with_determinants",
                  "C08.d_no_regularization_index_list", "C08.d_no_regularization_index_list_sorted",
                  "C08.d_regularization_matrix_unregularized_zero", "C08.d_regularization_term_reduced",
                  "C08.d_reduced_matrices", "C08.d_all_regularized_nothing_removed"]
        return t

    def theorems_for(self, case):
        kind = case.get("kind", "fit")
        if kind == "big":
            return self._theorems_fit({"mode": case["mode"], "inversion": case.get("inv")})
        if kind == "hist":
            out = []
            for st in self._hist_states(case):
                if st is not None:
                    out += [t for t in self._theorems_fit(st) if t not in out]
            return out
        return self._theorems_fit(case)

    def sample_view(self, case):
        # (large cases are recipes — shape, mask recipe, seed, exponents, block sizes — never arrays)
        return {k: v for k, v in case.items() if not k.startswith("_")}


CHECK = C08()
