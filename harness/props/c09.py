"""C09 — over-sampling partitions pixels uniformly and bins by exact per-pixel means.

Case kinds
  uniform : OverSamplerUniform(mask, sub_size) tables — over_sampled_grid, slim_for_sub_slim,
            sub_mask_native_for_sub_mask_slim, sub_pixel_areas, binned_array_2d_from(distinct values)
  func    : a user function (expression tree, see `ev_frac`/`ev_np`) through array_via_func_from /
            the @over_sample decorator (with and without @to_array, Grid2DOverSampled, custom grid
            values, over_sampling=None) with uniform over-sampling
  iterate : OverSamplerIterate.array_via_func_from / decorator with OverSamplingIterate, for an
            expression tree or for an explicit per-level value table (a callable that answers its k-th
            call with level k of the table)

The oracle re-states the property with Fractions from the mask geometry alone (pixel squares, uniform
partition, means, first-agreeing level) and never calls the code under test or the Lean model.
"""
from __future__ import annotations

import json
import math
from fractions import Fraction
from pathlib import Path

import numpy as np

import common
import gen
from common import PropertyCheck, Skip, load_autoarray, mask_json, q, qlist

F = Fraction
BAND = F(1, 10 ** 9)

# ------------------------------------------------------------------------------------------------
# known-findings fragment: the orchestrator merges known_findings.d/*.json into known_findings.json;
# until it has done so this check reads its own fragment so that it is self-contained.
# ------------------------------------------------------------------------------------------------
_orig_load_known = common.load_known


def _load_known_with_fragment():
    k = _orig_load_known()
    frag = common.VERIF / "known_findings.d" / "C09.json"
    if frag.exists():
        try:
            d = json.loads(frag.read_text())
            have = {(f.get("property"), f.get("id")) for f in k.get("findings", [])}
            for f in d.get("findings", []):
                if (f.get("property"), f.get("id")) not in have:
                    k.setdefault("findings", []).append(f)
        except Exception:
            pass
    return k


common.load_known = _load_known_with_fragment


# ------------------------------------------------------------------------------------------------
# user functions as data
#   ["c","p/q"] | ["y"] | ["x"] | ["add",a,b] | ["sub",a,b] | ["mul",a,b] | ["neg",a] | ["div",a,b]
#   | ["gt0",e,a,b]  (a if e > 0 else b) | ["lookup",ey,ex,H,W,[values]] (floor, clip, table)
# ------------------------------------------------------------------------------------------------
ERRK = F(1, 10 ** 13)   # |double evaluation - exact| <= ERRK * mag  (>= 4x the a-priori bound for <= 200 ops)


def fits_double(v):
    """v is exactly a (normal-range) double"""
    d = v.denominator
    return (d & (d - 1)) == 0 and d <= 1 << 200 and abs(v.numerator).bit_length() <= 53


def ev3(e, y, x, margins, cex):
    """exact evaluation -> (value, mag, exact).
    `exact`: the implementation's double evaluation of this sub-tree is known to give exactly `value`
    (operands exact and the result representable; `cex` says whether the point coordinates themselves
    are computed without rounding).  Otherwise the rounding error is bounded by ERRK*mag, `mag` being
    the tree evaluated on absolute values (first order for divisions).  Appends to `margins`, for
    every discrete decision, its exact distance to the tie minus the rounding bound of the tested
    quantity."""
    k = e[0]
    if k == "c":
        v = F(e[1])
        return v, abs(v), fits_double(v)
    if k == "y":
        return y, abs(y), cex
    if k == "x":
        return x, abs(x), cex
    if k in ("add", "sub", "mul"):
        a, ma, ea = ev3(e[1], y, x, margins, cex)
        b, mb, eb = ev3(e[2], y, x, margins, cex)
        if k == "mul":
            v, m = a * b, ma * mb
            if (ea and a == 0) or (eb and b == 0):
                return F(0), F(0), True    # an exact zero factor: 0 * finite = 0
        else:
            v, m = (a + b if k == "add" else a - b), ma + mb
        return v, m, (ea and eb and fits_double(v))
    if k == "neg":
        a, ma, ea = ev3(e[1], y, x, margins, cex)
        return -a, ma, ea
    if k == "div":
        a, ma, ea = ev3(e[1], y, x, margins, cex)
        d, md, ed = ev3(e[2], y, x, margins, cex)
        margins.append(abs(d) - (0 if ed else ERRK * md))  # (near-)zero denominators are not generated
        v = a / d
        return v, ma / abs(d) + abs(a) * md / (d * d), (ea and ed and fits_double(v))
    if k == "gt0":
        t, mt, et = ev3(e[1], y, x, margins, cex)
        margins.append(abs(t) - (0 if et else ERRK * mt) if t != 0 or not et else F(1))
        return ev3(e[2], y, x, margins, cex) if t > 0 else ev3(e[3], y, x, margins, cex)
    if k == "lookup":
        ty, my, ey = ev3(e[1], y, x, margins, cex)
        tx, mx, ex = ev3(e[2], y, x, margins, cex)
        h, w, tab = e[3], e[4], e[5]
        for t, mt, et in ((ty, my, ey), (tx, mx, ex)):
            fl = math.floor(t)
            if not (et and t == fl):      # an exactly computed integer floors to itself
                margins.append(min(t - fl, fl + 1 - t) - (0 if et else ERRK * mt))
        iy = min(max(math.floor(ty), 0), h - 1)
        ix = min(max(math.floor(tx), 0), w - 1)
        v = F(tab[iy * w + ix])
        return v, abs(v), fits_double(v)
    raise ValueError(k)


def ev_frac(e, y, x, margins):
    return ev3(e, y, x, margins, False)[0]


def mean_with_err(f, pts, margins, cex=False, s=1):
    """exact mean of f over the points and a bound on the error of the implementation's double value
    (0 when every step is known to be exact: exact point values, power-of-two count)"""
    vs = [ev3(f, a, b, margins, cex) for a, b in pts]
    n = len(vs)
    mean = sum(v for v, _, _ in vs) / n
    if all(ex for _, _, ex in vs) and is_pow2(n) and fits_double(mean) \
            and all(fits_double(v / n) for v, _, _ in vs):
        return mean, F(0)
    return mean, ERRK * max(max(m for _, m, _ in vs), abs(mean))


def ev_np(e, Y, X):
    k = e[0]
    if k == "c":
        return np.full(Y.shape, float(F(e[1])))
    if k == "y":
        return Y
    if k == "x":
        return X
    if k == "add":
        return ev_np(e[1], Y, X) + ev_np(e[2], Y, X)
    if k == "sub":
        return ev_np(e[1], Y, X) - ev_np(e[2], Y, X)
    if k == "mul":
        return ev_np(e[1], Y, X) * ev_np(e[2], Y, X)
    if k == "neg":
        return -ev_np(e[1], Y, X)
    if k == "div":
        return ev_np(e[1], Y, X) / ev_np(e[2], Y, X)
    if k == "gt0":
        return np.where(ev_np(e[1], Y, X) > 0, ev_np(e[2], Y, X), ev_np(e[3], Y, X))
    if k == "lookup":
        h, w = e[3], e[4]
        tab = np.array([float(F(v)) for v in e[5]])
        iy = np.clip(np.floor(ev_np(e[1], Y, X)).astype(int), 0, h - 1)
        ix = np.clip(np.floor(ev_np(e[2], Y, X)).astype(int), 0, w - 1)
        return tab[iy * w + ix]
    raise ValueError(k)


def C(v):
    return ["c", q(F(v))]


def add(*es):
    out = es[0]
    for e in es[1:]:
        out = ["add", out, e]
    return out


def mul(*es):
    out = es[0]
    for e in es[1:]:
        out = ["mul", out, e]
    return out


def affine(a, b, c):
    """a*y + b*x + c"""
    return add(mul(C(a), ["y"]), mul(C(b), ["x"]), C(c))


def power(e, n):
    return mul(*([e] * n)) if n > 0 else C(1)


def poly(terms):
    """sum of c * y^i * x^j"""
    es = [mul(C(c), power(["y"], i), power(["x"], j)) for c, i, j in terms]
    return add(*es) if es else C(0)


# ------------------------------------------------------------------------------------------------
# geometry of the property, from the statement (independent of the code's formulas)
# ------------------------------------------------------------------------------------------------
def geom_of(case):
    return tuple(F(v) for v in case["geom"])


def unmasked_pixels(mj):
    h, w = mj["h"], mj["w"]
    return [(i // w, i % w) for i, c in enumerate(mj["bits"]) if c == "0"]


def pixel_centre(h, w, g, y, x):
    sy, sx, oy, ox = g
    return (oy + (F(h - 1, 2) - y) * sy, ox + (x - F(w - 1, 2)) * sx)


def sub_centres(g, P, s):
    """centres of the uniform s×s partition of the pixel square centred on P: rows from the top edge
    downwards, columns from the left edge rightwards."""
    sy, sx, _, _ = g
    top, left = P[0] + sy / 2, P[1] - sx / 2
    return [(top - F(2 * a + 1, 2 * s) * sy, left + F(2 * b + 1, 2 * s) * sx)
            for a in range(s) for b in range(s)]


def expand_sub(case, n):
    s = case["sub"]
    return [s] * n if isinstance(s, int) else list(s)


def level_table(mj, g, f, steps, margins, errs=None):
    """v[l][k]: level 0 = f at the pixel centre, level l>=1 = mean of f over the sub_steps[l-1]^2
    sub-centres of pixel k.  If `errs` is a list it receives the matching table of rounding bounds."""
    h, w = mj["h"], mj["w"]
    px = unmasked_pixels(mj)
    tab, et = [], []
    for s in [None] + list(steps):
        row, erow = [], []
        for (y, x) in px:
            P = pixel_centre(h, w, g, y, x)
            cex = geom_float_exact(g) and (s is None or is_pow2(s))
            v, e = mean_with_err(f, [P] if s is None else sub_centres(g, P, s), margins, cex)
            row.append(v)
            erow.append(e)
        tab.append(row)
        et.append(erow)
    if errs is not None:
        errs.extend(et)
    return tab


def is_pow2(n):
    return n > 0 and (n & (n - 1)) == 0


def geom_float_exact(g):
    """pixel scales are powers of two and the origin a small dyadic: the implementation's pixel-centre
    coordinates are then computed without rounding."""
    sy, sx, oy, ox = g
    for s in (sy, sx):
        if not ((s.numerator == 1 and is_pow2(s.denominator)) or (s.denominator == 1 and is_pow2(s.numerator))):
            return False
    for o in (oy, ox):
        if not (is_pow2(o.denominator) and o.denominator <= 1 << 10 and abs(o.numerator) <= 1 << 14):
            return False
    return True


def tie_safe_ratio(lo, hi):
    """an exact tie of the ratio test is decided identically in doubles when both quotients the code
    forms are exact: lo/hi is dyadic (<= 1, no reciprocal taken) or a power of two (> 1)."""
    if hi == 0:
        return False
    r = lo / hi
    if r <= 1:
        return is_pow2(r.denominator) and r.denominator <= 1 << 20
    return r.denominator == 1 and is_pow2(r.numerator)


def iterate_expected(table, fr, rel, exact, errs=None):
    """per pixel: the value the property prescribes and whether the pixel has to be left out of the
    comparison because a decision on its way lies in the tie band (1e-9 plus the rounding bound of the
    implementation's doubles, errs[l][k]) or the selected value itself is not known to 1e-9.
    table[l][k], l = 0..n."""
    n = len(table) - 1
    out, band = [], []
    for k in range(len(table[0])):
        val, eval_, inband = table[n][k], (errs[n][k] if errs else 0), False
        for l in range(1, n):
            lo, hi = table[l - 1][k], table[l][k]
            elo, ehi = (errs[l - 1][k], errs[l][k]) if errs else (0, 0)
            # each test is True / False / None (= inside the tie band)
            st_ratio, st_rel = True, True
            if fr is not None:
                # ratio of the smaller to the larger value, defined only when the previous value is
                # positive; a non-positive current value never agrees with a positive previous one
                # (fractional accuracies are positive)
                if lo > elo:
                    if hi > ehi:
                        ratio = min(lo, hi) / max(lo, hi)
                        slack = 2 * ratio * (elo / lo + ehi / hi)
                        d = abs(ratio - fr)
                        if d <= BAND + slack and not (d == 0 and slack == 0 and exact
                                                      and tie_safe_ratio(lo, hi)):
                            st_ratio = None
                        else:
                            st_ratio = ratio >= fr
                    else:
                        st_ratio = False   # current value <= 0 (or indistinguishable from 0): ratio <= ~0
                elif lo <= -elo:
                    st_ratio = False
                else:
                    st_ratio = None        # sign of the previous value not decided by doubles
            if rel is not None:
                d = abs(abs(lo - hi) - rel)
                if d <= BAND + elo + ehi and not (d == 0 and elo == 0 and ehi == 0 and exact):
                    st_rel = None
                else:
                    st_rel = abs(lo - hi) <= rel
            if st_ratio is False or st_rel is False:
                ok = False
            elif st_ratio is None or st_rel is None:
                inband = True
                break
            else:
                ok = True
            if ok:
                val, eval_ = hi, ehi
                break
        if 2 * eval_ > BAND * max(1, abs(val)):
            inband = True
        out.append(val)
        band.append(inband)
    return out, band


# ------------------------------------------------------------------------------------------------
# the mock profile classes (the class name is looked up in the pinned config when
# over_sampling is None: MockGrid2DLikeObj has sub_size_list [1, 1])
# ------------------------------------------------------------------------------------------------
_classes = {}


def profile_classes():
    if _classes:
        return _classes
    aa = load_autoarray()

    def plain(obj, grid, *args, **kwargs):
        g = np.asarray(grid)
        return obj.evaluate(g)

    class MockGrid2DLikeObj:
        def __init__(self, f=None, table=None, geom=None, shape=None, ret_int=False):
            self.centre = (0.0, 0.0)
            self.ret_int = ret_int   # hand back an integer-dtype array (values are integral)
            self.f = f
            self.table = table
            self.geom = geom
            self.shape = shape
            self.calls = 0

        def evaluate(self, g):
            if self.table is not None:
                lvl = min(self.calls, len(self.table) - 1)
                self.calls += 1
                sy, sx, oy, ox = self.geom
                h, w = self.shape
                iy = np.clip(np.floor((oy + h * sy / 2 - g[:, 0]) / sy).astype(int), 0, h - 1)
                ix = np.clip(np.floor((g[:, 1] - (ox - w * sx / 2)) / sx).astype(int), 0, w - 1)
                out = np.asarray(self.table[lvl])[iy * w + ix]
                return out.astype(np.int64) if self.ret_int else out
            out = ev_np(self.f, g[:, 0].astype(float), g[:, 1].astype(float))
            return out.astype(np.int64) if self.ret_int else out

        @aa.over_sample
        @aa.grid_dec.to_array
        def image_2d_from(self, grid, *args, **kwargs):
            return self.evaluate(np.asarray(grid))

        @aa.over_sample
        def raw_from(obj, grid, *args, **kwargs):
            # no inner decorator: the wrapper calls `func(obj=obj, grid=grid)` when over-sampling is
            # off, so the first parameter has to be called `obj`
            return obj.evaluate(np.asarray(grid))

    _classes["cls"] = MockGrid2DLikeObj
    _classes["plain"] = plain
    return _classes


def _slim(res):
    try:
        res = res.slim
    except AttributeError:
        pass
    return qlist(np.asarray(res, dtype=float).ravel())


# ------------------------------------------------------------------------------------------------
# generators
# ------------------------------------------------------------------------------------------------
SCALES = [F(1, 4), F(1, 2), F(3, 4), F(1), F(3, 2), F(2), F(3), F(1, 8), F(5, 4), F(1, 10), F(7, 10)]


def rand_geom(rng, exact=False):
    if exact:
        sy, sx = rng.choice([F(1, 4), F(1, 2), F(1), F(2)]), rng.choice([F(1, 4), F(1, 2), F(1), F(2)])
        oy, ox = sy * rng.randint(-6, 6) / 2, sx * rng.randint(-6, 6) / 2
    else:
        sy, sx = rng.choice(SCALES), rng.choice(SCALES)
        if rng.random() < 0.25:
            oy, ox = F(0), F(0)
        else:
            oy, ox = gen.dyadic(rng, -4, 4, 3), gen.dyadic(rng, -4, 4, 3)
    return [q(sy), q(sx), q(oy), q(ox)]


def rand_int_geom(rng):
    """integral pixel scales and origin (passed to Mask2D as Python ints)"""
    return [q(F(rng.choice([1, 1, 2, 3, 4]))), q(F(rng.choice([1, 2, 2, 3]))),
            q(F(rng.randint(-4, 4))), q(F(rng.randint(-4, 4)))]


def degenerate_mask(rng):
    """zero / one unmasked pixel, 1x1, 1xN, Nx1, all unmasked"""
    k = rng.choice(["all_masked", "single", "1x1", "1xN", "Nx1", "all_unmasked"])
    if k == "1x1":
        return [[rng.random() < 0.3]], k
    if k == "1xN":
        w = rng.randint(2, 6)
        return [[rng.random() < 0.4 for _ in range(w)]], k
    if k == "Nx1":
        h = rng.randint(2, 6)
        return [[rng.random() < 0.4] for _ in range(h)], k
    h, w = rng.randint(1, 4), rng.randint(1, 4)
    if k == "all_masked":
        return [[True] * w for _ in range(h)], k
    if k == "all_unmasked":
        return [[False] * w for _ in range(h)], k
    m = [[True] * w for _ in range(h)]
    m[rng.randrange(h)][rng.randrange(w)] = False
    return m, k


def rand_mask(rng, hmax=6, wmax=6, max_unmasked=None):
    for _ in range(50):
        h, w = rng.randint(1, hmax), rng.randint(1, wmax)
        m, kind = gen.random_mask(rng, h, w)
        n = sum(1 for r in m for b in r if not b)
        if n >= 1 and (max_unmasked is None or n <= max_unmasked):
            return m, kind
    return [[False]], "single"


def rand_sub(rng, n, budget=1600):
    """a per-pixel sub-size map in 1..8 (or one int), total sub-pixels bounded."""
    mode = rng.choice(["int", "int", "arr", "arr", "arr", "spike", "ones_arr", "two_level"])
    if mode == "int":
        smax = max(1, min(8, int(math.isqrt(budget // max(1, n)))))
        return rng.randint(1, smax), "int"
    if mode == "ones_arr":
        return [1] * n, "ones_arr"
    if mode == "spike":
        sub = [1] * n
        sub[rng.randrange(n)] = rng.randint(2, 8)
        return sub, "spike"
    if mode == "two_level":
        a, b = rng.randint(1, 4), rng.randint(2, 8)
        sub = [a if rng.random() < 0.6 else b for _ in range(n)]
    else:
        sub = [rng.randint(1, 8) for _ in range(n)]
    while sum(s * s for s in sub) > budget:
        i = max(range(n), key=lambda j: sub[j])
        sub[i] = max(1, sub[i] - 1)
    return sub, mode


def rand_func(rng, mj, g, positive=False):
    """a user function of (y,x) as an expression tree + its class name."""
    h, w = mj["h"], mj["w"]
    sy, sx, oy, ox = g
    px = unmasked_pixels(mj) or [(0, 0)]
    cy, cx = pixel_centre(h, w, g, *rng.choice(px))
    d = lambda lo=-4, hi=4, bits=2: gen.dyadic(rng, lo, hi, bits)
    kinds = ["const", "affine", "poly", "product", "rational", "step", "lattice", "peak", "mixed"]
    if positive:
        kinds = ["peak", "peak", "rational", "lattice_pos", "poly_pos", "step_pos", "product", "mixed"]
    kind = rng.choice(kinds)
    if kind == "const":
        return C(d()), kind
    if kind == "affine":
        return affine(d(), d(), d()), kind
    if kind in ("poly", "poly_pos"):
        terms = [(d(-3, 3), rng.randint(0, 3), rng.randint(0, 3)) for _ in range(rng.randint(1, 4))]
        e = poly([(c, i, j) for c, i, j in terms if i + j <= 3] or [(F(1), 1, 1)])
        if kind == "poly_pos":
            e = add(mul(e, e), C(F(rng.randint(0, 4), 4)))
        return e, kind
    if kind == "product":
        # product of lines, some through a pixel centre / a pixel corner: zeros and sign changes
        fs = []
        for _ in range(rng.randint(2, 3)):
            a, b = d(-2, 2), d(-2, 2)
            if a == 0 and b == 0:
                a = F(1)
            py, pxx = (cy, cx) if rng.random() < 0.5 else (cy + sy / 2, cx - sx / 2)
            if rng.random() < 0.3:
                py, pxx = py + d(-1, 1, 3), pxx + d(-1, 1, 3)
            fs.append(affine(a, b, -(a * py + b * pxx)))
        return mul(*fs), kind
    if kind == "rational":
        num = poly([(d(-3, 3), rng.randint(0, 2), rng.randint(0, 2)) for _ in range(rng.randint(1, 3))])
        if positive:
            num = add(mul(num, num), C(F(1, 4)))
        l1 = affine(d(-2, 2), d(-2, 2), d())
        return ["div", num, add(C(F(rng.randint(1, 8), 4)), mul(l1, l1))], kind
    if kind == "peak":
        # 1 / (eps + a (y-y0)^2 + b (x-x0)^2): converges late near (y0,x0), early far away
        y0, x0 = cy + sy * d(-1, 1, 3), cx + sx * d(-1, 1, 3)
        eps = F(rng.choice([1, 1, 2, 4, 16]), 16)
        dy, dx = affine(1, 0, -y0), affine(0, 1, -x0)
        den = add(C(eps), mul(C(F(rng.randint(1, 8), 2)), dy, dy), mul(C(F(rng.randint(1, 8), 2)), dx, dx))
        return ["div", C(F(rng.randint(1, 12), 4)), den], kind
    if kind in ("step", "step_pos"):
        a, b = d(-2, 2), d(-2, 2)
        if a == 0 and b == 0:
            b = F(1)
        line = affine(a, b, -(a * cy + b * cx) + F(rng.choice([-3, -1, 1, 3]), 16) * (abs(a) * sy + abs(b) * sx + 1))
        if kind == "step_pos":
            return ["gt0", line, C(F(rng.randint(1, 16), 4)), C(F(rng.randint(1, 16), 4))], kind
        return ["gt0", line, affine(d(), d(), d()), C(d())], kind
    if kind in ("lattice", "lattice_pos"):
        # piecewise constant on an odd L×L lattice per pixel: no sub-centre of any sub-size ever lies
        # on a lattice line (L(2j+1) is odd, 2si is even)
        L = rng.choice([3, 3, 5]) if h * w > 12 else rng.choice([3, 5, 7, 9])
        hh, ww = h * L, w * L
        if kind == "lattice_pos":
            tab = [F(rng.randint(1, 64), 8) for _ in range(hh * ww)]
            if rng.random() < 0.5:   # smooth-ish: mostly equal values with a few outliers
                base = F(rng.randint(8, 32), 8)
                tab = [base if rng.random() < 0.8 else v for v in tab]
        else:
            tab = [rng.choice([F(0), F(0), d(-4, 4, 3), d(-4, 4, 3), F(1)]) for _ in range(hh * ww)]
        ey = mul(C(F(L) / sy), affine(-1, 0, oy + h * sy / 2))
        ex = mul(C(F(L) / sx), affine(0, 1, -(ox - w * sx / 2)))
        return ["lookup", ey, ex, hh, ww, qlist(tab)], kind
    # mixed: sum / product of two simpler ones
    e1, _ = rand_func(rng, mj, g, positive)
    e2, _ = rand_func(rng, mj, g, positive)
    return ([rng.choice(["add", "mul"]), e1, e2] if not positive else ["add", e1, e2]), "mixed"


def expr_size(e):
    if not isinstance(e, list):
        return 1
    if e[0] == "lookup":
        return 1 + expr_size(e[1]) + expr_size(e[2])
    return 1 + sum(expr_size(c) for c in e[1:])


def hug(rng, v):
    """a double within 2^-20 (relative) of the positive rational v, on a random side."""
    if rng.random() < 0.5:
        t = v * (1 + F(1, 1 << 20))
    else:
        t = v * (1 - F(1, 1 << 20))
    return F(float(t))


class C09(PropertyCheck):
    pid = "C09"
    generated_modules = ["OverSample"]  # second tie: translated sub-grid formulas = Model/OverSample.lean (over any field)
    title = "over-sampling: uniform partition, per-pixel means, decorator, iterate rule"
    rtol = F(1, 10 ** 9)
    nontrivial_rule = (
        "uniform: some sub-size >= 2; func: over-sampling performed (not all sub-sizes 1) or a "
        "non-constant function; iterate: schedule of >= 2 sub-sizes and at least two pixels stopping at "
        "different levels or a threshold-hugging case; distinct = distinct case dict"
    )
    exhaustive_note = {
        "quick": "uniform tables: every mask with >=1 unmasked pixel for every shape with H*W <= 4, with every sub-size map in {1,2,3}^N",
        "thorough": "uniform tables: every mask with >=1 unmasked pixel for every shape with H*W <= 6, with every sub-size map in {1,2,3}^N (N <= 4) / {1,2}^N (N > 4)",
    }
    trusted_extra = [
        "IEEE-754 rounding in the implementation (model and oracle are exact rationals; reals compared to 1e-9, threshold decisions inside the 1e-9 band are not compared)",
        "Array2D / Grid2D / Grid2DIrregular / ArrayIrregular constructors and the to_array decorator wrapping the user function (C01 / C17 territory) are exercised, not modelled",
        "the adaptive sub-size scheme taken when over_sampling is None (config driven; all ones under the pinned config) is an input of the model, not modelled",
        "functools.wraps / *args / **kwargs plumbing of the decorator; cached_property on the over sampler",
    ]
    modelled_functions = [
        "autoarray/geometry/geometry_util.py:central_pixel_coordinates_2d_from",
        "autoarray/geometry/geometry_util.py:central_scaled_coordinate_2d_from",
        "autoarray/structures/grids/grid_2d_util.py:grid_2d_slim_via_mask_from",
        "autoarray/mask/derive/grid_2d.py:DeriveGrid2D.unmasked",
        "autoarray/mask/mask_2d_util.py:total_pixels_2d_from",
        "autoarray/operators/over_sampling/over_sample_util.py:total_sub_pixels_2d_from",
        "autoarray/operators/over_sampling/over_sample_util.py:grid_2d_slim_over_sampled_via_mask_from",
        "autoarray/operators/over_sampling/over_sample_util.py:slim_index_for_sub_slim_index_via_mask_2d_from",
        "autoarray/operators/over_sampling/over_sample_util.py:native_sub_index_for_slim_sub_index_2d_from",
        "autoarray/operators/over_sampling/over_sample_util.py:binned_array_2d_from",
        "autoarray/operators/over_sampling/uniform.py:OverSamplingUniform.__init__",
        "autoarray/operators/over_sampling/uniform.py:OverSamplingUniform.over_sampler_from",
        "autoarray/operators/over_sampling/uniform.py:OverSamplerUniform.__init__",
        "autoarray/operators/over_sampling/uniform.py:OverSamplerUniform.sub_total",
        "autoarray/operators/over_sampling/uniform.py:OverSamplerUniform.sub_pixel_areas",
        "autoarray/operators/over_sampling/uniform.py:OverSamplerUniform.over_sampled_grid",
        "autoarray/operators/over_sampling/uniform.py:OverSamplerUniform.binned_array_2d_from",
        "autoarray/operators/over_sampling/uniform.py:OverSamplerUniform.array_via_func_from",
        "autoarray/operators/over_sampling/uniform.py:OverSamplerUniform.sub_mask_native_for_sub_mask_slim",
        "autoarray/operators/over_sampling/uniform.py:OverSamplerUniform.slim_for_sub_slim",
        "autoarray/operators/over_sampling/decorator.py:perform_over_sampling_from",
        "autoarray/operators/over_sampling/decorator.py:over_sample",
        "autoarray/operators/over_sampling/grid_oversampled.py:Grid2DOverSampled.__init__",
        "autoarray/operators/over_sampling/iterate.py:OverSamplingIterate.__init__",
        "autoarray/operators/over_sampling/iterate.py:OverSamplingIterate.over_sampler_from",
        "autoarray/operators/over_sampling/iterate.py:threshold_mask_via_arrays_jit_from",
        "autoarray/operators/over_sampling/iterate.py:iterated_array_jit_from",
        "autoarray/operators/over_sampling/iterate.py:OverSamplerIterate.__init__",
        "autoarray/operators/over_sampling/iterate.py:OverSamplerIterate.array_at_sub_size_from",
        "autoarray/operators/over_sampling/iterate.py:OverSamplerIterate.threshold_mask_from",
        "autoarray/operators/over_sampling/iterate.py:OverSamplerIterate.array_via_func_from",
        "autoarray/structures/grids/uniform_2d.py:Grid2D.over_sampler",
        "autoarray/structures/arrays/array_2d_util.py:array_2d_native_from",
        "autoarray/structures/arrays/array_2d_util.py:array_2d_slim_from",
    ]
    assumptions = [
        "sub-size maps have one integer entry in 1..8 per unmasked pixel; schedules are non-empty lists of Python ints",
        "the user function is a pure function of the (y,x) points (plus, for the table generator, of the call count) returning finite values",
        "fractional_accuracy > 0 when set",
    ]

    # -------------------------------------------------------------------------------- generation
    def generate(self, tier, rng):
        quick = tier == "quick"
        # 1. exhaustive small masks × sub maps (index tables, grid, binning)
        cells = 4 if quick else 6
        for (h, w) in gen.shapes_upto(cells):
            geom = rand_geom(rng)
            for m in gen.all_masks(h, w, min_unmasked=0):
                n = sum(1 for r in m for b in r if not b)
                alphabet = (1, 2, 3) if n <= 4 else (1, 2)
                import itertools

                for sub in itertools.product(alphabet, repeat=n):
                    yield self._uniform_case(rng, m, geom, list(sub), "uniform_exhaustive")
        # 2. structured random uniform cases
        for _ in range(150 if quick else 1500):
            if rng.random() < 0.2:
                m, kind = degenerate_mask(rng)
            else:
                m, kind = rand_mask(rng, 7, 7)
            n = sum(1 for r in m for b in r if not b)
            sub, smode = rand_sub(rng, n, 900 if quick else 2500) if n else (rng.choice([1, 2, []]), "empty")
            geom = rand_int_geom(rng) if rng.random() < 0.2 else rand_geom(rng)
            yield self._uniform_case(rng, m, geom, sub, f"uniform_{smode}")
        # 3. user functions through every dispatch path
        for _ in range(260 if quick else 2600):
            yield self._func_case(rng, quick)
        # 4. iterate, expression trees
        for _ in range(260 if quick else 2600):
            c = self._iterate_case(rng, quick)
            if c:
                yield c
        # 5. iterate, explicit tables (exact doubles: exact ties are compared)
        for _ in range(260 if quick else 2600):
            yield self._table_case(rng, quick)
        # 6. functions vanishing at every pixel centre (the early-return class)
        for _ in range(6 if quick else 40):
            yield self._zero_centre_case(rng)

    def _uniform_case(self, rng, m, geom, sub, tag):
        n = sum(1 for r in m for b in r if not b)
        total = sum(s * s for s in (sub if isinstance(sub, list) else [sub] * n))
        vals = gen.distinct_ints(rng, total)
        values_as = rng.choice(["f64", "f64", "f64", "f64", "i64", "i64", "list_int", "tuple_int", "f32",
                                "list_float"])
        if values_as in ("f64", "f32", "list_float") and rng.random() < 0.6:
            vals = [F(v, 8) for v in vals]
        routes = ["direct", "over_sampling", "grid", "util", "dataset_grids"]
        if n == len(m) * len(m[0]):
            routes += ["grid_uniform", "grid_uniform"]
        geom_as = "int" if all(F(v).denominator == 1 for v in geom) and rng.random() < 0.8 else "float"
        return {"tag": tag, "kind": "uniform", "mask": mask_json(m), "geom": geom, "sub": sub,
                "values": qlist(vals), "route": rng.choice(routes), "values_as": values_as,
                "geom_as": geom_as, "sub_as": rng.choice(["ndarray", "list"])}

    def _func_case(self, rng, quick):
        if rng.random() < 0.15:
            m, mkind = degenerate_mask(rng)
        else:
            m, mkind = rand_mask(rng, 6, 6)
        mj = mask_json(m)
        n = mj["bits"].count("0")
        geom = rand_int_geom(rng) if rng.random() < 0.2 else rand_geom(rng)
        g = tuple(F(v) for v in geom)
        paths = ["sampler", "decorator", "decorator", "decorator_raw", "oversampled_grid",
                 "custom_grid", "none", "dataset_grids"]
        if n == mj["h"] * mj["w"]:
            paths += ["grid_uniform", "grid_uniform"]
        path = rng.choice(paths)
        if path == "none":
            sub, smode = [1] * n, "adaptive_ones"
        elif path == "custom_grid" and rng.random() < 0.5:
            sub, smode = (1 if rng.random() < 0.5 else [1] * n), "ones"
        elif n == 0:
            sub, smode = rng.choice([1, 2, []]), "empty"
        else:
            sub, smode = rand_sub(rng, n, 500 if quick else 1500)
        f, fkind = rand_func(rng, mj, g)
        case = {"tag": f"func_{path}_{fkind}", "kind": "func", "mask": mj, "geom": geom, "sub": sub,
                "f": f, "path": path, "sub_as": rng.choice(["ndarray", "list"]),
                "geom_as": "int" if all(F(v).denominator == 1 for v in geom) else "float"}
        if f[0] == "c" and F(f[1]).denominator == 1 and rng.random() < 0.7:
            case["ret_int"] = True          # the user function returns an integer-dtype array
        if path == "custom_grid":
            if rng.random() < 0.4:           # integer-dtype grid values (Python int lists / int64)
                case["grid"] = [[q(F(rng.randint(-6, 6))), q(F(rng.randint(-6, 6)))] for _ in range(n)]
                case["grid_as"] = rng.choice(["list_int", "i64"])
            else:
                case["grid"] = [[q(gen.dyadic(rng, -6, 6, 3)), q(gen.dyadic(rng, -6, 6, 3))] for _ in range(n)]
                case["grid_as"] = rng.choice(["f64", "list_float"])
        return case

    def _steps(self, rng, n, quick):
        pool = [[2], [3], [2, 4], [2, 3], [2, 4, 8], [1, 2], [2, 2], [4, 2], [3, 5], [2, 3, 4],
                [2, 4, 6], [1, 2, 3, 4], [2, 4, 8, 16], [5], [8], [1], [3, 3, 3], [2, 5, 3]]
        for _ in range(20):
            st = rng.choice(pool)
            if n * sum(s * s for s in st) <= (1500 if quick else 4000):
                return st
        return [2, 3]

    def _thresholds(self, rng, table, exact):
        """thresholds hugging actual ratios / differences of the exact level table."""
        n = len(table) - 1
        ratios, diffs = [], []
        for l in range(1, max(n, 2)):
            if l > n:
                break
            for k in range(len(table[0])):
                lo, hi = table[l - 1][k], table[l][k]
                if lo > 0 and hi > 0:
                    ratios.append((min(lo, hi) / max(lo, hi), lo, hi))
                diffs.append(abs(lo - hi))
        mode = rng.choice(["hug", "hug", "hug", "fixed", "fixed", "one", "tie"])
        fr = F(float(rng.choice([F(1, 2), F(9, 10), F(99, 100), F(9999, 10000), F(9999, 10000), F(1, 4)])))
        if mode == "one":
            fr = F(1)
        elif mode in ("hug", "tie") and ratios:
            r, lo, hi = rng.choice(ratios)
            if mode == "tie" and exact and tie_safe_ratio(lo, hi) and r > 0:
                fr = r
            else:
                fr = hug(rng, r)
        if fr <= 0:
            fr = F(1, 2)
        rmode = rng.choice(["none", "none", "big", "hug", "hug", "tie", "small", "zero"])
        rel = None
        nz = [d for d in diffs if d > 0]
        if rmode == "big":
            rel = F(1000)
        elif rmode == "small":
            rel = F(1, 1 << 12)
        elif rmode == "zero":
            rel = F(0)                       # set, but falsy: agreement then needs equal values
        elif rmode in ("hug", "tie") and nz:
            dsel = rng.choice(nz)
            rel = dsel if (rmode == "tie" and exact and F(float(dsel)) == dsel) else hug(rng, dsel)
        if rng.random() < 0.04:
            fr = None
        return fr, rel

    def _call_style(self, rng, geom):
        """how the same reals are handed to the API: kwargs equal to the defaults omitted or explicit,
        schedule as list or tuple, integral thresholds as Python ints, integral geometry as ints."""
        return {"kw_style": rng.choice(["explicit", "explicit", "omit_defaults"]),
                "steps_as": rng.choice(["list", "list", "tuple"]),
                "num_as": rng.choice(["float", "int"]),
                "geom_as": "int" if all(F(v).denominator == 1 for v in geom) else "float"}

    def _iterate_case(self, rng, quick):
        if rng.random() < 0.1:
            m, mkind = degenerate_mask(rng)
        else:
            m, mkind = rand_mask(rng, 6, 6, max_unmasked=14 if quick else 24)
        mj = mask_json(m)
        n = mj["bits"].count("0")
        geom = rand_int_geom(rng) if rng.random() < 0.15 else rand_geom(rng)
        g = tuple(F(v) for v in geom)
        steps = self._steps(rng, n, quick)
        f, fkind = rand_func(rng, mj, g, positive=rng.random() < 0.75)
        if expr_size(f) > 120:
            return None
        margins = []
        try:
            table = level_table(mj, g, f, steps, margins)
        except ZeroDivisionError:
            return None
        fr, rel = self._thresholds(rng, table, False)
        return {"tag": f"iterate_{fkind}", "kind": "iterate", "mask": mj, "geom": geom, "f": f,
                "fr": None if fr is None else q(fr), "rel": None if rel is None else q(rel),
                "steps": steps, "path": rng.choice(["sampler", "sampler", "decorator", "via_over_sampling"]),
                **self._call_style(rng, geom)}

    def _table_case(self, rng, quick):
        if rng.random() < 0.1:
            m, mkind = degenerate_mask(rng)
        else:
            m, mkind = rand_mask(rng, 5, 5, max_unmasked=12)
        mj = mask_json(m)
        h, w = mj["h"], mj["w"]
        n = mj["bits"].count("0")
        exact = rng.random() < 0.7
        steps = rng.choice([[2, 4], [2, 4, 8], [2, 2, 2], [1, 2, 4], [4, 2], [2], [2, 4, 2, 4], [1, 1]]
                           if exact else [[2, 3], [3, 5, 2], [2, 3, 4], [3], [2, 6], [3, 3]])
        nl = len(steps) + 1
        style = rng.choice(["converging", "random", "signed", "zeros", "plateau", "ints"])
        table = []
        for l in range(nl):
            row = []
            for i in range(h * w):
                if style == "converging":
                    base = F(rng.randint(4, 40), 4)
                    v = base + F(rng.randint(-8, 8), 4 << (2 * l))
                elif style == "random":
                    v = F(rng.randint(1, 64), 8)
                elif style == "signed":
                    v = F(rng.randint(-32, 32), 8)
                elif style == "zeros":
                    v = rng.choice([F(0), F(0), F(1), F(2), F(-1), F(1, 2)])
                elif style == "ints":
                    v = F(rng.choice([1, 2, 2, 3, 4, 4, 6, 8, 0, -1]))
                else:
                    v = F(rng.choice([1, 2, 3, 4, 6, 8]), rng.choice([1, 2, 4]))
                row.append(v)
            table.append(row)
        if style == "converging":   # per-pixel persistent base so that ratios approach 1
            for i in range(h * w):
                base = F(rng.randint(4, 40), 4)
                for l in range(nl):
                    table[l][i] = base + F(rng.randint(-8, 8), 4 << (2 * l))
        slim_idx = [i for i, c in enumerate(mj["bits"]) if c == "0"]
        tslim = [[row[i] for i in slim_idx] for row in table]
        fr, rel = self._thresholds(rng, tslim, exact)
        geom = rand_geom(rng, exact=True)
        case = {"tag": f"table_{style}_{'exact' if exact else 'inexact'}", "kind": "iterate", "mask": mj,
                "geom": geom, "table": [qlist(r) for r in table],
                "fr": None if fr is None else q(fr), "rel": None if rel is None else q(rel),
                "steps": steps, "path": rng.choice(["sampler", "decorator", "via_over_sampling"]),
                "exact": exact, **self._call_style(rng, geom)}
        if style == "ints":
            case["ret_int"] = True           # the callable answers with integer-dtype arrays
        return case

    def _zero_centre_case(self, rng):
        """f = a (y - Y0)^2 on a single-row mask whose pixel centres all have y = Y0 (or the x twin):
        zero at every centre, positive on every sub-grid."""
        if rng.random() < 0.5:
            h, w = rng.choice([1, 3]), rng.randint(1, 4)
            row = h // 2
            m = [[not (y == row and rng.random() < 0.8) for x in range(w)] for y in range(h)]
            if all(b for r in m for b in r):
                m[row][0] = False
        else:
            h, w = 2, 2
            m = [[True, True], [True, True]]
            m[rng.randrange(2)][rng.randrange(2)] = False
        mj = mask_json(m)
        geom = rand_geom(rng, exact=rng.random() < 0.75)
        g = tuple(F(v) for v in geom)
        P = pixel_centre(mj["h"], mj["w"], g, *unmasked_pixels(mj)[0])
        dy, dx = affine(1, 0, -P[0]), affine(0, 1, -P[1])
        if len(unmasked_pixels(mj)) == 1:
            f = add(mul(dy, dy), mul(C(F(rng.randint(0, 3))), dx, dx))
        else:
            f = mul(C(F(rng.randint(1, 4))), dy, dy)
        return {"tag": "iterate_zero_at_centres", "kind": "iterate", "mask": mj, "geom": geom, "f": f,
                "fr": q(F(float(F(9, 10)))), "rel": None, "steps": rng.choice([[2], [2, 4], [3, 2]]),
                "path": rng.choice(["sampler", "decorator"])}

    # -------------------------------------------------------------------------------- implementation
    def _mask(self, aa, case):
        mj = case["mask"]
        m = np.array([c == "1" for c in mj["bits"]], dtype=bool).reshape(mj["h"], mj["w"])
        sy, sx, oy, ox = self._geom_numbers(case)
        return aa.Mask2D(mask=m, pixel_scales=(sy, sx), origin=(oy, ox))

    @staticmethod
    def _geom_numbers(case):
        """pixel scales / origin as Python floats, or as Python ints when integral and asked for"""
        fr = [F(v) for v in case["geom"]]
        if case.get("geom_as") == "int" and all(v.denominator == 1 for v in fr):
            return tuple(int(v) for v in fr)
        return tuple(float(v) for v in fr)

    def _sub_size(self, aa, case, mask):
        s = case["sub"]
        if isinstance(s, int):
            return int(s)
        if case.get("sub_as") == "list":
            return aa.Array2D(values=[int(v) for v in s], mask=mask)
        return aa.Array2D(values=np.array([int(v) for v in s]), mask=mask)

    @staticmethod
    def _values_arg(case):
        """the sub-values in the container / dtype the case asks for (same real numbers)"""
        fr = [F(v) for v in case["values"]]
        how = case.get("values_as", "f64")
        if how == "i64":
            return np.array([int(v) for v in fr], dtype=np.int64)
        if how == "list_int":
            return [int(v) for v in fr]
        if how == "tuple_int":
            return tuple(int(v) for v in fr)
        if how == "f32":
            return np.array([float(v) for v in fr], dtype=np.float32)
        if how == "list_float":
            return [float(v) for v in fr]
        return np.array([float(v) for v in fr])

    def _uniform_grid(self, aa, case, mask, os_):
        """alternative constructors of the same Grid2D (property anchors: dataset/grids.py, Grid2D)"""
        path = case.get("route") if case["kind"] == "uniform" else case["path"]
        if path == "dataset_grids":
            from autoarray.dataset.grids import GridsDataset

            return GridsDataset(mask=mask, over_sampling=aa.OverSamplingDataset(uniform=os_)).uniform
        if path == "grid_uniform":
            sy, sx, oy, ox = self._geom_numbers(case)
            return aa.Grid2D.uniform(shape_native=(case["mask"]["h"], case["mask"]["w"]),
                                     pixel_scales=(sy, sx), origin=(oy, ox), over_sampling=os_)
        return aa.Grid2D.from_mask(mask=mask, over_sampling=os_)

    def run_impl(self, case):
        if case["kind"] != "uniform":
            # a discrete decision of the user function itself (step / lattice cell / denominator) within
            # 1e-9 of its tie: nothing about this case can be compared
            self._check_margin(self._analysis(case))
        aa = load_autoarray()
        pc = profile_classes()
        mask = self._mask(aa, case)
        kind = case["kind"]
        if kind == "uniform":
            ss = self._sub_size(aa, case, mask)
            route = case.get("route", "direct")
            if route in ("direct", "util"):
                ov = aa.OverSamplerUniform(mask=mask, sub_size=ss)
            elif route == "over_sampling":
                ov = aa.OverSamplingUniform(sub_size=ss).over_sampler_from(mask=mask)
            else:
                ov = self._uniform_grid(aa, case, mask, aa.OverSamplingUniform(sub_size=ss)).over_sampler
            vals = self._values_arg(case)
            if route == "util":
                # the jitted utilities called directly, as autoarray.util.over_sample exposes them
                u = aa.util.over_sample
                n = case["mask"]["bits"].count("0")
                sub_arr = np.array(expand_sub(case, n), dtype=int)
                m2 = np.array(mask)
                b1 = u.binned_array_2d_from(array_2d=np.asarray(vals), mask_2d=m2, sub_size=sub_arr)
                b2 = b1
                grid_v = u.grid_2d_slim_over_sampled_via_mask_from(
                    mask_2d=m2, pixel_scales=mask.pixel_scales, sub_size=sub_arr, origin=mask.origin)
                sfs_v = u.slim_index_for_sub_slim_index_via_mask_2d_from(mask_2d=m2, sub_size=sub_arr)
                nat_v = u.native_sub_index_for_slim_sub_index_2d_from(mask_2d=m2, sub_size=sub_arr)
            else:
                b1 = ov.binned_array_2d_from(array=vals)
                b2 = ov.binned_array_2d_from(array=aa.ArrayIrregular(values=np.asarray(vals)))
                grid_v, sfs_v, nat_v = ov.over_sampled_grid, ov.slim_for_sub_slim, ov.sub_mask_native_for_sub_mask_slim
            return {
                "grid": [qlist(p) for p in np.asarray(grid_v, dtype=float).reshape(-1, 2)],
                "slim_for_sub_slim": [int(v) for v in sfs_v],
                "sub_native": [[int(a), int(b)] for a, b in np.asarray(nat_v).reshape(-1, 2)],
                "areas": qlist(np.asarray(ov.sub_pixel_areas, dtype=float)),
                "unmasked_grid": [qlist(p) for p in
                                  np.asarray(mask.derive_grid.unmasked, dtype=float).reshape(-1, 2)],
                "binned": _slim(b1),
                "binned_irregular": _slim(b2),
                "sub_total": int(ov.sub_total),
            }
        if kind == "func":
            obj = pc["cls"](f=case["f"], ret_int=bool(case.get("ret_int")))
            path = case["path"]
            ss = self._sub_size(aa, case, mask)
            if path == "sampler":
                ov = aa.OverSamplerUniform(mask=mask, sub_size=ss)
                return {"values": _slim(ov.array_via_func_from(func=pc["plain"], obj=obj))}
            if path == "oversampled_grid":
                ov = aa.OverSamplerUniform(mask=mask, sub_size=ss)
                gos = aa.Grid2DOverSampled(grid=ov.over_sampled_grid, over_sampler=ov,
                                           pixels_in_mask=mask.pixels_in_mask)
                return {"values": _slim(obj.image_2d_from(grid=gos))}
            if path == "none":
                grid = aa.Grid2D.from_mask(mask=mask)
                return {"values": _slim(obj.image_2d_from(grid=grid))}
            os_ = aa.OverSamplingUniform(sub_size=ss)
            if path == "custom_grid":
                ga = case.get("grid_as", "f64")
                if ga == "list_int":
                    gv = [[int(F(a)), int(F(b))] for a, b in case["grid"]]
                elif ga == "i64":
                    gv = np.array([[int(F(a)), int(F(b))] for a, b in case["grid"]], dtype=np.int64).reshape(-1, 2)
                elif ga == "list_float":
                    gv = [[float(F(a)), float(F(b))] for a, b in case["grid"]]
                else:
                    gv = np.array([[float(F(a)), float(F(b))] for a, b in case["grid"]]).reshape(-1, 2)
                if len(gv) == 0:
                    gv = np.zeros((0, 2))   # an empty Python list carries no (y,x) dimension
                grid = aa.Grid2D(values=gv, mask=mask, over_sampling=os_)
                return {"values": _slim(obj.image_2d_from(grid=grid))}
            grid = self._uniform_grid(aa, case, mask, os_)
            if path == "decorator_raw":
                return {"values": _slim(obj.raw_from(grid=grid))}
            return {"values": _slim(obj.image_2d_from(grid=grid))}
        if kind == "iterate":
            def num(v):
                v = F(v)
                return int(v) if (case.get("num_as") == "int" and v.denominator == 1) else float(v)

            fr = None if case["fr"] is None else num(case["fr"])
            rel = None if case["rel"] is None else num(case["rel"])
            steps = [int(s) for s in case["steps"]]
            if case.get("steps_as") == "tuple":
                steps = tuple(steps)
            kw = {"fractional_accuracy": fr, "relative_accuracy": rel, "sub_steps": steps}
            if case.get("kw_style") == "omit_defaults":
                # an argument equal to its documented default is left out: same behaviour required
                if case["fr"] is not None and F(case["fr"]) == F(0.9999):
                    del kw["fractional_accuracy"]
                if rel is None:
                    del kw["relative_accuracy"]
                if list(steps) == [2, 4, 8, 16] and case["path"] != "sampler":
                    del kw["sub_steps"]   # only OverSamplingIterate defaults the schedule
            if "table" in case:
                tab = [np.array([float(F(v)) for v in row]) for row in case["table"]]
                sy, sx, oy, ox = (float(F(v)) for v in case["geom"])
                obj = pc["cls"](table=tab, geom=(sy, sx, oy, ox), shape=(case["mask"]["h"], case["mask"]["w"]),
                                ret_int=bool(case.get("ret_int")))
            else:
                obj = pc["cls"](f=case["f"])
            if case["path"] == "sampler":
                it = aa.OverSamplerIterate(mask=mask, **kw)
                res = it.array_via_func_from(func=pc["plain"], obj=obj)
            elif case["path"] == "via_over_sampling":
                it = aa.OverSamplingIterate(**kw).over_sampler_from(mask=mask)
                res = it.array_via_func_from(func=pc["plain"], obj=obj)
            else:
                os_ = aa.OverSamplingIterate(**kw)
                grid = aa.Grid2D.from_mask(mask=mask, over_sampling=os_)
                res = obj.image_2d_from(grid=grid)
            return {"values": _slim(res)}
        raise ValueError(kind)

    # -------------------------------------------------------------------------------- model
    def model_requests(self, case, impl_obs):
        kind = case["kind"]
        mj = case["mask"]
        n = mj["bits"].count("0")
        if kind == "uniform":
            sub = expand_sub(case, n)
            return [{"op": "c09.uniform", "mask": mj, "sub": sub, "geom": case["geom"]},
                    {"op": "c09.binned", "mask": mj, "sub": sub, "values": case["values"]}]
        if kind == "func":
            path = case["path"]
            if path in ("sampler", "oversampled_grid"):
                return [{"op": "c09.via_func", "mask": mj, "sub": expand_sub(case, n),
                         "geom": case["geom"], "f": case["f"]}]
            s = case["sub"]
            os_ = {"kind": "int", "sub": s} if isinstance(s, int) else {"kind": "arr", "sub": s}
            if path == "custom_grid":
                gv = case["grid"]
            else:
                g = geom_of(case)
                gv = [[q(a), q(b)] for a, b in
                      (pixel_centre(mj["h"], mj["w"], g, y, x) for y, x in unmasked_pixels(mj))]
            return [{"op": "c09.decorate", "mask": mj, "geom": case["geom"], "f": case["f"],
                     "os": os_, "grid": gv}]
        if kind == "iterate":
            if "table" in case:
                return [{"op": "c09.iterate_table", "mask": mj, "table": case["table"],
                         "fr": case["fr"], "rel": case["rel"]}]
            if case["path"] in ("sampler", "via_over_sampling"):
                return [{"op": "c09.iterate", "mask": mj, "geom": case["geom"], "f": case["f"],
                         "fr": case["fr"], "rel": case["rel"], "steps": case["steps"]}]
            g = geom_of(case)
            gv = [[q(a), q(b)] for a, b in
                  (pixel_centre(mj["h"], mj["w"], g, y, x) for y, x in unmasked_pixels(mj))]
            return [{"op": "c09.decorate", "mask": mj, "geom": case["geom"], "f": case["f"], "grid": gv,
                     "os": {"kind": "iterate", "fr": case["fr"], "rel": case["rel"],
                            "steps": case["steps"]}}]
        raise ValueError(kind)

    def model_obs(self, case, responses):
        for r in responses:
            if "ok" not in r:
                return {"err": r.get("err")}
        if case["kind"] == "uniform":
            u = dict(responses[0]["ok"])
            u["binned"] = responses[1]["ok"]
            u["binned_irregular"] = responses[1]["ok"]
            u["sub_total"] = len(u["grid"])
            return u
        return {"values": responses[0]["ok"]}

    # -------------------------------------------------------------------------------- analysis shared by compare / oracle
    def _analysis(self, case):
        """exact expectation of the property for this case + tie-band information (cached)."""
        if "_analysis" in case:
            return case["_analysis"]
        mj = case["mask"]
        h, w = mj["h"], mj["w"]
        g = geom_of(case)
        px = unmasked_pixels(mj)
        n = len(px)
        kind = case["kind"]
        a = {}
        if kind == "uniform":
            sub = expand_sub(case, n)
            grid, sfs, nat = [], [], []
            for k, (y, x) in enumerate(px):
                pts = sub_centres(g, pixel_centre(h, w, g, y, x), sub[k])
                grid += pts
                sfs += [k] * (sub[k] ** 2)
                nat += [(y * sub[k] + a1, x * sub[k] + b1) for a1 in range(sub[k]) for b1 in range(sub[k])]
            a.update(grid=grid, sfs=sfs, nat=nat, sub=sub)
        elif kind == "func":
            margins = []
            sub = expand_sub(case, n)
            f = case["f"]
            exp, err = [], []
            if all(s == 1 for s in sub) and case["path"] == "custom_grid":
                for p in case["grid"]:
                    v, e = mean_with_err(f, [(F(p[0]), F(p[1]))], margins, True)
                    exp.append(v)
                    err.append(e)
            else:
                for k, (y, x) in enumerate(px):
                    pts = sub_centres(g, pixel_centre(h, w, g, y, x), sub[k])
                    v, e = mean_with_err(f, pts, margins, geom_float_exact(g) and is_pow2(sub[k]))
                    exp.append(v)
                    err.append(e)
            a.update(loose=[2 * e > BAND * max(1, abs(v)) for v, e in zip(exp, err)])
            a.update(expected=exp, margin=min(margins) if margins else None)
        else:
            margins = []
            errs = []
            if "table" in case:
                idx = [i for i, c in enumerate(mj["bits"]) if c == "0"]
                table = [[F(row[i]) for i in idx] for row in case["table"]]
                # binning a per-pixel constant: exact for power-of-two sub-sizes, else a few ulps
                errs = [[F(0) if case.get("exact") else ERRK * abs(v) for v in row] for row in table]
            else:
                table = level_table(mj, g, case["f"], case["steps"], margins, errs)
            fr = None if case["fr"] is None else F(case["fr"])
            rel = None if case["rel"] is None else F(case["rel"])
            exp, band = iterate_expected(table, fr, rel, bool(case.get("exact")), errs)
            all_zero = all(v == 0 for v in table[0])
            # the early return tests `np.any(array_sub_1)`: a discrete decision on real values.  When
            # every exact level-0 value is within the band of zero it is only compared if the doubles
            # the implementation sees are known (explicit table, or exactly representable geometry
            # and an evaluation that gives the same all-zero verdict in doubles).
            uncertain = all(abs(v) <= BAND for v in table[0]) and any(e > 0 for e in errs[0])
            a.update(expected=exp, band=band, table=table, margin=min(margins) if margins else None,
                     all_zero_level0=all_zero, early_uncertain=uncertain)
        case["_analysis"] = a
        return a

    def _check_margin(self, a):
        if a.get("margin") is not None and a["margin"] <= BAND:
            raise Skip("a discrete decision of the user function lies within 1e-9 of its tie")

    def compare(self, case, impl_obs, model_obs, cmp):
        if case["kind"] == "iterate":
            a = self._analysis(case)
            self._check_margin(a)
            if a["early_uncertain"]:
                raise Skip("all level-0 values within 1e-9 of zero: the all-zero early return is inside the tie band")
            iv, mv = impl_obs.get("values"), model_obs.get("values")
            if isinstance(iv, list) and isinstance(mv, list) and len(iv) == len(mv) == len(a["band"]):
                iv = [None if b else v for v, b in zip(iv, a["band"])]
                mv = [None if b else v for v, b in zip(mv, a["band"])]
                return cmp.diff({"values": iv}, {"values": mv})
        elif case["kind"] == "func":
            a = self._analysis(case)
            self._check_margin(a)
            iv, mv = impl_obs.get("values"), model_obs.get("values")
            if any(a["loose"]) and isinstance(iv, list) and isinstance(mv, list) \
                    and len(iv) == len(mv) == len(a["loose"]):
                iv = [None if b else v for v, b in zip(iv, a["loose"])]
                mv = [None if b else v for v, b in zip(mv, a["loose"])]
                return cmp.diff({"values": iv}, {"values": mv})
        return cmp.diff(impl_obs, model_obs)

    # -------------------------------------------------------------------------------- oracle
    @staticmethod
    def _close(a, b):
        a, b = F(a), F(b)
        return abs(a - b) <= BAND * max(1, abs(a), abs(b))

    def oracle(self, case, obs):
        if not isinstance(obs, dict) or "err" in obs:
            return False, f"implementation raised {obs}"
        a = self._analysis(case)
        kind = case["kind"]
        mj = case["mask"]
        n = mj["bits"].count("0")
        g = geom_of(case)
        if kind == "uniform":
            sub = a["sub"]
            if obs["sub_total"] != sum(s * s for s in sub) or len(obs["grid"]) != len(a["grid"]):
                return False, "over-sampled grid does not hold sub_size^2 points per unmasked pixel"
            for i, (p, e) in enumerate(zip(obs["grid"], a["grid"])):
                if not (self._close(p[0], e[0]) and self._close(p[1], e[1])):
                    return False, (f"over-sampled grid point {i} = ({float(F(p[0]))}, {float(F(p[1]))}) is not the "
                                   f"centre ({float(e[0])}, {float(e[1])}) of its cell of the uniform partition "
                                   f"(pixel {a['sfs'][i]}, sub {sub[a['sfs'][i]]})")
            if obs["slim_for_sub_slim"] != a["sfs"]:
                return False, "slim_for_sub_slim is not each slim index repeated sub^2 times in order"
            vals = [F(v) for v in case["values"]]
            off = 0
            for k in range(n):
                blk = vals[off:off + sub[k] ** 2]
                off += sub[k] ** 2
                mean = sum(blk) / len(blk)
                for key in ("binned", "binned_irregular"):
                    if not self._close(obs[key][k], mean):
                        return False, f"{key}[{k}] = {float(F(obs[key][k]))} is not the mean {float(mean)} of the pixel's own sub-values"
            sy, sx = g[0], g[1]
            ar = [F(v) for v in obs["areas"]]
            if len(ar) != len(a["grid"]):
                return False, "sub_pixel_areas does not have one entry per sub-pixel"
            if not self._close(sum(ar), n * sy * sx):
                return False, "sub-pixel areas do not sum to the unmasked area"
            cen = [pixel_centre(mj["h"], mj["w"], g, y, x) for y, x in unmasked_pixels(mj)]
            # the mean of each pixel's sub-centres is its centre (affine functions reproduced)
            off = 0
            for k in range(n):
                blk = obs["grid"][off:off + sub[k] ** 2]
                off += sub[k] ** 2
                my = sum(F(p[0]) for p in blk) / len(blk)
                mx = sum(F(p[1]) for p in blk) / len(blk)
                if not (self._close(my, cen[k][0]) and self._close(mx, cen[k][1])):
                    return False, f"mean of pixel {k}'s sub-centres is not the pixel centre"
            return True, ""
        self._check_margin(a)
        if a.get("early_uncertain") and not a["all_zero_level0"]:
            raise Skip("all level-0 values within 1e-9 of zero but not exactly zero")
        vals = obs.get("values")
        if not isinstance(vals, list) or len(vals) != n:
            return False, f"result does not have one value per unmasked pixel: {str(vals)[:100]}"
        if any(not common.Cmp._rat.match(v) for v in vals):
            return False, f"non-finite value in result: {vals[:8]}"
        if kind == "func":
            for k, (v, e) in enumerate(zip(vals, a["expected"])):
                if a["loose"][k]:
                    continue   # cancellation: the double result is not determined to 1e-9
                if not self._close(v, e):
                    return False, (f"pixel {k}: result {float(F(v))} is not the mean {float(e)} of the function over "
                                   f"the pixel's sub-centres (path {case['path']}, sub {case['sub']})")
            return True, ""
        for k, (v, e, b) in enumerate(zip(vals, a["expected"], a["band"])):
            if b:
                continue
            if not self._close(v, e):
                col = [float(r[k]) for r in a["table"]]
                return False, (f"pixel {k}: result {float(F(v))} is not the value {float(e)} the stopping rule "
                               f"selects; level values {col}, fractional_accuracy {case['fr']}, "
                               f"relative_accuracy {case['rel']}, schedule {case['steps']}")
        return True, ""

    # -------------------------------------------------------------------------------- bookkeeping
    def nontrivial(self, case, obs):
        n = case["mask"]["bits"].count("0")
        if case["kind"] == "uniform":
            return any(s >= 2 for s in expand_sub(case, n))
        if case["kind"] == "func":
            return any(s >= 2 for s in expand_sub(case, n)) or case["f"][0] != "c"
        return len(case["steps"]) >= 2

    def known_finding(self, case, obs):
        """D15: OverSamplerIterate.array_via_func_from returns the sub-size-1 array when it is all zero.
        Predicate on the input: the function / table is exactly zero at every unmasked pixel centre
        while the value the rule selects is non-zero for some pixel."""
        if case["kind"] != "iterate":
            return None
        a = self._analysis(case)
        if a["all_zero_level0"] and any(e != 0 for e in a["expected"]):
            return "D15"
        return None

    def shrink(self, case):
        """candidates of `_shrink`, never leaving the class of the original failure: a failing case
        outside the known-finding class D15 must not be minimised INTO that class (the minimiser only
        asks whether the oracle still fails, and a D15 failure would then hide the real one)."""
        try:
            orig = self.known_finding(case, None)
        except Exception:
            orig = None
        for c2 in self._shrink(case):
            if orig is None:
                try:
                    if self.known_finding(c2, None) is not None:
                        continue
                except Exception:
                    continue
            yield c2

    def _shrink(self, case):
        """drop one unmasked pixel (with its sub-size entry, its block of values, its grid row), lower a
        sub-size, shorten the schedule."""
        mj = case["mask"]
        bits = mj["bits"]
        base = {k: v for k, v in case.items() if not k.startswith("_") and k != "corpus_file"}
        un = [i for i, c in enumerate(bits) if c == "0"]
        n = len(un)
        if n > 1:
            for k, i in enumerate(un):
                c2 = dict(base)
                c2["mask"] = {**mj, "bits": bits[:i] + "1" + bits[i + 1:]}
                sub = case.get("sub")
                if isinstance(sub, list):
                    c2["sub"] = sub[:k] + sub[k + 1:]
                if case["kind"] == "uniform":
                    full = expand_sub(case, n)
                    off = sum(s * s for s in full[:k])
                    c2["values"] = case["values"][:off] + case["values"][off + full[k] ** 2:]
                if "grid" in case:
                    c2["grid"] = case["grid"][:k] + case["grid"][k + 1:]
                yield c2
        sub = case.get("sub")
        if isinstance(sub, list) and case["kind"] != "uniform":
            for k, sk in enumerate(sub):
                if sk > 1:
                    c2 = dict(base)
                    c2["sub"] = sub[:k] + [1] + sub[k + 1:]
                    yield c2
        if case["kind"] == "iterate" and "table" not in case and len(case["steps"]) > 1:
            for i in range(len(case["steps"])):
                c2 = dict(base)
                c2["steps"] = case["steps"][:i] + case["steps"][i + 1:]
                yield c2

    def theorems_for(self, case):
        if case["kind"] == "uniform":
            return ["C09.a_grid_eq_partition_centres", "C09.b_slimForSubSlim", "C09.c_binned_is_mean",
                    "C09.c_areas_sum"]
        if case["kind"] == "func":
            return ["C09.c_via_func_is_cell_mean", "C09.d_decorated_from_mask", "C09.d_decorated_dispatch"]
        return ["C09.e_iterate_first_agreeing_level", "C09.e_table_loop", "C09.e_early_return",
                "C09.d_decorated_iterate"]

    def sample_view(self, case):
        return {k: v for k, v in case.items() if not k.startswith("_")}


CHECK = C09()
